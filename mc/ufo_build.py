"""Plain-data font specs -> fresh real ufoLib2 / defcon Font objects (and designspaces).

Spec (all keys optional except glyphs):
  {"glyphs": {name: {"width": w, "height": h, "unicodes": [..], "contours": [[(x, y, type[, smooth]) ...]],
                     "components": [(base, [xx, xy, yx, yy, dx, dy])], "anchors": [(name, x, y)],
                     "lib": {...}, "open": [bool per contour] }},
   "order": [names] | None      (None -> no public.glyphOrder key at all)
   "kerning": {"a b": v} or [[l, r, v]], "groups": {name: [..]}, "features": str,
   "lib": {...}, "info": {...},
   "layers": {layerName: {"glyphs": {...}, "lib": {...}}}}
Point type is one of "line", "curve", "qcurve", "move", None (off-curve).
Glyph insertion order is the dict order of spec["glyphs"].
"""

from __future__ import annotations

import copy
import os
import shutil
import tempfile

DEFAULT_INFO = {
    "familyName": "Verif",
    "styleName": "Regular",
    "unitsPerEm": 1000,
    "ascender": 800,
    "descender": -200,
    "xHeight": 500,
    "capHeight": 700,
}


def font_class(module: str):
    if module == "defcon":
        import defcon
        return defcon.Font
    import ufoLib2
    return ufoLib2.Font


def _draw(glyph, gspec):
    pen = glyph.getPointPen()
    opens = gspec.get("open") or []
    ident = bool(gspec.get("identifiers"))  # contour / point identifiers, unique within the glyph
    for ci, contour in enumerate(gspec.get("contours", ())):
        if ident:
            pen.beginPath(identifier="c%d" % ci)
        else:
            pen.beginPath()
        is_open = ci < len(opens) and opens[ci]
        for pi, pt in enumerate(contour):
            x, y, typ = pt[0], pt[1], pt[2]
            smooth = bool(pt[3]) if len(pt) > 3 else False
            if is_open and pi == 0:
                typ = "move"
            if ident:
                pen.addPoint((x, y), segmentType=typ, smooth=smooth, identifier="p%d_%d" % (ci, pi))
            else:
                pen.addPoint((x, y), segmentType=typ, smooth=smooth)
        pen.endPath()
    for base, t in gspec.get("components", ()):
        pen.addComponent(base, tuple(t))


def _fill_glyph(glyph, gspec):
    glyph.width = gspec.get("width", 500)
    if "height" in gspec:
        glyph.height = gspec["height"]
    if gspec.get("unicodes"):
        glyph.unicodes = list(gspec["unicodes"])
    _draw(glyph, gspec)
    for a in gspec.get("anchors", ()):
        if hasattr(glyph, "appendAnchor"):
            d = {"name": a[0], "x": a[1], "y": a[2]}
            if len(a) > 3:  # (name, x, y, identifier): objects referred to from public.objectLibs
                d["identifier"] = a[3]
            glyph.appendAnchor(d)
    for k, v in (gspec.get("lib") or {}).items():
        glyph.lib[k] = copy.deepcopy(v)
    if "verticalOrigin" in gspec:
        glyph.lib["public.verticalOrigin"] = gspec["verticalOrigin"]


def build_font(spec: dict, module: str = "ufoLib2"):
    cls = font_class(module)
    font = cls()
    info = dict(DEFAULT_INFO)
    info.update(spec.get("info") or {})
    for k, v in info.items():
        if v is not None:
            setattr(font.info, k, copy.deepcopy(v))
    for name, gspec in spec["glyphs"].items():
        g = font.newGlyph(name)
        _fill_glyph(g, gspec)
    for lname, lspec in (spec.get("layers") or {}).items():
        layer = font.newLayer(lname)
        for name, gspec in lspec.get("glyphs", {}).items():
            g = layer.newGlyph(name)
            _fill_glyph(g, gspec)
        for k, v in (lspec.get("lib") or {}).items():
            layer.lib[k] = copy.deepcopy(v)
    kerning = spec.get("kerning") or {}
    if isinstance(kerning, dict):
        items = []
        for k, v in kerning.items():
            l, r = k.split(" ") if isinstance(k, str) else k
            items.append((l, r, v))
    else:
        items = kerning
    for l, r, v in items:
        font.kerning[(l, r)] = v
    for k, v in (spec.get("groups") or {}).items():
        font.groups[k] = list(v)
    if spec.get("features"):
        font.features.text = spec["features"]
    for k, v in (spec.get("lib") or {}).items():
        font.lib[k] = copy.deepcopy(v)
    # defcon maintains public.glyphOrder as a side effect of newGlyph; make both libraries agree
    order = spec.get("order", None)
    if order is None:
        if "public.glyphOrder" in font.lib and "public.glyphOrder" not in (spec.get("lib") or {}):
            del font.lib["public.glyphOrder"]
    else:
        font.lib["public.glyphOrder"] = list(order)
    return font


_SCRATCH = None


def scratch_dir():
    """Per-process scratch directory outside /repo and /verif; removed at exit."""
    global _SCRATCH
    if _SCRATCH is None or not os.path.isdir(_SCRATCH) or _SCRATCH_PID != os.getpid():
        _new_scratch()
    return _SCRATCH


_SCRATCH_PID = None


def _new_scratch():
    global _SCRATCH, _SCRATCH_PID
    import atexit
    base = os.environ.get("MC_SCRATCH", tempfile.gettempdir())
    _SCRATCH = tempfile.mkdtemp(prefix="ufo2ft-mc-", dir=base)
    _SCRATCH_PID = os.getpid()
    d, pid = _SCRATCH, _SCRATCH_PID

    def _rm():
        if os.getpid() == pid:
            shutil.rmtree(d, ignore_errors=True)
    atexit.register(_rm)


def save_and_reopen(font, module: str = "ufoLib2", lazy: bool = True, name="f.ufo"):
    path = os.path.join(scratch_dir(), name)
    if os.path.exists(path):
        shutil.rmtree(path)
    font.save(path)
    if module == "defcon":
        import defcon
        return defcon.Font(path)
    import ufoLib2
    return ufoLib2.Font.open(path, lazy=lazy)


def build_designspace(axes, sources, rules=None, lib=None, instances=None, module="ufoLib2",
                      variable_fonts=None, format_version=None):
    """axes: [{"name","tag","min","default","max","map":[(i,o)]}];
    sources: [{"spec": fontspec | "font": Font, "location": {axis: v}, "layerName": None|str,
               "name": str, "familyName"..}]."""
    from fontTools.designspaceLib import (AxisDescriptor, DesignSpaceDocument, InstanceDescriptor,
                                          RuleDescriptor, SourceDescriptor)
    ds = DesignSpaceDocument()
    for a in axes:
        if "values" in a:  # discrete axis
            from fontTools.designspaceLib import DiscreteAxisDescriptor
            ad = DiscreteAxisDescriptor()
            ad.name, ad.tag = a["name"], a.get("tag", a["name"][:4].lower().ljust(4))
            ad.values, ad.default = list(a["values"]), a["default"]
            ds.addAxis(ad)
            continue
        ad = AxisDescriptor()
        ad.name = a["name"]
        ad.tag = a.get("tag", a["name"][:4].lower().ljust(4))
        ad.minimum, ad.default, ad.maximum = a["min"], a["default"], a["max"]
        if a.get("map"):
            ad.map = [tuple(m) for m in a["map"]]
        ds.addAxis(ad)
    fonts = {}
    for i, s in enumerate(sources):
        sd = SourceDescriptor()
        if "font" in s:
            sd.font = s["font"]
        else:
            key = s.get("share")  # sparse layer sources share the font object of another source
            if key is not None and key in fonts:
                sd.font = fonts[key]
            else:
                sd.font = build_font(s["spec"], module)
                if key is not None:
                    fonts[key] = sd.font
        sd.location = dict(s["location"])
        sd.name = s.get("name", f"master_{i}")
        sd.layerName = s.get("layerName")
        sd.familyName = s.get("familyName", sd.font.info.familyName)
        sd.styleName = s.get("styleName", sd.font.info.styleName if sd.layerName is None else None)
        sd.filename = s.get("filename", f"master_{i}.ufo")
        ds.addSource(sd)
    for r in rules or ():
        rd = RuleDescriptor()
        rd.name = r["name"]
        rd.conditionSets = r["conditionSets"]
        rd.subs = [tuple(x) for x in r["subs"]]
        ds.addRule(rd)
    for inst in instances or ():
        idesc = InstanceDescriptor()
        for k, v in inst.items():
            setattr(idesc, k, v)
        ds.addInstance(idesc)
    if variable_fonts:
        from fontTools.designspaceLib import RangeAxisSubsetDescriptor, VariableFontDescriptor
        for vf in variable_fonts:
            ds.addVariableFont(VariableFontDescriptor(
                name=vf["name"], lib=copy.deepcopy(vf.get("lib") or {}),
                axisSubsets=[RangeAxisSubsetDescriptor(name=n) if isinstance(n, str) else
                             RangeAxisSubsetDescriptor(name=n["name"], userMinimum=n["min"],
                                                       userDefault=n.get("default"), userMaximum=n["max"])
                             for n in vf["axes"]]))
    for k, v in (lib or {}).items():
        ds.lib[k] = copy.deepcopy(v)
    if format_version:
        ds.formatVersion = format_version
    return ds


# ------------------------------------------------------------------------------------------
# shape palette shared by the outline properties (exact dyadic coordinates)

def box(x0=0, y0=0, x1=100, y1=100):
    return [(x0, y0, "line"), (x1, y0, "line"), (x1, y1, "line"), (x0, y1, "line")]


SHAPES = {
    # counter-clockwise line triangle with a half-integer vertex
    "tri": [[(0, 0, "line"), (100.5, 0, "line"), (40, 80.5, "line")]],
    # cubic blob: two curves and a line
    "cubic": [[(0, 0, "line"), (30, -20, None), (70.5, -20, None), (100, 0, "curve"),
               (120, 40, None), (60, 90.5, None), (0, 50, "curve")]],
    # quadratic blob with two consecutive off-curves (implied on-curve between them)
    "quad": [[(0, 0, "line"), (50, -30.5, None), (100, 0, "qcurve"),
              (130, 50, None), (70, 110, None), (0, 60, "qcurve")]],
    # mixed line / cubic / quadratic contour
    "mixed": [[(0, 0, "line"), (60, 0, "line"), (80, 10, None), (90.5, 30, None), (90, 60, "curve"),
               (50, 100, None), (0, 60, "qcurve")]],
    # two contours (outer ccw, inner cw)
    "two": [[(0, 0, "line"), (200, 0, "line"), (200, 200, "line"), (0, 200, "line")],
            [(50, 50, "line"), (50, 150.5, "line"), (150, 150, "line"), (150, 50, "line")]],
    # contour whose first stored point is an off-curve
    "offstart": [[(30, -20, None), (70, -20, None), (100, 0, "curve"), (100, 60.5, "line"),
                  (0, 60, "line"), (0, 0, "line")]],
    # large coordinates
    # (head/hhea fields are int16 and CFF deltas must stay below 32768: keep |coord| <= 16383.5,
    #  used with rigid / shrinking transforms only)
    "large": [[(-16383, -16383, "line"), (16383.5, -16383, "line"), (16383.5, 16382.5, "line"),
               (-16383, 16382.5, "line")]],
}

# transforms (xx, xy, yx, yy, dx, dy); all entries dyadic so compositions are exact in binary64
TRANSFORMS = {
    "id": (1, 0, 0, 1, 0, 0),
    "shift": (1, 0, 0, 1, 10.5, -3),
    "half": (0.5, 0, 0, 0.5, 0, 0),
    "x1.5": (1.5, 0, 0, 1.5, 7, 0),
    "flipx": (-1, 0, 0, 1, 100, 0),
    "flipy": (1, 0, 0, -1, 0, 50.5),
    "rot90": (0, 1, -1, 0, 20, 0),
    "shear": (1, 0, 0.5, 1, 0, 0),
    "flipshear": (-1, 0, 0.5, 1, 3.5, 0.5),
    # thorough-only additions
    "rot180": (-1, 0, 0, -1, 50, 50),
    "squash": (1, 0, 0, 0.25, 0, 10),
    "neg": (-0.5, 0, 0, -0.5, 1.5, 2.5),
    "swapxy": (0, 1, 1, 0, 0, 0),
    "shear2": (1, 0.25, 0, 1, -5, 5.5),
}
QUICK_TRANSFORMS = ["id", "shift", "half", "x1.5", "flipx", "flipy", "rot90", "shear", "flipshear"]
ALL_TRANSFORMS = list(TRANSFORMS)
