"""Independent outline semantics used as the reference model of C01/C02/C12/C13/C15.

Works on plain-data glyph specs (see mc/ufo_build.py), never calls a fontTools pen to *produce*
expectations.  A contour is handled as a cycle of segments

    (kind, offs, end)      kind in {"line", "curve", "qcurve"}, offs = tuple of control points

each starting where the previous one ends.  Components are resolved recursively; a component
whose 2x2 matrix has negative determinant contributes reversed contours (nested flips cancel).
"""

from __future__ import annotations

import math
from fractions import Fraction


def otround(v):
    return int(math.floor(v + 0.5))


def is_half(v, eps=1e-9):
    f = v - math.floor(v)
    return abs(f - 0.5) < eps


# ---- point-pen contours -> segment cycles ------------------------------------------------

def contour_to_segments(points):
    """points: [(x, y, type[, smooth])] closed contour in UFO point order.
    Returns a list of (kind, offs, end) forming a cycle, starting after the first on-curve point.
    All-off-curve contours return a single ('qcurve', offs, None) special segment."""
    n = len(points)
    on = [i for i, p in enumerate(points) if p[2] is not None]
    if not on:
        return [("qcurve", tuple((p[0], p[1]) for p in points), None)]
    start = on[0]
    rot = [points[(start + 1 + i) % n] for i in range(n)]  # ends with the first on-curve point
    segs, offs = [], []
    for p in rot:
        if p[2] is None:
            offs.append((p[0], p[1]))
            continue
        kind = p[2]
        if kind == "move":
            kind = "line"
        if kind == "curve" and not offs:
            kind = "line"
        if kind == "qcurve" and not offs:
            kind = "line"
        segs.append((kind, tuple(offs), (p[0], p[1])))
        offs = []
    return segs


def reverse_segments(segs):
    """Reverse the direction of a segment cycle."""
    n = len(segs)
    out = []
    for i in range(n - 1, -1, -1):
        kind, offs, end = segs[i]
        start = segs[i - 1][2]
        out.append((kind, tuple(reversed(offs)), start))
    return out


def transform_point(t, p):
    xx, xy, yx, yy, dx, dy = t
    x, y = p
    return (xx * x + yx * y + dx, xy * x + yy * y + dy)


def compose(outer, inner):
    """Matrix of applying `inner` first, then `outer` (both 6-tuples)."""
    a, b, c, d, e, f = inner
    A, B, C, D, E, F = outer
    return (A * a + C * b, B * a + D * b, A * c + C * d, B * c + D * d,
            A * e + C * f + E, B * e + D * f + F)


def det(t):
    return t[0] * t[3] - t[1] * t[2]


def transform_segments(t, segs):
    out = [(k, tuple(transform_point(t, o) for o in offs), transform_point(t, end)) for k, offs, end in segs]
    return out


def resolve(glyphs, name, _stack=()):
    """Fully resolved contours (list of segment cycles) of glyph `name` in the spec dict
    `glyphs`: own contours first, then each component's resolved contours in component order,
    transformed; reversed when the component's determinant is negative."""
    if name in _stack:
        raise ValueError("cyclic component reference: " + name)
    g = glyphs[name]
    out = [contour_to_segments(c) for c in g.get("contours", ())]
    for base, t in g.get("components", ()):
        if base not in glyphs:
            continue
        sub = resolve(glyphs, base, _stack + (name,))
        t = tuple(t)
        for segs in sub:
            s2 = transform_segments(t, segs)
            if det(t) < 0:
                s2 = reverse_segments(s2)
            out.append(s2)
    return out


def component_depth(glyphs, name):
    g = glyphs[name]
    comps = [b for b, _ in g.get("components", ()) if b in glyphs]
    if not comps:
        return 0
    return 1 + max(component_depth(glyphs, b) for b in comps)


# ---- quadratic handling ------------------------------------------------------------------

def split_qcurve(start, offs, end):
    """TrueType-style run of off-curves -> list of single quadratic segments (q, end)."""
    out = []
    for i, q in enumerate(offs):
        if i + 1 < len(offs):
            nx = offs[i + 1]
            e = ((q[0] + nx[0]) * 0.5, (q[1] + nx[1]) * 0.5)
        else:
            e = end
        out.append((q, e))
    return out


def elevate(p0, q, p1):
    """Exact degree elevation of a quadratic (as Fractions) -> two cubic control points."""
    f = Fraction
    c1 = (f(p0[0]) + f(2, 3) * (f(q[0]) - f(p0[0])), f(p0[1]) + f(2, 3) * (f(q[1]) - f(p0[1])))
    c2 = (f(p1[0]) + f(2, 3) * (f(q[0]) - f(p1[0])), f(p1[1]) + f(2, 3) * (f(q[1]) - f(p1[1])))
    return c1, c2


def cubic_expectation(segs):
    """Segment cycle -> cycle of ('line'|'curve', [points...]) with *unrounded* exact points,
    quadratic runs replaced by their degree elevation (what a cubic-only format must store).
    Points are (x, y) floats or Fractions."""
    out = []
    n = len(segs)
    for i, (kind, offs, end) in enumerate(segs):
        start = segs[i - 1][2]
        if kind == "line":
            out.append(("line", [end]))
        elif kind == "curve":
            if len(offs) == 2:
                out.append(("curve", [offs[0], offs[1], end]))
            else:
                raise ValueError("unsupported cubic segment with %d off-curves" % len(offs))
        elif kind == "qcurve":
            cur = start
            for q, e in split_qcurve(start, offs, end):
                c1, c2 = elevate(cur, q, e)
                out.append(("curve", [c1, c2, e]))
                cur = e
        else:
            raise ValueError(kind)
    return out


# ---- cyclic comparison -------------------------------------------------------------------

def cyclic_equal(a, b, eq=None):
    """Is list a a rotation of list b (element equality `eq`)?"""
    if len(a) != len(b):
        return False
    if not a:
        return True
    eq = eq or (lambda x, y: x == y)
    n = len(a)
    for r in range(n):
        if all(eq(a[i], b[(i + r) % n]) for i in range(n)):
            return True
    return False


def merge_axis_collinear(cycle):
    """Remove every vertex joining two line segments that are both horizontal or both vertical
    (what fontTools' charstring specialiser does with adjacent hlineto/vlineto).  `cycle` is a
    list of (kind, [pts]); returns a new cycle."""
    segs = [(k, list(p)) for k, p in cycle]
    changed = True
    while changed and len(segs) > 1:
        changed = False
        n = len(segs)
        for i in range(n):
            a, b = segs[i - 1], segs[i]
            if a[0] != "line" or b[0] != "line":
                continue
            start = segs[i - 2][1][-1]
            mid, end = a[1][-1], b[1][-1]
            horiz = start[1] == mid[1] == end[1]
            vert = start[0] == mid[0] == end[0]
            if horiz or vert:
                del segs[i - 1 if i else n - 1]
                changed = True
                break
    return segs


# ---- readers for compiled fonts ----------------------------------------------------------

def recording_to_cycles(value, close_eps=0):
    """RecordingPen.value -> list of cycles of ('line'|'curve'|'qcurve', [pts]) for closed paths.
    The implied closing line is made explicit unless the path already ends at its start."""
    cycles, cur, p0, last = [], None, None, None
    for op, args in value:
        if op == "moveTo":
            cur, p0, last = [], args[0], args[0]
        elif op == "lineTo":
            cur.append(("line", [args[0]]))
            last = args[0]
        elif op == "curveTo":
            cur.append(("curve", list(args)))
            last = args[-1]
        elif op == "qCurveTo":
            cur.append(("qcurve", list(args)))
            last = args[-1]
        elif op in ("closePath", "endPath"):
            if cur is not None:
                if abs(last[0] - p0[0]) > close_eps or abs(last[1] - p0[1]) > close_eps:
                    cur.append(("line", [p0]))
                cycles.append(cur)
            cur = None
    return cycles


def glyf_contours(glyph):
    """A simple glyf glyph -> list of contours, each a list of (x, y, kind) with kind in
    {'on', 'off', 'cubic'} (cubic = off-curve flagged as cubic)."""
    from fontTools.ttLib.tables._g_l_y_f import flagCubic, flagOnCurve
    if glyph.numberOfContours <= 0:
        return []
    out, start = [], 0
    coords, flags = glyph.coordinates, glyph.flags
    for end in glyph.endPtsOfContours:
        c = []
        for i in range(start, end + 1):
            f = flags[i]
            kind = "on" if f & flagOnCurve else ("cubic" if f & flagCubic else "off")
            c.append((coords[i][0], coords[i][1], kind))
        out.append(c)
        start = end + 1
    return out


# ---- Bezier evaluation (distance oracle of C02) -------------------------------------------

def cubic_at(p0, p1, p2, p3, t):
    mt = 1 - t
    a, b, c, d = mt * mt * mt, 3 * mt * mt * t, 3 * mt * t * t, t * t * t
    return (a * p0[0] + b * p1[0] + c * p2[0] + d * p3[0], a * p0[1] + b * p1[1] + c * p2[1] + d * p3[1])


def quad_at(p0, p1, p2, t):
    mt = 1 - t
    a, b, c = mt * mt, 2 * mt * t, t * t
    return (a * p0[0] + b * p1[0] + c * p2[0], a * p0[1] + b * p1[1] + c * p2[1])


def spline_points(start, offs, end, samples):
    """Sample a TrueType quadratic run start-[offs]-end."""
    pts = []
    cur = start
    for q, e in split_qcurve(start, offs, end):
        for i in range(samples + 1):
            pts.append(quad_at(cur, q, e, i / samples))
        cur = e
    if not offs:
        pts = [start, end]
    return pts


def dist_point_polyline(p, poly):
    best = float("inf")
    for i in range(len(poly) - 1):
        a, b = poly[i], poly[i + 1]
        dx, dy = b[0] - a[0], b[1] - a[1]
        L = dx * dx + dy * dy
        if L == 0:
            t = 0
        else:
            t = max(0.0, min(1.0, ((p[0] - a[0]) * dx + (p[1] - a[1]) * dy) / L))
        q = (a[0] + t * dx, a[1] + t * dy)
        d = math.hypot(p[0] - q[0], p[1] - q[1])
        if d < best:
            best = d
    return best


def hausdorff(poly_a, poly_b):
    d1 = max(dist_point_polyline(p, poly_b) for p in poly_a)
    d2 = max(dist_point_polyline(p, poly_a) for p in poly_b)
    return max(d1, d2)


def bounds_of_points(pts):
    xs = [p[0] for p in pts]
    ys = [p[1] for p in pts]
    return (min(xs), min(ys), max(xs), max(ys))
