"""Independent statement of the UFO3 fontinfo -> OpenType table-field map and of every fallback.

Written from the UFO3 fontinfo.plist specification (which names, for every attribute, the OpenType
field it "corresponds to") and the OpenType specification (name IDs, OS/2, hhea, head, post, CFF).
The fallback values are those *documented* by ufo2ft (docstrings of Lib/ufo2ft/fontInfoData.py, its
static fallback table, and the makeotf defaults quoted in setupTable_OS2), restated here in exact
rational arithmetic; nothing is imported from ufo2ft.

`expected_fields(info, flavour)` returns {(table, field): Expect}.  `info` is a plain dict holding
only the explicitly set attributes.  An Expect is a small tuple:

  ("eq", value)              the reloaded field equals value
  ("int", exact, strict)     integral field: strict -> == otround(exact); otherwise the documented
                             formula is a compound of several source values and some operand or the
                             result is fractional, where "round the result" and "round the operands"
                             are both readings of the documentation: |field - exact| <= 1
  ("fixed", value, eps)      |field - value| <= eps   (16.16 fields, CFF reals)
  ("absent",)                the record / field is not present
  ("str", value)             name-record string equality
  ("ascii", source)          string stored in a format that wants ASCII: see ascii_reduction_ok
  ("psname", source, strict) generated / explicit PostScript font name: see psname_ok
  ("oneof", [values])        any of the listed values
  ("masked", value, mask)    bit field compared under a mask
"""

from __future__ import annotations

import math
import time
import calendar
from fractions import Fraction

STYLE_MAP_NAMES = ("regular", "bold", "italic", "bold italic")

# characters a PostScript font name (name ID 6, CFF Name INDEX) may not contain: OpenType name ID 6
PS_EXCLUDED = set("[](){}<>/%")


def otround(v):
    return int(math.floor(Fraction(v) + Fraction(1, 2)))


def F(v):
    """Exact rational of an int / float source value."""
    return Fraction(v)


def is_integral(v):
    return Fraction(v).denominator == 1


def bitlist(bits, lo=0, n=16):
    out = 0
    for b in set(bits):
        if lo <= b < lo + n:
            out |= 1 << (b - lo)
    return out


def ps_legal_char(ch):
    return 33 <= ord(ch) <= 126 and ch not in PS_EXCLUDED


def psname_illegal(name):
    """Characters of `name` that the property forbids in a PostScript font name, by class."""
    out = {}
    for ch in name:
        if ps_legal_char(ch):
            continue
        o = ord(ch)
        if ch == " ":
            cls = "space"
        elif ch in PS_EXCLUDED:
            cls = "delimiter"
        elif o < 32 or o == 127:
            cls = "control"
        else:
            cls = "non-ascii"
        out.setdefault(cls, []).append(ch)
    return out


def is_subsequence(small, big):
    it = iter(big)
    return all(ch in it for ch in small)


def psname_ok(source, observed):
    """`observed` is an acceptable PostScript name derived from `source`: only legal characters, the
    legal characters of the source survive in order, and a fully legal source is kept verbatim."""
    if psname_illegal(observed):
        return False
    kept = "".join(ch for ch in source if ps_legal_char(ch))
    if kept == source:
        return observed == source
    return is_subsequence(kept, observed)


def ascii_safe_char(ch):
    return 32 <= ord(ch) <= 126 and ch not in PS_EXCLUDED


def ascii_reduction_ok(source, observed):
    """`observed` is `source` as given, or a reduction of it to printable ASCII that keeps every
    PostScript-safe ASCII character of the source in order (a fully safe source is kept verbatim)."""
    if observed == source:
        return True
    if any(not (32 <= ord(ch) <= 126) for ch in observed):
        return False
    kept = "".join(ch for ch in source if ascii_safe_char(ch))
    if kept == source:
        return False
    return is_subsequence(kept, observed)


def date_to_mac_timestamp(s):
    t = time.strptime(s, "%Y/%m/%d %H:%M:%S")
    return calendar.timegm(t) + 2082844800  # seconds between 1904-01-01 and 1970-01-01


class InfoRef:
    def __init__(self, info: dict, source_date_epoch: int):
        self.info = {k: v for k, v in info.items() if v is not None}
        self.epoch = source_date_epoch

    # -- attribute values: explicit or documented fallback -------------------------------------
    def has(self, a):
        return a in self.info

    def src(self, a):
        return "explicit" if a in self.info else "fallback"

    def val(self, a):
        if a in self.info:
            return self.info[a]
        fb = getattr(self, "_fb_" + a, None)
        if fb is not None:
            return fb()
        return STATIC.get(a)

    def _fb_ascender(self):
        return otround(F(self.val("unitsPerEm")) * Fraction(8, 10))

    def _fb_descender(self):
        return -otround(F(self.val("unitsPerEm")) * Fraction(2, 10))

    def _fb_capHeight(self):
        return otround(F(self.val("unitsPerEm")) * Fraction(7, 10))

    def _fb_xHeight(self):
        return otround(F(self.val("unitsPerEm")) * Fraction(5, 10))

    def _fb_openTypeNamePreferredFamilyName(self):
        return self.val("familyName")

    def _fb_openTypeNamePreferredSubfamilyName(self):
        return self.val("styleName")

    def _fb_styleMapStyleName(self):
        s = self.val("openTypeNamePreferredSubfamilyName").strip().lower()
        return s if s in STYLE_MAP_NAMES else "regular"

    def _fb_styleMapFamilyName(self):
        fam = self.val("openTypeNamePreferredFamilyName")
        style = self.info.get("styleMapStyleName") or self.val("openTypeNamePreferredSubfamilyName")
        if style.lower() in STYLE_MAP_NAMES:
            style = ""
        return (fam + " " + style).strip()

    def _fb_openTypeNameVersion(self):
        return "Version %d.%03d" % (self.val("versionMajor"), self.val("versionMinor"))

    def _fb_postscriptFullName(self):
        return "%s %s" % (self.val("openTypeNamePreferredFamilyName"),
                          self.val("openTypeNamePreferredSubfamilyName"))

    def psname_source(self):
        if self.has("postscriptFontName"):
            return self.info["postscriptFontName"]
        return "%s-%s" % (self.val("openTypeNamePreferredFamilyName"),
                          self.val("openTypeNamePreferredSubfamilyName"))

    def _fb_openTypeOS2TypoAscender(self):
        return self.val("ascender")

    def _fb_openTypeOS2TypoDescender(self):
        return self.val("descender")

    def _fb_openTypeOS2TypoLineGap(self):
        v = F(self.val("unitsPerEm")) * Fraction(12, 10) - F(self.val("ascender")) + F(self.val("descender"))
        return max(v, 0)

    def _fb_openTypeHheaAscender(self):
        return F(self.val("ascender")) + F(self.val("openTypeOS2TypoLineGap"))

    def _fb_openTypeHheaDescender(self):
        return self.val("descender")

    def _fb_openTypeOS2WinAscent(self):
        return F(self.val("ascender")) + F(self.val("openTypeOS2TypoLineGap"))

    def _fb_openTypeOS2WinDescent(self):
        return abs(F(self.val("descender")))

    def _fb_postscriptUnderlineThickness(self):
        return F(self.val("unitsPerEm")) * Fraction(5, 100)

    def _fb_postscriptUnderlinePosition(self):
        return F(self.val("unitsPerEm")) * Fraction(-75, 1000)

    def _fb_openTypeHeadCreated(self):
        return time.strftime("%Y/%m/%d %H:%M:%S", time.gmtime(self.epoch))

    # whether a value is compound (several source operands) and inexact somewhere
    def _loose(self, attr, operands):
        if self.has(attr):
            return False
        vals = [self.val(o) for o in operands]
        if attr in ("postscriptUnderlineThickness", "postscriptUnderlinePosition"):
            # a single product of an integral unitsPerEm: the value is exact, and rounded like an
            # explicit value would be (halves up)
            return any(not is_integral(v) for v in vals)
        return any(not is_integral(v) for v in vals) or not is_integral(self.val(attr))

    def _int(self, attr, operands=()):
        return ("int", F(self.val(attr)), not self._loose(attr, operands))

    # -- the map ------------------------------------------------------------------------------
    def expected_fields(self, flavour: str, vertical_possible: bool = True) -> dict:
        """flavour: 'ttf' | 'otf' | 'cff2'."""
        E = {}
        v = self.val
        upm = F(v("unitsPerEm"))
        angle = F(v("italicAngle"))
        upm_deps = ("unitsPerEm",)
        gap_deps = ("unitsPerEm", "ascender", "descender")

        # ---- name (Windows platform, English-US) --------------------------------------------
        def rec(nid, value):
            E[("name", nid)] = ("str", value) if value else ("absent",)

        rec(0, v("copyright"))
        rec(1, v("styleMapFamilyName"))
        rec(2, v("styleMapStyleName").title())
        version = v("openTypeNameVersion")
        if self.has("openTypeNameUniqueID"):
            rec(3, v("openTypeNameUniqueID"))
        else:
            E[("name", 3)] = ("uniqueid", version, v("openTypeOS2VendorID"), self.psname_source())
        rec(4, "%s %s" % (v("openTypeNamePreferredFamilyName"), v("openTypeNamePreferredSubfamilyName")))
        rec(5, version)
        E[("name", 6)] = ("psname", self.psname_source(), self.has("postscriptFontName"))
        rec(7, v("trademark"))
        rec(8, v("openTypeNameManufacturer"))
        rec(9, v("openTypeNameDesigner"))
        rec(10, v("openTypeNameDescription"))
        rec(11, v("openTypeNameManufacturerURL"))
        rec(12, v("openTypeNameDesignerURL"))
        rec(13, v("openTypeNameLicense"))
        rec(14, v("openTypeNameLicenseURL"))
        # IDs 16/17: "if absent, name ID 1 (2) is considered to be the typographic (sub)family name"
        E[("name", 16)] = ("typo", 1, v("openTypeNamePreferredFamilyName"))
        E[("name", 17)] = ("typo", 2, v("openTypeNamePreferredSubfamilyName"))
        rec(18, v("openTypeNameCompatibleFullName"))
        rec(19, v("openTypeNameSampleText"))
        rec(21, v("openTypeNameWWSFamilyName"))
        rec(22, v("openTypeNameWWSSubfamilyName"))
        for r in v("openTypeNameRecords") or ():
            E[("name-record", (r["nameID"], r["platformID"], r["encodingID"], r["languageID"]))] = (
                "str", r["string"])

        # ---- head ---------------------------------------------------------------------------
        E[("head", "unitsPerEm")] = ("int", upm, True)
        E[("head", "fontRevision")] = ("fixed", F(v("versionMajor")) + Fraction(v("versionMinor"), 1000),
                                       Fraction(1, 1 << 15))
        E[("head", "created")] = ("eq", date_to_mac_timestamp(v("openTypeHeadCreated")))
        sms = v("styleMapStyleName")
        E[("head", "macStyle")] = ("eq", {"regular": 0, "bold": 1, "italic": 2, "bold italic": 3}[sms])
        # bit 1 ("left sidebearing point at x=0") is a statement about the glyph data, which a
        # TrueType compiler derives from the outlines; it is not compared for glyf-flavoured fonts
        E[("head", "flags")] = ("masked", bitlist(v("openTypeHeadFlags")), 0xFFFD if flavour == "ttf" else 0xFFFF)
        E[("head", "lowestRecPPEM")] = ("int", F(v("openTypeHeadLowestRecPPEM")), True)

        # ---- hhea ---------------------------------------------------------------------------
        E[("hhea", "ascent")] = self._int("openTypeHheaAscender", gap_deps)
        E[("hhea", "descent")] = self._int("openTypeHheaDescender")
        E[("hhea", "lineGap")] = self._int("openTypeHheaLineGap")
        E[("hhea", "caretOffset")] = self._int("openTypeHheaCaretOffset")
        E.update(self._caret("hhea"))

        # ---- OS/2 ---------------------------------------------------------------------------
        E[("OS/2", "usWeightClass")] = ("eq", v("openTypeOS2WeightClass"))
        E[("OS/2", "usWidthClass")] = ("eq", v("openTypeOS2WidthClass"))
        E[("OS/2", "fsType")] = ("eq", bitlist(v("openTypeOS2Type")))
        fc = v("openTypeOS2FamilyClass")
        E[("OS/2", "sFamilyClass")] = ("eq", fc[0] * 256 + fc[1])
        E[("OS/2", "panose")] = ("eq", list(v("openTypeOS2Panose")))
        E[("OS/2", "achVendID")] = ("eq", (v("openTypeOS2VendorID") + "    ")[:max(4, len(v("openTypeOS2VendorID")))])
        style_bits = {"regular": [6], "bold": [5], "italic": [0], "bold italic": [0, 5]}[sms]
        E[("OS/2", "fsSelection")] = ("eq", bitlist(list(v("openTypeOS2Selection")) + style_bits))
        ur = v("openTypeOS2UnicodeRanges")
        if ur is not None:
            for i in range(4):
                E[("OS/2", "ulUnicodeRange%d" % (i + 1))] = ("eq", bitlist(ur, 32 * i, 32))
        cr = v("openTypeOS2CodePageRanges")
        if cr is not None:
            for i in range(2):
                E[("OS/2", "ulCodePageRange%d" % (i + 1))] = ("eq", bitlist(cr, 32 * i, 32))
        E[("OS/2", "sxHeight")] = self._int("xHeight", upm_deps)
        E[("OS/2", "sCapHeight")] = self._int("capHeight", upm_deps)
        E[("OS/2", "sTypoAscender")] = self._int("openTypeOS2TypoAscender")
        E[("OS/2", "sTypoDescender")] = self._int("openTypeOS2TypoDescender")
        E[("OS/2", "sTypoLineGap")] = self._int("openTypeOS2TypoLineGap", gap_deps)
        E[("OS/2", "usWinAscent")] = self._int("openTypeOS2WinAscent", gap_deps)
        E[("OS/2", "usWinDescent")] = self._int("openTypeOS2WinDescent")

        # sub/superscript and strikeout: explicit value, else the makeotf (AFDKO hot.c) defaults
        def os2(field, attr, fb, loose_ops):
            if self.has(attr):
                E[("OS/2", field)] = ("int", F(self.info[attr]), True)
                return F(self.info[attr])
            val = fb()
            if val is None:
                return None
            val = Fraction(val)
            loose = any(not is_integral(self.val(o)) for o in loose_ops) or not is_integral(val)
            E[("OS/2", field)] = ("int", val, not loose)
            return val

        os2("ySubscriptXSize", "openTypeOS2SubscriptXSize", lambda: upm * Fraction(65, 100), upm_deps)
        os2("ySubscriptYSize", "openTypeOS2SubscriptYSize", lambda: upm * Fraction(60, 100), upm_deps)
        sub_yoff = os2("ySubscriptYOffset", "openTypeOS2SubscriptYOffset", lambda: upm * Fraction(75, 1000),
                       upm_deps)
        sup_yoff = os2("ySuperscriptYOffset", "openTypeOS2SuperscriptYOffset", lambda: upm * Fraction(35, 100),
                       upm_deps)
        # x sizes of the superscript follow the subscript fields
        if self.has("openTypeOS2SuperscriptXSize"):
            E[("OS/2", "ySuperscriptXSize")] = ("int", F(self.info["openTypeOS2SuperscriptXSize"]), True)
        else:
            E[("OS/2", "ySuperscriptXSize")] = ("same-as", "ySubscriptXSize")
        if self.has("openTypeOS2SuperscriptYSize"):
            E[("OS/2", "ySuperscriptYSize")] = ("int", F(self.info["openTypeOS2SuperscriptYSize"]), True)
        else:
            E[("OS/2", "ySuperscriptYSize")] = ("same-as", "ySubscriptYSize")
        # x offsets: explicit, else 0 for an upright font, else y offset slanted by the italic angle
        for field, attr, yoff, sign in (("ySubscriptXOffset", "openTypeOS2SubscriptXOffset", sub_yoff, -1),
                                        ("ySuperscriptXOffset", "openTypeOS2SuperscriptXOffset", sup_yoff, 1)):
            if self.has(attr):
                E[("OS/2", field)] = ("int", F(self.info[attr]), True)
            elif angle == 0:
                E[("OS/2", field)] = ("int", Fraction(0), True)
            else:
                approx = sign * float(yoff) * math.tan(math.radians(-float(angle)))
                E[("OS/2", field)] = ("near", approx, 1.0 + abs(math.tan(math.radians(float(angle)))))
        os2("yStrikeoutSize", "openTypeOS2StrikeoutSize", lambda: F(v("postscriptUnderlineThickness")),
            ("unitsPerEm", "postscriptUnderlineThickness"))
        xh = F(v("xHeight"))
        os2("yStrikeoutPosition", "openTypeOS2StrikeoutPosition",
            lambda: xh * Fraction(6, 10) if xh != 0 else upm * Fraction(22, 100), ("unitsPerEm", "xHeight"))

        # ---- post ---------------------------------------------------------------------------
        E[("post", "italicAngle")] = ("fixed", angle, Fraction(1, 1 << 15))
        E[("post", "underlinePosition")] = self._int("postscriptUnderlinePosition", upm_deps)
        E[("post", "underlineThickness")] = self._int("postscriptUnderlineThickness", upm_deps)
        E[("post", "isFixedPitch")] = ("bool", bool(v("postscriptIsFixedPitch")))

        # ---- vhea (only when the three vertical typo metrics are all given) ----------------------
        vert = all(self.has(a) for a in ("openTypeVheaVertTypoAscender", "openTypeVheaVertTypoDescender",
                                         "openTypeVheaVertTypoLineGap"))
        if vert and vertical_possible:
            E[("vhea", "ascent")] = self._int("openTypeVheaVertTypoAscender")
            E[("vhea", "descent")] = self._int("openTypeVheaVertTypoDescender")
            E[("vhea", "lineGap")] = self._int("openTypeVheaVertTypoLineGap")
            E[("vhea", "caretSlopeRise")] = self._int("openTypeVheaCaretSlopeRise")
            E[("vhea", "caretSlopeRun")] = self._int("openTypeVheaCaretSlopeRun")
            E[("vhea", "caretOffset")] = self._int("openTypeVheaCaretOffset")

        # ---- gasp (TrueType flavour only) -----------------------------------------------------
        if flavour == "ttf" and v("openTypeGaspRangeRecords"):
            E[("gasp", "gaspRange")] = ("eq", {r["rangeMaxPPEM"]: bitlist(r["rangeGaspBehavior"], 0, 4)
                                               for r in v("openTypeGaspRangeRecords")})

        # ---- CFF top dict and Private dict -----------------------------------------------------
        if flavour == "otf":
            E[("CFF", "FontName")] = ("psname", self.psname_source(), self.has("postscriptFontName"))
            E[("CFF", "version")] = ("eq", "%d.%d" % (v("versionMajor"), v("versionMinor")))
            E[("CFF", "Notice")] = ("ascii", v("trademark") or "")
            E[("CFF", "Copyright")] = ("ascii", v("copyright") or "")
            E[("CFF", "FullName")] = ("ascii", v("postscriptFullName"))
            E[("CFF", "FamilyName")] = ("ascii", v("openTypeNamePreferredFamilyName"))
            if v("postscriptWeightName"):
                E[("CFF", "Weight")] = ("ascii", v("postscriptWeightName"))
            else:
                E[("CFF", "Weight")] = ("absent",)
            E[("CFF", "isFixedPitch")] = ("bool", bool(v("postscriptIsFixedPitch")))
            E[("CFF", "ItalicAngle")] = ("fixed", angle, Fraction(1, 10 ** 6))
            E[("CFF", "UnderlinePosition")] = self._int("postscriptUnderlinePosition", upm_deps)
            E[("CFF", "UnderlineThickness")] = self._int("postscriptUnderlineThickness", upm_deps)
            E[("CFF", "FontMatrix")] = ("matrix", otround(upm))
        if flavour in ("otf", "cff2"):
            blues = {}
            for fld, attr in (("BlueValues", "postscriptBlueValues"), ("OtherBlues", "postscriptOtherBlues"),
                              ("FamilyBlues", "postscriptFamilyBlues"),
                              ("FamilyOtherBlues", "postscriptFamilyOtherBlues")):
                lst = [otround(x) for x in (v(attr) or [])]
                blues[fld] = lst
                if lst:
                    E[("Private", fld)] = ("eq", lst)
            if any(blues.values()):
                # hinting zone parameters accompany the zones
                E[("Private", "BlueFuzz")] = ("int", F(v("postscriptBlueFuzz")), True)
                E[("Private", "BlueShift")] = ("int", F(v("postscriptBlueShift")), True)
                if flavour == "otf":  # CFF2 has no ForceBold operator
                    E[("Private", "ForceBold")] = ("bool", bool(v("postscriptForceBold")))
                if self.has("postscriptBlueScale"):
                    E[("Private", "BlueScale")] = ("fixed", F(v("postscriptBlueScale")), Fraction(1, 10 ** 6))
                else:
                    zones = [abs(F(b) - F(a)) for attr in ("postscriptBlueValues", "postscriptOtherBlues")
                             for a, b in zip((v(attr) or [])[0::2], (v(attr) or [])[1::2])]
                    mz = max(zones, default=0)
                    E[("Private", "BlueScale")] = ("fixed", Fraction(3, 4) / mz if mz else Fraction(39625, 10 ** 6),
                                                   Fraction(1, 10 ** 6))
            sh, sv = v("postscriptStemSnapH") or [], v("postscriptStemSnapV") or []
            if sh and sv:
                E[("Private", "StemSnapH")] = ("eq", [otround(x) for x in sh])
                E[("Private", "StemSnapV")] = ("eq", [otround(x) for x in sv])
                E[("Private", "StdHW")] = ("eq", otround(sh[0]))
                E[("Private", "StdVW")] = ("eq", otround(sv[0]))
            if flavour == "otf" and (self.has("postscriptDefaultWidthX") or self.has("postscriptNominalWidthX")):
                E[("Private", "defaultWidthX")] = ("int", F(v("postscriptDefaultWidthX")), True)
                E[("Private", "nominalWidthX")] = ("int", F(v("postscriptNominalWidthX")), True)
        return E

    def _caret(self, table):
        """hhea caret slope: explicit values; else vertical caret (rise = unitsPerEm, run = 0) for an
        upright font; for an italic font the missing member is derived from the other through the
        italic angle (rise defaults to unitsPerEm)."""
        E = {}
        upm = F(self.val("unitsPerEm"))
        angle = float(self.val("italicAngle"))
        rise_x, run_x = self.has("openTypeHheaCaretSlopeRise"), self.has("openTypeHheaCaretSlopeRun")
        t = math.tan(math.radians(-angle)) if angle else 0.0
        if rise_x:
            rise = F(self.info["openTypeHheaCaretSlopeRise"])
            E[(table, "caretSlopeRise")] = ("int", rise, True)
        elif angle == 0 or not run_x:
            rise = upm
            E[(table, "caretSlopeRise")] = ("int", upm, True)
        else:
            rise = None
            E[(table, "caretSlopeRise")] = ("near", float(self.info["openTypeHheaCaretSlopeRun"]) / t,
                                           1.0 + abs(1 / t))
        if run_x:
            E[(table, "caretSlopeRun")] = ("int", F(self.info["openTypeHheaCaretSlopeRun"]), True)
        elif angle == 0:
            E[(table, "caretSlopeRun")] = ("int", Fraction(0), True)
        else:
            E[(table, "caretSlopeRun")] = ("near", t * float(rise), 1.0 + abs(t))
        return E


STATIC = dict(
    versionMajor=0, versionMinor=0, familyName="New Font", styleName="Regular", unitsPerEm=1000,
    italicAngle=0,
    openTypeHeadLowestRecPPEM=6, openTypeHeadFlags=[0, 1],
    openTypeHheaLineGap=0, openTypeHheaCaretOffset=0,
    openTypeNameRecords=[],
    openTypeOS2WidthClass=5, openTypeOS2WeightClass=400, openTypeOS2Selection=[],
    openTypeOS2VendorID="NONE", openTypeOS2Panose=[0] * 10, openTypeOS2FamilyClass=[0, 0],
    openTypeOS2Type=[2],
    openTypeVheaCaretSlopeRise=0, openTypeVheaCaretSlopeRun=1, openTypeVheaCaretOffset=0,
    postscriptIsFixedPitch=False, postscriptBlueValues=[], postscriptOtherBlues=[],
    postscriptFamilyBlues=[], postscriptFamilyOtherBlues=[], postscriptStemSnapH=[],
    postscriptStemSnapV=[], postscriptBlueFuzz=0, postscriptBlueShift=7, postscriptForceBold=False,
    postscriptDefaultWidthX=200, postscriptNominalWidthX=0,
)


# ----------------------------------------------------------------------------------------------
# reading the fields back from a reloaded TTFont and comparing


def read_name(font, nid):
    n = font["name"]
    r = n.getName(nid, 3, 1, 0x409) or n.getName(nid, 3, 10, 0x409)
    return None if r is None else r.toUnicode()


def observe(font, key):
    """Value of a (table, field) key in a reloaded font, or the marker ABSENT."""
    table, field = key
    if table == "name":
        v = read_name(font, field)
        return ABSENT if v is None else v
    if table == "name-record":
        r = font["name"].getName(*field)
        return ABSENT if r is None else r.toUnicode()
    if table in ("CFF", "Private"):
        if "CFF " in font:
            cff = font["CFF "].cff
        elif "CFF2" in font:
            cff = font["CFF2"].cff
        else:
            return ABSENT
        td = cff.topDictIndex[0]
        if table == "CFF":
            if field == "FontName":
                return cff.fontNames[0]
            if field in td.rawDict:
                return td.rawDict[field]
            if field == "Weight":
                return ABSENT
            return getattr(td, field, ABSENT)
        priv = td.Private if hasattr(td, "Private") else td.FDArray[0].Private
        return getattr(priv, field, ABSENT)
    if table not in font:
        return ABSENT
    t = font[table]
    if table == "OS/2" and field == "panose":
        p = t.panose
        return [p.bFamilyType, p.bSerifStyle, p.bWeight, p.bProportion, p.bContrast,
                p.bStrokeVariation, p.bArmStyle, p.bLetterForm, p.bMidline, p.bXHeight]
    if table == "gasp":
        return dict(t.gaspRange)
    return getattr(t, field, ABSENT)


class _Absent:
    def __repr__(self):
        return "<absent>"


ABSENT = _Absent()


def agrees(font, key, exp):
    """(ok, observed, printable expectation)."""
    kind = exp[0]
    obs = observe(font, key)
    if kind == "absent" or (kind == "ascii" and exp[1] == ""):
        return obs is ABSENT or obs in ("", None), obs, "absent"
    if kind == "typo":
        # effective typographic name: the record itself, else the legacy record it stands in for
        eff = obs if obs is not ABSENT else observe(font, ("name", exp[1]))
        # the two typographic records are elided as a PAIR only (both redundant): one of them
        # alone must not go missing while the other is written
        partner = observe(font, ("name", 33 - key[1]))
        if (obs is ABSENT) != (partner is ABSENT):
            return False, (obs, eff), "IDs 16 and 17 both present or both elided (effective %r)" % (exp[2],)
        return eff == exp[2], (obs, eff), "effective %r" % (exp[2],)
    if kind == "same-as":
        other = observe(font, (key[0], exp[1]))
        return obs == other, obs, "same as %s = %r" % (exp[1], other)
    if obs is ABSENT:
        return False, obs, repr(exp)
    if kind in ("eq", "str"):
        return obs == exp[1], obs, repr(exp[1])
    if kind == "masked":
        return (obs & exp[2]) == (exp[1] & exp[2]), obs, "%d (mask %#x)" % (exp[1], exp[2])
    if kind == "oneof":
        return obs in exp[1], obs, repr(exp[1])
    if kind == "bool":
        return bool(obs) == exp[1], obs, repr(exp[1])
    if kind == "int":
        exact, strict = exp[1], exp[2]
        if strict:
            return obs == otround(exact), obs, "%d (=round(%s))" % (otround(exact), exact)
        return isinstance(obs, int) and abs(obs - exact) <= 1, obs, "%s +-1" % (float(exact),)
    if kind == "near":
        return isinstance(obs, int) and abs(obs - exp[1]) <= exp[2], obs, "%r +-%r" % (exp[1], exp[2])
    if kind == "fixed":
        return abs(Fraction(obs) - exp[1]) <= exp[2], obs, "%s" % (float(exp[1]),)
    if kind == "ascii":
        return ascii_reduction_ok(exp[1], obs), obs, "%r or its ASCII reduction" % (exp[1],)
    if kind == "psname":
        if exp[2]:  # explicit: as given (all menu values are legal names)
            return (obs == exp[1]) if not psname_illegal(exp[1]) else psname_ok(exp[1], obs), obs, repr(exp[1])
        return psname_ok(exp[1], obs), obs, "legal PostScript name from %r" % (exp[1],)
    if kind == "uniqueid":
        version, vendor, ps_source = exp[1], exp[2], exp[3]
        parts = obs.split(";")
        ok = (len(parts) >= 3 and parts[0] in (version, version.replace("Version ", "", 1))
              and parts[1] == vendor and psname_ok(ps_source, ";".join(parts[2:])))
        # the PostScript-name component must be the same string as name ID 6
        ok = ok and ";".join(parts[2:]) == observe(font, ("name", 6))
        return ok, obs, "%s;%s;<postscript name>" % (version.replace("Version ", "", 1), vendor)
    if kind == "matrix":
        u = exp[1]
        # a subroutiniser may re-serialise the reals with 8 decimals: relative tolerance 1e-4
        ok = (len(obs) == 6 and abs(obs[0] * u - 1.0) < 1e-4 and abs(obs[3] * u - 1.0) < 1e-4
              and obs[1] == obs[2] == obs[4] == obs[5] == 0)
        return ok, obs, "[1/%d 0 0 1/%d 0 0]" % (u, u)
    raise ValueError(kind)
