"""UFO3 kerning semantics written from the specification text (kerning.plist / groups.plist):
the value of an ordered glyph pair is the first hit among
    (glyph, glyph), (glyph, group2), (group1, glyph), (group1, group2)
where group1 is the public.kern1.* group containing the first glyph and group2 the
public.kern2.* group containing the second glyph; 0 if none.  Groups and keys are pruned to
exported glyphs first (a key naming a missing glyph or an empty/unknown group applies to nothing).
"""
import math

K1, K2 = "public.kern1.", "public.kern2."


def otround(v):
    return int(math.floor(v + 0.5))


def quantise(v, q=1):
    return q * otround(v / q)


def membership(groups, exported):
    m1, m2 = {}, {}
    for name, members in groups.items():
        for g in members:
            if g not in exported:
                continue
            if name.startswith(K1):
                m1.setdefault(g, name)
            elif name.startswith(K2):
                m2.setdefault(g, name)
    return m1, m2


def lookup(kerning, groups, g1, g2, exported):
    """kerning: {(side1, side2): value}."""
    m1, m2 = membership(groups, exported)
    c1, c2 = m1.get(g1), m2.get(g2)
    for key in ((g1, g2), (g1, c2), (c1, g2), (c1, c2)):
        if key[0] is None or key[1] is None:
            continue
        if key in kerning:
            level = ("g" if key[0] == g1 else "c") + ("g" if key[1] == g2 else "c")
            return kerning[key], level
    return 0, "none"
