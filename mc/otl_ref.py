"""Independent OpenType Layout (GPOS) interpreter used as the reference "shaper" (DESIGN §11).

It reads a *reloaded* TTFont and answers, for tiny glyph sequences, what a conforming shaper
would apply: which lookups a script/language/feature selects, the accumulated pair adjustment of
two adjacent glyphs, and the attachment offset of a mark on a base / ligature component / mark.
Only what the alphabets need is implemented: PairPos 1+2, MarkBasePos, MarkLigPos, MarkMarkPos,
CursivePos records, Extension; lookup flags incl. mark filtering sets and mark attachment types.
No contextual lookups, no SinglePos, no vertical values.
"""

from __future__ import annotations

from fontTools import unicodedata


def _val(v, attr):
    if v is None:
        return 0
    return getattr(v, attr, 0) or 0


class Layout:
    def __init__(self, font):
        self.font = font
        self.gpos = font["GPOS"].table if "GPOS" in font else None
        self.gdef = font["GDEF"].table if "GDEF" in font else None
        self.classes = {}
        self.mark_attach = {}
        self.mark_sets = []
        if self.gdef is not None:
            if getattr(self.gdef, "GlyphClassDef", None) is not None:
                self.classes = dict(self.gdef.GlyphClassDef.classDefs)
            if getattr(self.gdef, "MarkAttachClassDef", None) is not None:
                self.mark_attach = dict(self.gdef.MarkAttachClassDef.classDefs)
            mgs = getattr(self.gdef, "MarkGlyphSetsDef", None)
            if mgs is not None:
                self.mark_sets = [set(c.glyphs) if c is not None else set() for c in mgs.Coverage]

    # ---- script / language / feature selection -----------------------------------------
    def script_tags(self):
        if self.gpos is None or self.gpos.ScriptList is None:
            return []
        return [r.ScriptTag for r in self.gpos.ScriptList.ScriptRecord]

    def _script(self, tag):
        for r in self.gpos.ScriptList.ScriptRecord:
            if r.ScriptTag == tag:
                return r.Script
        return None

    def select_script_tag(self, unicode_script):
        """The OpenType script tag a shaper picks for a run of Unicode script `unicode_script`."""
        have = set(self.script_tags())
        for t in unicodedata.ot_tags_from_script(unicode_script):
            if t in have:
                return t
        if "DFLT" in have:
            return "DFLT"
        return None

    def langsys(self, script_tag, lang=None):
        s = self._script(script_tag)
        if s is None:
            return None
        if lang is not None:
            for r in s.LangSysRecord:
                if r.LangSysTag == lang:
                    return r.LangSys
        return s.DefaultLangSys

    def languages(self, script_tag):
        s = self._script(script_tag)
        return [r.LangSysTag for r in s.LangSysRecord] if s is not None else []

    def langsys_features(self, script_tag, lang=None):
        """[(feature tag, feature index)] of the language system."""
        ls = self.langsys(script_tag, lang)
        if ls is None:
            return []
        idx = list(ls.FeatureIndex)
        if ls.ReqFeatureIndex != 0xFFFF:
            idx.append(ls.ReqFeatureIndex)
        recs = self.gpos.FeatureList.FeatureRecord
        return [(recs[i].FeatureTag, i) for i in idx]

    def lookups_for(self, script_tag, feature_tags, lang=None):
        out = set()
        recs = self.gpos.FeatureList.FeatureRecord
        for tag, i in self.langsys_features(script_tag, lang):
            if tag in feature_tags:
                out.update(recs[i].Feature.LookupListIndex)
        return sorted(out)

    def lookups_of_features(self, feature_tags):
        """All lookups of the given feature tags, irrespective of script."""
        out = set()
        if self.gpos is None or self.gpos.FeatureList is None:
            return []
        for r in self.gpos.FeatureList.FeatureRecord:
            if r.FeatureTag in feature_tags:
                out.update(r.Feature.LookupListIndex)
        return sorted(out)

    def feature_tags(self):
        if self.gpos is None or self.gpos.FeatureList is None:
            return []
        return [r.FeatureTag for r in self.gpos.FeatureList.FeatureRecord]

    # ---- lookup machinery ----------------------------------------------------------------
    def lookup(self, i):
        return self.gpos.LookupList.Lookup[i]

    @staticmethod
    def subtables(lookup):
        for st in lookup.SubTable:
            if lookup.LookupType == 9:
                yield st.ExtensionLookupType, st.ExtSubTable
            else:
                yield lookup.LookupType, st

    def skipped(self, glyph, lookup):
        flag = lookup.LookupFlag
        cls = self.classes.get(glyph, 0)
        if flag & 0x2 and cls == 1:
            return True
        if flag & 0x4 and cls == 2:
            return True
        if flag & 0x8 and cls == 3:
            return True
        if cls == 3:
            if flag & 0x10:
                ms = self.mark_sets[lookup.MarkFilteringSet] if lookup.MarkFilteringSet < len(self.mark_sets) else set()
                if glyph not in ms:
                    return True
            if flag & 0xFF00:
                if self.mark_attach.get(glyph, 0) != (flag >> 8):
                    return True
        return False

    # ---- pair positioning ----------------------------------------------------------------
    def pair_adjust(self, lookups, g1, g2):
        """Accumulated adjustment of the two-glyph run [g1, g2] by the given lookups (ascending
        lookup index, each lookup applied once).  Returns a dict with the sums and the list of
        (lookup index, subtable index) that applied."""
        tot = {"xAdv1": 0, "xPla1": 0, "yAdv1": 0, "yPla1": 0, "xAdv2": 0, "xPla2": 0, "yAdv2": 0,
               "yPla2": 0, "applied": []}
        for li in sorted(lookups):
            lk = self.lookup(li)
            if self.skipped(g1, lk) or self.skipped(g2, lk):
                continue
            for si, (typ, st) in enumerate(self.subtables(lk)):
                if typ != 2:
                    continue
                if g1 not in st.Coverage.glyphs:
                    continue
                v1 = v2 = None
                hit = False
                if st.Format == 1:
                    ps = st.PairSet[st.Coverage.glyphs.index(g1)]
                    for pvr in ps.PairValueRecord:
                        if pvr.SecondGlyph == g2:
                            v1, v2, hit = pvr.Value1, getattr(pvr, "Value2", None), True
                            break
                elif st.Format == 2:
                    c1 = st.ClassDef1.classDefs.get(g1, 0)
                    c2 = st.ClassDef2.classDefs.get(g2, 0)
                    if c1 < len(st.Class1Record) and c2 < len(st.Class1Record[c1].Class2Record):
                        rec = st.Class1Record[c1].Class2Record[c2]
                        v1, v2, hit = rec.Value1, getattr(rec, "Value2", None), True
                if hit:
                    tot["xAdv1"] += _val(v1, "XAdvance")
                    tot["xPla1"] += _val(v1, "XPlacement")
                    tot["yAdv1"] += _val(v1, "YAdvance")
                    tot["yPla1"] += _val(v1, "YPlacement")
                    tot["xAdv2"] += _val(v2, "XAdvance")
                    tot["xPla2"] += _val(v2, "XPlacement")
                    tot["yAdv2"] += _val(v2, "YAdvance")
                    tot["yPla2"] += _val(v2, "YPlacement")
                    tot["applied"].append((li, si))
                    break  # first matching subtable ends the lookup
        return tot

    # ---- mark attachment -----------------------------------------------------------------
    @staticmethod
    def _anchor(a):
        if a is None:
            return None
        return (a.XCoordinate, a.YCoordinate)

    def mark_attachments(self, lookups, base, mark, component=None):
        """All attachments the given lookups would make for the run [base, mark], in lookup
        order: list of dicts {lookup, type: 'base'|'lig'|'mark', offset: (dx, dy), base_anchor,
        mark_anchor, class}.  A shaper keeps the last one."""
        out = []
        for li in sorted(lookups):
            lk = self.lookup(li)
            if self.skipped(mark, lk):
                continue
            for si, (typ, st) in enumerate(self.subtables(lk)):
                if typ == 4:
                    if self.skipped(base, lk):
                        continue
                    # the base is found by looking back over marks: a glyph that GDEF classes as a
                    # mark is never the base of a mark-to-base attachment
                    if self.classes and self.classes.get(base, 0) == 3:
                        continue
                    if mark not in st.MarkCoverage.glyphs or base not in st.BaseCoverage.glyphs:
                        continue
                    mrec = st.MarkArray.MarkRecord[st.MarkCoverage.glyphs.index(mark)]
                    brec = st.BaseArray.BaseRecord[st.BaseCoverage.glyphs.index(base)]
                    ba = self._anchor(brec.BaseAnchor[mrec.Class])
                    kind = "base"
                elif typ == 5:
                    if self.classes and self.classes.get(base, 0) == 3:
                        continue
                    if mark not in st.MarkCoverage.glyphs or base not in st.LigatureCoverage.glyphs:
                        continue
                    mrec = st.MarkArray.MarkRecord[st.MarkCoverage.glyphs.index(mark)]
                    lig = st.LigatureArray.LigatureAttach[st.LigatureCoverage.glyphs.index(base)]
                    comps = lig.ComponentRecord
                    ci = (component if component is not None else len(comps)) - 1
                    if ci < 0 or ci >= len(comps):
                        continue
                    ba = self._anchor(comps[ci].LigatureAnchor[mrec.Class])
                    kind = "lig"
                elif typ == 6:
                    # mark-to-mark looks back for a preceding MARK glyph: with glyph classes in GDEF a
                    # glyph of another class is never reached by it
                    if self.classes and self.classes.get(base, 0) != 3:
                        continue
                    if mark not in st.Mark1Coverage.glyphs or base not in st.Mark2Coverage.glyphs:
                        continue
                    mrec = st.Mark1Array.MarkRecord[st.Mark1Coverage.glyphs.index(mark)]
                    brec = st.Mark2Array.Mark2Record[st.Mark2Coverage.glyphs.index(base)]
                    ba = self._anchor(brec.Mark2Anchor[mrec.Class])
                    kind = "mark"
                else:
                    continue
                if ba is None:
                    continue
                ma = self._anchor(mrec.MarkAnchor)
                out.append({"lookup": li, "subtable": si, "type": kind, "class": mrec.Class,
                            "base_anchor": ba, "mark_anchor": ma,
                            "offset": (ba[0] - ma[0], ba[1] - ma[1])})
                break
        return out

    def ligature_component_count(self, lookups, lig):
        n = 0
        for li in lookups:
            for typ, st in self.subtables(self.lookup(li)):
                if typ == 5 and lig in st.LigatureCoverage.glyphs:
                    n = max(n, len(st.LigatureArray.LigatureAttach[st.LigatureCoverage.glyphs.index(lig)].ComponentRecord))
        return n

    # ---- cursive ---------------------------------------------------------------------------
    def cursive_records(self, lookups=None):
        """[(lookup index, lookup flag, glyph, entry, exit)] of all CursivePos subtables."""
        out = []
        if self.gpos is None:
            return out
        idxs = range(len(self.gpos.LookupList.Lookup)) if lookups is None else lookups
        for li in idxs:
            lk = self.lookup(li)
            for typ, st in self.subtables(lk):
                if typ != 3:
                    continue
                for g, rec in zip(st.Coverage.glyphs, st.EntryExitRecord):
                    out.append((li, lk.LookupFlag, g, self._anchor(rec.EntryAnchor), self._anchor(rec.ExitAnchor)))
        return out

    # ---- GDEF ------------------------------------------------------------------------------
    def gdef_class_sets(self):
        sets = {1: set(), 2: set(), 3: set(), 4: set()}
        for g, c in self.classes.items():
            sets.setdefault(c, set()).add(g)
        return sets

    def lig_carets(self):
        out = {}
        if self.gdef is None or getattr(self.gdef, "LigCaretList", None) is None:
            return out
        lcl = self.gdef.LigCaretList
        for g, lg in zip(lcl.Coverage.glyphs, lcl.LigGlyph):
            out[g] = [(cv.Format, getattr(cv, "Coordinate", getattr(cv, "CaretValuePoint", None)))
                      for cv in lg.CaretValue]
        return out


def reload(font):
    import io
    from fontTools.ttLib import TTFont
    buf = io.BytesIO()
    font.save(buf)
    buf.seek(0)
    return TTFont(buf)
