"""Independent reference for instance generation (C19; reusable by C10).

* axis normalisation written from the OpenType definition (piecewise linear through
  min -> -1, default -> 0, max -> +1);
* master *weights* at a normalised location in closed form for the master topologies of the
  alphabets: one master (constant), two masters on one axis (exact linear blend), three masters on
  one axis (piecewise linear, default in the middle or at the minimum with an intermediate master),
  four corners on two axes (bilinear).  Any other master set (sparse layers that drop a corner, an
  intermediate master without a maximum master, ...) has no boring closed form; there the property's
  own wording ("the variation-model interpolation") makes fontTools' VariationModel the reference
  (trusted base) and `weights` falls back to it;
* a structural blend of plain-data trees (numbers are blended, everything else must agree);
* UFO kerning lookup (specification order) and designspace rule evaluation;
* the glyph-swap semantics of designspace rules on plain data.

All inputs of the alphabets are dyadic rationals of small magnitude, so every product and sum below
is exact in binary64 and `==` is a sound comparison.
"""

from __future__ import annotations

import math


def otround(v):
    return int(math.floor(v + 0.5))


def is_half(v):
    return v - math.floor(v) == 0.5


# ---- normalisation -----------------------------------------------------------------------------

def normalize_value(v, triple):
    lo, de, hi = triple
    v = max(lo, min(hi, v))
    if v == de:
        return 0.0
    if v < de:
        return (v - de) / (de - lo)
    return (v - de) / (hi - de)


def normalize_location(loc, bounds, axis_order):
    """loc: {axis: design value} (missing axis = default) -> tuple of normalised values."""
    return tuple(normalize_value(loc.get(a, bounds[a][1]), bounds[a]) for a in axis_order)


# ---- master weights ----------------------------------------------------------------------------

def _w_line(points, t):
    """Piecewise-linear 'hat' weights through sorted 1-D master positions that bracket t."""
    w = [0.0] * len(points)
    for i in range(len(points) - 1):
        p, q = points[i], points[i + 1]
        if p <= t <= q:
            f = (t - p) / (q - p)
            w[i] += 1 - f
            w[i + 1] += f
            return w
    raise ValueError("location outside the masters' span")


def closed_form_weights(master_locs, loc):
    """master_locs: list of normalised tuples; loc: normalised tuple.  Returns the weights of the
    closed form, or None when the master set is not one of the closed-form topologies."""
    n = len(master_locs)
    naxes = len(loc)
    s = set(master_locs)
    if len(s) != n:
        return None
    zero = tuple(0.0 for _ in range(naxes))
    if n == 1 and master_locs[0] == zero:
        return [1.0]
    # masters that only move along one axis
    moving = [k for k in range(naxes) if any(m[k] != 0 for m in master_locs)]
    if len(moving) == 1:
        k = moving[0]
        pos = sorted(m[k] for m in master_locs)
        ok = (pos == [0.0, 1.0] or pos == [-1.0, 0.0] or pos == [-1.0, 0.0, 1.0]
              or pos == [0.0, 0.5, 1.0])
        if not ok:
            return None
        t = loc[k]
        # a side of the default without a master contributes nothing (constant beyond the default)
        t = max(pos[0], min(pos[-1], t))
        wl = _w_line(pos, t)
        return [wl[pos.index(m[k])] for m in master_locs]
    if naxes == 2 and s == {(0.0, 0.0), (1.0, 0.0), (0.0, 1.0), (1.0, 1.0)}:
        x, y = loc
        if not (0 <= x <= 1 and 0 <= y <= 1):
            return None
        return [(x if m[0] else 1 - x) * (y if m[1] else 1 - y) for m in master_locs]
    return None


def model_weights(master_locs, loc, axis_order):
    """Weights according to fontTools.varLib.models.VariationModel (trusted reference for master
    sets without a closed form): interpolate the indicator vector of every master."""
    from fontTools.varLib.models import VariationModel
    locs = [{a: v for a, v in zip(axis_order, m) if v != 0} for m in master_locs]
    model = VariationModel(locs, list(axis_order))
    at = {a: v for a, v in zip(axis_order, loc)}
    n = len(master_locs)
    out = []
    for i in range(n):
        ind = [1.0 if j == i else 0.0 for j in range(n)]
        out.append(model.interpolateFromMasters(at, ind))
    return out


def weights(master_locs, loc, axis_order):
    """-> (weights, "closed" | "model")."""
    master_locs = [tuple(float(x) for x in m) for m in master_locs]
    loc = tuple(float(x) for x in loc)
    w = closed_form_weights(master_locs, loc)
    if w is not None:
        return w, "closed"
    return model_weights(master_locs, loc, axis_order), "model"


# ---- structural blend --------------------------------------------------------------------------

class Incompatible(Exception):
    pass


def _isnum(v):
    return isinstance(v, (int, float)) and not isinstance(v, bool)


def tree_blend(trees, w):
    """Blend plain-data trees: numbers -> sum(w_i * v_i); lists/tuples/dicts recursively; any other
    leaf (str, None, bool) must be equal in all trees."""
    t0 = trees[0]
    if _isnum(t0):
        if not all(_isnum(t) for t in trees):
            raise Incompatible(repr(trees)[:200])
        return sum(wi * t for wi, t in zip(w, trees))
    if isinstance(t0, (list, tuple)):
        if not all(isinstance(t, (list, tuple)) and len(t) == len(t0) for t in trees):
            raise Incompatible(repr(trees)[:200])
        return [tree_blend([t[i] for t in trees], w) for i in range(len(t0))]
    if isinstance(t0, dict):
        if not all(isinstance(t, dict) and set(t) == set(t0) for t in trees):
            raise Incompatible(repr(trees)[:200])
        return {k: tree_blend([t[k] for t in trees], w) for k in t0}
    if not all(t == t0 for t in trees):
        raise Incompatible(repr(trees)[:200])
    return t0


def tree_map_numbers(tree, f):
    if _isnum(tree):
        return f(tree)
    if isinstance(tree, (list, tuple)):
        return [tree_map_numbers(t, f) for t in tree]
    if isinstance(tree, dict):
        return {k: tree_map_numbers(v, f) for k, v in tree.items()}
    return tree


# ---- plain glyphs ------------------------------------------------------------------------------
# plain glyph = {"width", "height", "contours": [[[x, y, type, smooth], ...]],
#                "components": [[base, [xx, xy, yx, yy, dx, dy]]], "anchors": [[name, x, y]],
#                "unicodes": [..]}

GEOMETRY_KEYS = ("width", "height", "contours", "components", "anchors")


def blend_glyph(plains, w):
    out = {k: tree_blend([p[k] for p in plains], w) for k in GEOMETRY_KEYS}
    return out


def round_glyph(p):
    """Geometry rounding: advance, point, anchor coordinates and component offsets (the 2x2 part
    of a component is a scale, not a coordinate)."""
    out = dict(p)
    out["width"] = otround(p["width"])
    out["height"] = otround(p["height"])
    out["contours"] = [[[otround(pt[0]), otround(pt[1])] + list(pt[2:]) for pt in c]
                       for c in p["contours"]]
    out["components"] = [[b, list(t[:4]) + [otround(t[4]), otround(t[5])]] for b, t in p["components"]]
    out["anchors"] = [[a[0], otround(a[1]), otround(a[2])] for a in p["anchors"]]
    return out


def cyclic_equal(a, b):
    if len(a) != len(b):
        return False
    if not a:
        return True
    n = len(a)
    return any(all(a[(i + s) % n] == b[i] for i in range(n)) for s in range(n))


def glyph_aspect_diffs(obs, exp):
    """Aspects in which two plain glyphs differ (contours compared as cyclic point sequences)."""
    bad = []
    if obs["width"] != exp["width"]:
        bad.append("width")
    if obs["height"] != exp["height"]:
        bad.append("height")
    oc, ec = obs["contours"], exp["contours"]
    if len(oc) != len(ec) or not all(
            cyclic_equal([list(p) for p in x], [list(p) for p in y]) for x, y in zip(oc, ec)):
        bad.append("outline")
    if [[b, list(t)] for b, t in obs["components"]] != [[b, list(t)] for b, t in exp["components"]]:
        bad.append("components")
    if [list(a) for a in obs["anchors"]] != [list(a) for a in exp["anchors"]]:
        bad.append("anchors")
    return bad


# ---- kerning -----------------------------------------------------------------------------------

K1, K2 = "public.kern1.", "public.kern2."


def kerning_lookup(kerning, groups, pair):
    """UFO 3 kerning value of a glyph pair: glyph+glyph, glyph+group, group+glyph, group+group,
    else 0 (kerning.plist specification, 'kerning value lookup algorithm')."""
    first, second = pair
    g1 = g2 = None
    for name, members in groups.items():
        if name.startswith(K1) and first in members:
            g1 = name
        elif name.startswith(K2) and second in members:
            g2 = name
    for key in ((first, second), (first, g2), (g1, second), (g1, g2)):
        if None not in key and key in kerning:
            return kerning[key]
    return 0


def kerning_candidates(kerning, groups, pair):
    """The keys of `kerning` that apply to the glyph pair, most specific first (for diagnostics)."""
    first, second = pair
    g1 = [n for n, m in groups.items() if n.startswith(K1) and first in m]
    g2 = [n for n, m in groups.items() if n.startswith(K2) and second in m]
    out = []
    for key in [(first, second)] + [(first, b) for b in g2] + [(a, second) for a in g1] + \
            [(a, b) for a in g1 for b in g2]:
        if key in kerning:
            out.append(key)
    return out


# ---- designspace rules -------------------------------------------------------------------------

def rule_fires(rule, design_location):
    """rule: {"conditionSets": [[{"name", "minimum", "maximum"}]], "subs": [...]}: a rule applies
    when all conditions of at least one condition set hold (bounds inclusive, None = open)."""
    for cs in rule["conditionSets"]:
        ok = True
        for c in cs:
            v = design_location[c["name"]]
            lo, hi = c.get("minimum"), c.get("maximum")
            if (lo is not None and v < lo) or (hi is not None and v > hi):
                ok = False
                break
        if ok:
            return True
    return False


def rule_swaps(rules, design_location, glyph_names):
    """Ordered list of (old, new) swaps: rules in document order, subs in rule order; a sub whose
    old glyph is not in the font is skipped; a sub onto itself changes nothing."""
    out = []
    for r in rules:
        if rule_fires(r, design_location):
            for old, new in r["subs"]:
                if old in glyph_names and old != new:
                    out.append((old, new))
    return out


def swap_plain(font, x, y):
    """Swap glyphs x and y in a plain font {"glyphs": {name: plain glyph}, "kerning": {(l, r): v},
    "groups": {name: [..]}}: outlines (contours + components), widths and anchors change places;
    references to the two names in components, kerning and groups are exchanged; code points stay.
    Returns a new plain font."""
    def ren(n):
        return y if n == x else x if n == y else n
    glyphs = {}
    for name, g in font["glyphs"].items():
        src = font["glyphs"][ren(name)] if name in (x, y) else g
        ng = dict(g)
        for k in ("contours", "width", "anchors"):
            ng[k] = src[k]
        ng["components"] = [[ren(b), t] for b, t in src["components"]]
        glyphs[name] = ng
    kerning = {(ren(a), ren(b)): v for (a, b), v in font["kerning"].items()}
    groups = {k: [ren(n) for n in v] for k, v in font["groups"].items()}
    out = dict(font)
    out.update({"glyphs": glyphs, "kerning": kerning, "groups": groups})
    return out
