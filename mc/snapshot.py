"""Deep structural snapshots of ufoLib2 / defcon fonts and designspace documents (frame oracle).

A snapshot is a nested structure of plain values; ints and floats are kept distinct (a caller can
see 500 turning into 500.0).  `diff(a, b)` lists the paths at which two snapshots differ.
"""

from __future__ import annotations

from fontTools.ufoLib import fontInfoAttributesVersion3

INFO_ATTRS = sorted(fontInfoAttributesVersion3)


def plain(v):
    """Deep plain-data copy with type tags for numbers, dict keys sorted."""
    if isinstance(v, bool) or v is None or isinstance(v, str):
        return v
    if isinstance(v, int):
        return ("i", v)
    if isinstance(v, float):
        return ("f", v)
    if isinstance(v, bytes):
        return ("b", v.hex())
    if isinstance(v, dict) or hasattr(v, "items"):
        return {"__dict__": [(str(k), plain(v[k])) for k in sorted(v.keys(), key=str)]}
    if isinstance(v, (list, tuple)):
        return [plain(x) for x in v]
    if isinstance(v, (set, frozenset)):
        return ("set", sorted(repr(plain(x)) for x in v))
    if hasattr(v, "__dict__"):
        return {"__obj__": type(v).__name__,
                "attrs": [(k, plain(x)) for k, x in sorted(vars(v).items()) if not k.startswith("__")]}
    return ("repr", repr(v))


def _point(p):
    st = getattr(p, "segmentType", None)
    if st is None and hasattr(p, "type"):
        st = p.type
    return (plain(p.x), plain(p.y), st, bool(p.smooth), p.name, getattr(p, "identifier", None))


def _anchor(a):
    return (a.name, plain(a.x), plain(a.y), plain(getattr(a, "color", None)),
            getattr(a, "identifier", None))


def _guideline(g):
    return (plain(g.x), plain(g.y), plain(g.angle), g.name, plain(getattr(g, "color", None)),
            getattr(g, "identifier", None))


def _image(img):
    if img is None:
        return None
    try:
        d = dict(img.items()) if hasattr(img, "items") else vars(img)
    except Exception:
        d = {}
    return plain({k: d[k] for k in d if d[k] is not None})


def glyph_snapshot(g, full=True):
    contours = []
    for c in g:
        pts = [_point(p) for p in (c.points if hasattr(c, "points") else c)]
        is_open = getattr(c, "open", None)
        contours.append((pts, bool(is_open), getattr(c, "identifier", None) if full else None))
    comps = []
    for c in g.components:
        comps.append((c.baseGlyph, tuple(plain(x) for x in c.transformation),
                      getattr(c, "identifier", None) if full else None))
    snap = {
        "width": plain(g.width),
        "height": plain(g.height),
        "unicodes": [int(u) for u in g.unicodes],
        "contours": contours,
        "components": comps,
        "anchors": [_anchor(a) for a in g.anchors],
    }
    if full:
        snap["lib"] = plain(dict(g.lib))
        snap["note"] = getattr(g, "note", None)
        snap["image"] = _image(getattr(g, "image", None))
        snap["guidelines"] = [_guideline(x) for x in getattr(g, "guidelines", ())]
    return snap


def geometry_snapshot(g):
    """The part of a glyph that C14 calls "outline, components, anchors or metrics"."""
    s = glyph_snapshot(g, full=False)
    return s


def layer_snapshot(layer, full=True):
    return {
        "name": layer.name,
        "color": plain(getattr(layer, "color", None)),
        "lib": plain(dict(layer.lib)),
        "glyphs": {name: glyph_snapshot(layer[name], full) for name in sorted(layer.keys())},
    }


def _layers(font):
    return list(font.layers)


def font_snapshot(font):
    info = {}
    for a in INFO_ATTRS:
        v = getattr(font.info, a, None)
        if v is not None:
            info[a] = plain(v)
    layers = _layers(font)
    default = font.layers.defaultLayer.name
    data = {}
    for attr in ("data", "images"):
        store = getattr(font, attr, None)
        if store is None:
            continue
        try:
            names = sorted(store.fileNames)
        except Exception:
            names = []
        data[attr] = names
    snap = {
        "layerOrder": [l.name for l in layers],
        "defaultLayer": default,
        "layers": {l.name: layer_snapshot(l) for l in layers},
        "info": info,
        "lib": plain(dict(font.lib)),
        "groups": plain({k: list(v) for k, v in font.groups.items()}),
        "kerning": plain({f"{k[0]} {k[1]}": v for k, v in font.kerning.items()}),
        "features": font.features.text,
        "files": data,
    }
    return snap


def _descriptor(d, fonts_by_id=True):
    out = {}
    for k, v in sorted(vars(d).items()):
        if k == "font":
            out[k] = ("font-id", id(v)) if v is not None else None
        elif k in ("_strict",):
            continue
        else:
            out[k] = plain(v)
    return out


def designspace_snapshot(ds):
    return {
        "formatVersion": ds.formatVersion,
        "axes": [plain(vars(a)) for a in ds.axes],
        "axisMappings": [plain(vars(a)) for a in getattr(ds, "axisMappings", [])],
        "rules": [plain(vars(r)) for r in ds.rules],
        "rulesProcessingLast": ds.rulesProcessingLast,
        "sources": [_descriptor(s) for s in ds.sources],
        "instances": [_descriptor(i) for i in ds.instances],
        "variableFonts": [plain(vars(v)) for v in getattr(ds, "variableFonts", [])],
        "locationLabels": [plain(vars(v)) for v in getattr(ds, "locationLabels", [])],
        "lib": plain(dict(ds.lib)),
        "path": ds.path,
        "filename": ds.filename,
    }


def diff(a, b, path="", out=None, limit=25):
    """Paths at which two snapshots differ."""
    if out is None:
        out = []
    if len(out) >= limit:
        return out
    if type(a) is not type(b):
        out.append((path, _short(a), _short(b)))
        return out
    if isinstance(a, dict):
        if "__dict__" in a and "__dict__" in b:
            da, db = dict(a["__dict__"]), dict(b["__dict__"])
            return diff(da, db, path, out, limit)
        for k in sorted(set(a) | set(b), key=str):
            if k not in a:
                out.append((f"{path}/{k}", "<absent>", _short(b[k])))
            elif k not in b:
                out.append((f"{path}/{k}", _short(a[k]), "<absent>"))
            else:
                diff(a[k], b[k], f"{path}/{k}", out, limit)
        return out
    if isinstance(a, (list, tuple)):
        if len(a) != len(b):
            out.append((path + "/len", len(a), len(b)))
            if len(out) < limit:
                out.append((path, _short(a), _short(b)))
            return out
        for i, (x, y) in enumerate(zip(a, b)):
            diff(x, y, f"{path}[{i}]", out, limit)
        return out
    if a != b:
        out.append((path, _short(a), _short(b)))
    return out


def _short(v):
    s = repr(v)
    return s if len(s) < 300 else s[:300] + "..."
