"""Matching of violations against the committed known_findings.json (never written at run time).

Entry: {"id": ..., "property": "C07", "kind": <violation kind>, "match": {feature: value, ...},
        "description": ...}.  A violation matches when property and kind are equal and every
`match` item equals the violation's feature of that name; a dict value is an operator:
{"in": [..]} one of, {"contains": x} the feature is a list containing x, {"prefix": s}.
`fixed` entries are documentation only and suppress nothing.
"""
import json
import os

PATH = os.path.join(os.path.dirname(os.path.dirname(os.path.abspath(__file__))), "known_findings.json")


def load(pid):
    try:
        doc = json.load(open(PATH))
    except FileNotFoundError:
        doc = {}
    out = {e["id"]: e for e in doc.get("findings", []) if e["property"] == pid}
    # staging area used while a check is being developed; merged into known_findings.json
    import glob
    for f in sorted(glob.glob(os.path.join(os.path.dirname(PATH), "known_findings.d", "*.json"))):
        for e in json.load(open(f)).get("findings", []):
            if e["property"] == pid:
                out[e["id"]] = e
    return out


def match(known, v):
    for kid, e in known.items():
        if e["kind"] != v["kind"]:
            continue
        ok = True
        for k, want in e.get("match", {}).items():
            have = v["features"].get(k, None)
            if isinstance(want, dict) and "contains" in want:
                if not isinstance(have, list) or want["contains"] not in have:
                    ok = False
                    break
            elif isinstance(want, dict) and "in" in want:
                if have not in want["in"]:
                    ok = False
                    break
            elif isinstance(want, dict) and "prefix" in want:
                if not isinstance(have, str) or not have.startswith(want["prefix"]):
                    ok = False
                    break
            elif have != want:
                ok = False
                break
        if ok:
            return kid
    return None
