"""Explicit-state, bounded-exhaustive explorer driving the real ufo2ft code in every state.

A *state* is a construction / call history (a JSON-able list of ops) modulo the property's
`canon`.  Every transition builds fresh real objects from the history and executes the real
implementation (`Property.run`), which also evaluates the invariant (agreement with the
reference model) and returns the violations found in that state.  The search is
level-synchronous breadth-first: level n holds all histories of length n (or, for pure
enumerations, `initial()` holds the whole finite space and there are no ops).  A level is
sharded over worker processes that were forked once, before any font object existed.

Nothing is sampled: either a level is enumerated completely or the run says which level was cut
by the time cap and reports `exhaustive: false`.
"""

from __future__ import annotations

import hashlib
import json
import multiprocessing as mp
import os
import signal
import sys
import time
import traceback
from collections import Counter

from . import evidence as _evidence
from . import findings as _findings

NPROC = int(os.environ.get("MC_NPROC", "16"))
STATE_TIMEOUT_S = int(os.environ.get("MC_STATE_TIMEOUT", "600"))
REPLAY_ROOT = os.environ.get("MC_REPLAY_DIR", "replays")  # scratch runs against mutants use their own
DOUBLE_RUN = 24  # number of leading states executed twice (determinism of the harness)


def jdump(obj) -> str:
    return json.dumps(obj, sort_keys=True, separators=(",", ":"), default=_json_default)


def _json_default(o):
    if isinstance(o, (set, frozenset)):
        return sorted(o)
    if isinstance(o, tuple):
        return list(o)
    if isinstance(o, bytes):
        return o.hex()
    return repr(o)


def digest(obj) -> str:
    if not isinstance(obj, (str, bytes)):
        obj = jdump(obj)
    if isinstance(obj, str):
        obj = obj.encode("utf-8", "surrogatepass")
    return hashlib.sha256(obj).hexdigest()[:16]


def violation(kind: str, features: dict | None = None, **detail) -> dict:
    """A violation record. `kind` + `features` form the signature used for grouping and for
    matching against known_findings.json; `detail` carries expected/observed values."""
    return {"kind": kind, "features": features or {}, "detail": detail}


class Result:
    __slots__ = ("violations", "counters", "outcome", "substates", "expand", "nontrivial")

    def __init__(self, violations=None, counters=None, outcome="", substates=1, expand=True,
                 nontrivial=None):
        self.violations = violations or []
        self.counters = counters or {}
        self.outcome = outcome
        self.substates = substates
        self.expand = expand
        self.nontrivial = nontrivial


class Property:
    """Base class of the per-property modules (props/cNN_*.py)."""

    id = "C00"
    level = "model_checking"
    confluence = False
    rule = ""
    assumptions: list = []
    trusted_base: list = []

    def bounds(self, tier: str) -> dict:
        return {"depth": 0}

    def initial(self, b: dict) -> list:
        return [[]]

    def ops(self, h: list, b: dict):
        return ()

    def canon(self, h: list, b: dict):
        return jdump(h)

    def run(self, h: list, b: dict) -> Result:
        raise NotImplementedError

    def describe(self, h: list, b: dict):
        """Human-readable form of a history for evidence samples."""
        return h

    def finish(self, b: dict, summary: dict) -> list:
        """Post-exploration checks over the aggregate (e.g. non-vacuity requirements).
        Returns extra violations."""
        return []


# ------------------------------------------------------------------------------------------
# worker side

_PROP = None
_BOUNDS = None


class _Timeout(Exception):
    pass


def _on_alarm(signum, frame):
    raise _Timeout()


def _work(item):
    idx, h = item
    t0 = time.time()
    signal.signal(signal.SIGALRM, _on_alarm)
    signal.alarm(STATE_TIMEOUT_S)
    try:
        r = _PROP.run(h, _BOUNDS)
        signal.alarm(0)
        out = (idx, r.violations, r.counters, r.outcome, r.substates, r.expand, r.nontrivial)
    except _Timeout:
        out = (idx, [violation("harness-timeout", {"timeout_s": STATE_TIMEOUT_S})], {}, "timeout",
               1, False, None)
    except Exception as e:  # an exception the property module did not classify as expected
        signal.alarm(0)
        tb = traceback.format_exc(limit=12)
        out = (idx, [violation("unexpected-exception", {"type": type(e).__name__},
                               message=str(e)[:500], traceback=tb)], {}, "exc:" + type(e).__name__,
               1, False, None)
    return out + (time.time() - t0,)


def run_single(prop: Property, h, b) -> Result:
    """Plain function-call execution of one state, without the explorer (used by replay)."""
    try:
        return prop.run(h, b)
    except Exception as e:
        return Result([violation("unexpected-exception", {"type": type(e).__name__},
                                 message=str(e)[:500],
                                 traceback=traceback.format_exc(limit=12))], {}, "exc", 1, False)


# ------------------------------------------------------------------------------------------
# driver side


def explore(prop: Property, tier: str, seed: int = 0, verbose: bool = True) -> int:
    global _PROP, _BOUNDS
    t_start = time.time()
    b = dict(prop.bounds(tier))
    b["tier"] = tier
    depth = int(b.get("depth", 0))
    time_cap = float(os.environ.get("MC_TIME_CAP", b.get("time_cap_s", 0)) or 0)
    _PROP, _BOUNDS = prop, b

    known = _findings.load(prop.id)
    import shutil
    shutil.rmtree(os.path.join(REPLAY_ROOT, prop.id), ignore_errors=True)
    ctx = mp.get_context("fork")
    pool = ctx.Pool(NPROC)

    seen = {}  # canon -> outcome digest
    states = substates = transitions = 0
    counters = Counter()
    outcomes = Counter()
    nontrivial = 0
    samples = []
    viol_groups = {}  # signature -> dict(first=violation record, history, count)
    known_hits = Counter()
    levels_completed = -1
    caps_hit = []
    per_level = []
    confluence_checked = 0
    determinism_checked = 0
    slowest = (0.0, None)

    level = list(prop.initial(b))
    transitions += len(level)
    lvl = 0
    harness_broken = None
    while level:
        # --- dedup -----------------------------------------------------------------------
        todo, conf = [], []
        for h in level:
            k = prop.canon(h, b)
            if k in seen:
                if prop.confluence and seen[k][1] != jdump(h):
                    conf.append((k, h))
                continue
            seen[k] = (None, jdump(h) if prop.confluence else "")
            todo.append((k, h))
        items = [(i, h) for i, (k, h) in enumerate(todo)]
        # determinism double-run of the first states of the search
        dbl = []
        if determinism_checked < DOUBLE_RUN:
            n = min(DOUBLE_RUN - determinism_checked, len(todo))
            dbl = [(len(todo) + j, todo[j][1]) for j in range(n)]
        conf_items = [(len(todo) + len(dbl) + j, h) for j, (k, h) in enumerate(conf)]
        all_items = items + dbl + conf_items
        results = {}
        capped = False
        chunk = max(1, min(64, len(all_items) // (NPROC * 8) or 1))
        for out in pool.imap_unordered(_work, all_items, chunksize=chunk):
            results[out[0]] = out
            if time_cap and time.time() - t_start > time_cap:
                capped = True
                break
        if capped:
            pool.terminate()
            caps_hit.append({"kind": "time", "cap_s": time_cap, "level": lvl,
                             "level_states_done": len(results), "level_states": len(all_items)})
        # --- merge in deterministic order -------------------------------------------------
        nxt = []
        for i, (k, h) in enumerate(todo):
            if i not in results:
                seen.pop(k, None)
                continue
            _, viols, ctrs, outcome, sub, expand, nontriv, dt = results[i]
            seen[k] = (outcome, seen[k][1])
            states += 1
            substates += sub
            counters.update(ctrs)
            outcomes[outcome] += 1
            if nontriv is None:
                nontriv = sub if ctrs else 0
            nontrivial += int(nontriv)
            if dt > slowest[0]:
                slowest = (dt, h)
            if len(samples) < 3 or (i == len(todo) - 1 and not capped):
                samples.append(prop.describe(h, b))
            for v in viols:
                _record(prop, v, h, known, known_hits, viol_groups)
            if expand and len(h) < depth and not capped:
                for op in prop.ops(h, b):
                    nxt.append(h + [op])
                    transitions += 1
        for j, (idx, h) in enumerate(dbl):
            if idx in results and j in results:
                determinism_checked += 1
                if results[idx][3] != results[j][3]:
                    harness_broken = {"history": h, "first": results[j][3], "second": results[idx][3]}
        for j, (idx, h) in enumerate(conf_items):
            if idx in results:
                k = conf[j][0]
                confluence_checked += 1
                # the second construction order is a state of its own for the invariant
                for v in results[idx][1]:
                    _record(prop, v, h, known, known_hits, viol_groups)
                if seen.get(k) and seen[k][0] is not None and results[idx][3] != seen[k][0]:
                    v = violation("confluence", {"what": "same content, different construction order"},
                                  first_history=json.loads(seen[k][1]), first_outcome=seen[k][0],
                                  second_outcome=results[idx][3])
                    _record(prop, v, h, known, known_hits, viol_groups)
        per_level.append({"level": lvl, "candidates": len(level), "new_states": len(todo),
                          "dedup_hits": len(level) - len(todo)})
        if verbose:
            print(f"[{prop.id}] level {lvl}: {len(todo)} new states "
                  f"({len(level) - len(todo)} dedup), total {states}, "
                  f"{time.time() - t_start:.1f}s", file=sys.stderr, flush=True)
        if capped or harness_broken:
            break
        levels_completed = lvl
        level = nxt
        lvl += 1
    if not caps_hit:
        pool.close()
    pool.join()

    summary = {"states": states, "substates": substates, "counters": dict(counters),
               "outcomes": len(outcomes), "bounds": b}
    if not harness_broken and not caps_hit:
        for v in prop.finish(b, summary):
            _record(prop, v, [], known, known_hits, viol_groups)

    # --- violations: confirm through the explorer-free path, write replays ----------------
    new_violations = 0
    lines = []
    if harness_broken:
        print(f"[{prop.id}] HARNESS BROKEN: nondeterministic observation for "
              f"{jdump(harness_broken)[:600]}", file=sys.stderr)
    for sig, g in viol_groups.items():
        if g["known"]:
            continue
        new_violations += 1
        path = _write_replay(prop, tier, b, g)
        lines.append(f"VIOLATION property={prop.id} replay={path}")
    for kid, n in sorted(known_hits.items()):
        print(f"KNOWN-FINDING: property={prop.id} {kid}: {known[kid]['description']} "
              f"[matched {n} state(s)]")
    for ln in lines[:40]:
        print(ln)
    if len(lines) > 40:
        print(f"[{prop.id}] ... {len(lines) - 40} further violation signatures (replays written)")

    wall = time.time() - t_start
    exhaustive = not caps_hit and not harness_broken
    cov = {
        "states": max(states, 0),
        "transitions": transitions,
        "traces_validated_against_impl": states,
        "samples": samples[:6] or ["<none>"],
        "exhaustive": exhaustive,
        "evaluations": substates,
        "distinct_nontrivial": nontrivial,
        "rule": prop.rule,
        "glyph_or_case_states": substates,
        "bounds": {k: v for k, v in b.items() if _small(v)},
        "levels_completed": levels_completed,
        "per_level": per_level,
        "caps_hit": caps_hit,
        "counters": dict(sorted(counters.items())),
        "distinct_outcomes": len(outcomes),
        "determinism_double_runs": determinism_checked,
        "confluence_revalidated": confluence_checked,
        "known_findings_matched": dict(known_hits),
        "violation_signatures": [
            {"kind": g["v"]["kind"], "features": g["v"]["features"], "count": g["count"],
             "known": g["known"]} for g in list(viol_groups.values())[:50]],
        "slowest_state_s": round(slowest[0], 3),
        "trusted_base": prop.trusted_base,
        "explanation": ("every state is a construction/call history; the real ufo2ft code from "
                        + os.environ.get("VERIF_REPO", "/repo") + "/Lib is executed in every state and "
                        "compared with an independent reference model"),
        "harness_broken": harness_broken,
    }
    _evidence.write(prop.id, tier, seed, prop.level, cov, list(prop.assumptions), wall,
                    new_violations)
    if verbose:
        print(f"[{prop.id}] tier={tier} states={states} case-states={substates} "
              f"transitions={transitions} outcomes={len(outcomes)} exhaustive={exhaustive} "
              f"violations={new_violations} known={sum(known_hits.values())} wall={wall:.1f}s",
              file=sys.stderr)
    if harness_broken:
        return 2
    return 1 if new_violations else 0


def _small(v):
    try:
        return len(jdump(v)) < 2000
    except Exception:
        return False


def _sig(v):
    return jdump([v["kind"], v["features"]])


def _record(prop, v, h, known, known_hits, groups):
    s = _sig(v)
    g = groups.get(s)
    if g is None:
        kid = _findings.match(known, v)
        g = groups[s] = {"v": v, "history": h, "count": 0, "known": kid}
    g["count"] += 1
    if g["known"]:
        known_hits[g["known"]] += 1


def _write_replay(prop, tier, b, g):
    d = os.path.join(REPLAY_ROOT, prop.id)
    os.makedirs(d, exist_ok=True)
    rec = {"property": prop.id, "tier": tier, "history": g["history"], "violation": g["v"],
           "states_with_this_signature": g["count"], "tree": _tree_id()}
    name = digest([prop.id, g["history"], g["v"]["kind"], g["v"]["features"]])[:12] + ".json"
    path = os.path.join(d, name)
    with open(path, "w") as f:
        json.dump(rec, f, indent=1, default=_json_default, sort_keys=True)
    return path


def _tree_id():
    import subprocess
    repo = os.environ.get("VERIF_REPO", "/repo")
    try:
        rev = subprocess.run(["git", "-C", repo, "rev-parse", "HEAD"], capture_output=True,
                             text=True, timeout=10).stdout.strip()
        dirty = bool(subprocess.run(["git", "-C", repo, "status", "--porcelain", "-uno"],
                                    capture_output=True, text=True, timeout=10).stdout.strip())
        return {"rev": rev, "dirty": dirty}
    except Exception:
        return {}


def replay(prop: Property, path: str) -> int:
    rec = json.load(open(path))
    b = dict(prop.bounds(rec.get("tier", "quick")))
    b["tier"] = rec.get("tier", "quick")
    known = _findings.load(prop.id)
    r = run_single(prop, rec["history"], b)
    want = _sig(rec["violation"])
    bad = 0
    print(f"replay {path}: history = {jdump(rec['history'])[:2000]}")
    for v in r.violations:
        kid = _findings.match(known, v)
        tag = f"KNOWN-FINDING({kid})" if kid else "VIOLATION"
        same = " [recorded signature]" if _sig(v) == want else ""
        print(f"  {tag}{same}: kind={v['kind']} features={jdump(v['features'])}")
        print(f"     detail={jdump(v['detail'])[:3000]}")
        if not kid:
            bad += 1
    if not r.violations:
        print("  no violation in this state on the current tree")
    if bad:
        print(f"VIOLATION property={prop.id} replay={path}")
    return 1 if bad else 0
