"""Real glyph objects (ufoLib2 / defcon, fonts or ufo2ft glyph sets) -> plain-data glyph specs.

`spec_from_glyphset(gs)` re-extracts, from the live glyph objects of a mapping name -> glyph, the
same plain structure `mc.ufo_build` consumes and `mc.outline_ref.resolve` understands:

    {name: {"width": w, "height": h, "contours": [[(x, y, type, smooth), ...]], "open": [bool...],
            "components": [(base, (xx, xy, yx, yy, dx, dy))], "anchors": [(name, x, y)]}}

Nothing is computed: it is a reader.  Used by the filter properties (C14/C15) to evaluate the
reference resolver on what a filter actually left behind.
"""

from __future__ import annotations


def _ptype(p):
    st = getattr(p, "segmentType", None)
    if st is None and hasattr(p, "type"):
        st = p.type
    return st


def glyph_spec(g) -> dict:
    contours, opens = [], []
    for c in g:
        pts = c.points if hasattr(c, "points") else list(c)
        row = [(p.x, p.y, _ptype(p), bool(p.smooth)) for p in pts]
        contours.append(row)
        opens.append(bool(row) and row[0][2] == "move")
    comps = [(c.baseGlyph, tuple(c.transformation)) for c in g.components]
    anchors = [(a.name, a.x, a.y) for a in g.anchors]
    out = {"width": g.width, "height": g.height, "contours": contours, "components": comps,
           "anchors": anchors}
    if any(opens):
        out["open"] = opens
    return out


def spec_from_glyphset(gs) -> dict:
    """gs: a font (default layer), a layer, or any mapping name -> glyph (e.g. ufo2ft _GlyphSet)."""
    if hasattr(gs, "layers") and not isinstance(gs, dict):
        gs = gs.layers.defaultLayer
    names = list(gs.keys())
    return {n: glyph_spec(gs[n]) for n in names}


# ---- canonical forms of resolved outlines ---------------------------------------------------

def canon_cycle(segs):
    """Rotation-invariant canonical form of a segment cycle [(kind, offs, end)] (direction kept)."""
    items = [(k, tuple((float(o[0]), float(o[1])) for o in offs),
              None if end is None else (float(end[0]), float(end[1]))) for k, offs, end in segs]
    n = len(items)
    if n <= 1:
        return tuple(items)
    best = None
    for r in range(n):
        rot = tuple(items[r:] + items[:r])
        key = repr(rot)
        if best is None or key < best[0]:
            best = (key, rot)
    return best[1]


def contour_multiset(cycles):
    """Sorted list of canonical cycles: equal lists <=> equal multisets of directed cyclic contours."""
    return sorted((canon_cycle(c) for c in cycles), key=repr)
