"""Writer of evidence/<id>.json (schema: /root/.vp/EVIDENCE.schema.json)."""
import json
import os


def write(pid, tier, seed, level, coverage, assumptions, wall_s, violations):
    evdir = os.environ.get("MC_EVIDENCE_DIR", "evidence")
    os.makedirs(evdir, exist_ok=True)
    doc = {
        "property_id": pid,
        "tier": tier,
        "seed": int(seed),
        "level": level,
        "coverage": coverage,
        "assumptions": assumptions,
        "wall_s": round(float(wall_s), 3),
        "violations": int(violations),
    }
    tmp = os.path.join(evdir, pid + ".json.tmp")
    with open(tmp, "w") as f:
        json.dump(doc, f, indent=1, sort_keys=True, default=repr)
    os.replace(tmp, os.path.join(evdir, pid + ".json"))
