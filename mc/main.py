import argparse
import importlib
import os
import pkgutil
import sys


def load_property(pid):
    import props
    for m in pkgutil.iter_modules(props.__path__):
        if m.name.lower().startswith(pid.lower() + "_") or m.name.lower() == pid.lower():
            mod = importlib.import_module("props." + m.name)
            return mod.PROPERTY
    raise SystemExit(f"no property module for {pid}")


def main():
    ap = argparse.ArgumentParser()
    ap.add_argument("prop")
    ap.add_argument("--tier", default=os.environ.get("VERIF_TIER", "quick"),
                    choices=["quick", "thorough"])
    ap.add_argument("--replay")
    a = ap.parse_args()
    repo = os.environ.get("VERIF_REPO", "/repo")
    import logging
    import warnings
    warnings.simplefilter("ignore")
    logging.disable(logging.CRITICAL)
    import ufo2ft
    if not os.path.realpath(ufo2ft.__file__).startswith(os.path.realpath(repo) + "/Lib/"):
        raise SystemExit(f"ufo2ft imported from {ufo2ft.__file__}, expected {repo}/Lib")
    # everything ufo2ft / the checks write to the temp dir lands in a per-run scratch directory
    # outside /repo and /verif that is removed when the driver exits
    import atexit
    import shutil
    import tempfile
    base = tempfile.mkdtemp(prefix="ufo2ft-mc-run-")
    os.environ["TMPDIR"] = base
    tempfile.tempdir = base
    pid = os.getpid()
    atexit.register(lambda: os.getpid() == pid and shutil.rmtree(base, ignore_errors=True))
    if a.prop == "selftest":
        import selftest
        sys.exit(selftest.main())
    from mc import explore
    prop = load_property(a.prop)
    if a.replay:
        sys.exit(explore.replay(prop, a.replay))
    try:
        seed = int(os.environ.get("VERIF_SEED", "0"))
    except ValueError:
        seed = 0
    sys.exit(explore.explore(prop, a.tier, seed))


if __name__ == "__main__":
    main()
