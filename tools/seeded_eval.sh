#!/bin/bash
# usage: tools/seeded_eval.sh <seed dir with patch.diff demo.py meta.json> [check ids... default: the property in meta.json]
# Confirms a seeded change in a scratch copy of /repo (outside /repo and /verif): demo passes on the clean tree, the
# patch applies, the repo's own test-suite still passes, the demo fails with the change; then runs the given checks
# against the changed copy. Prints one summary line; removes the scratch copy.
set -u
here="$(cd "$(dirname "$0")/.." && pwd)"
d="$(cd "$1" && pwd)"; shift
prop=$(/venv/bin/python -c "import json,sys;print(json.load(open('$d/meta.json'))['property'])")
ids="${@:-$prop}"
tmp=$(mktemp -d /tmp/seedeval.XXXXXX)
mkdir -p "$tmp/r"; cp -r /repo/Lib /repo/tests /repo/setup.py /repo/setup.cfg /repo/tox.ini "$tmp/r/" 2>/dev/null
cd "$tmp/r" && git init -q . && git add -A >/dev/null && git -c user.email=a@b -c user.name=x commit -qm base
(cd "$tmp/r" && PYTHONPATH="$tmp/r/Lib" timeout 600 /venv/bin/python "$d/demo.py" >"$tmp/demo_clean.out" 2>&1); clean=$?
if ! git apply "$d/patch.diff" 2>"$tmp/apply.err"; then echo "$d: PATCH DOES NOT APPLY: $(head -2 $tmp/apply.err)"; rm -rf "$tmp"; exit 2; fi
if [ -n "${SEED_SKIP_TESTS:-}" ]; then tests="suite not re-run: 1148 passed when the change was kept"
else tests=$(cd "$tmp/r" && PYTHONPATH="$tmp/r/Lib" /venv/bin/python -m pytest -q -p no:cacheprovider -n 12 tests 2>&1 | tail -1); fi
(cd "$tmp/r" && PYTHONPATH="$tmp/r/Lib" timeout 600 /venv/bin/python "$d/demo.py" >"$tmp/demo_mut.out" 2>&1); mut=$?
res=""
for id in $ids; do
  out=$(cd "$here" && MC_EVIDENCE_DIR="$tmp/ev" MC_REPLAY_DIR="$tmp/replays" VERIF_REPO="$tmp/r" ./check "$id" --tier "${SEED_TIER:-quick}" 2>&1); rc=$?
  nv=$(echo "$out" | grep -c '^VIOLATION')
  res="$res $id:rc=$rc,viol=$nv"
  if [ -n "${SEED_SHOW:-}" ]; then echo "$out" | grep '^VIOLATION' | head -3; fi
  if [ "$nv" -gt 0 ] && [ -n "${SEED_KEEP:-}" ]; then mkdir -p "$d/replays"; for f in $(echo "$out" | grep '^VIOLATION' | head -2 | sed 's/.*replay=//'); do cp "$f" "$d/replays/" 2>/dev/null; done; fi
done
echo "$(basename $(dirname $d))/$(basename $d): demo_clean_exit=$clean tests=[$tests] demo_changed_exit=$mut checks:$res"
rm -rf "$tmp"
