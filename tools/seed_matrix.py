#!/venv/bin/python
"""Prints the markdown catch matrix of /verif/seeded/*/meta.json (for DESIGN.md §18)."""
import glob
import json
import os
import re

HERE = os.path.dirname(os.path.dirname(os.path.abspath(__file__)))
rows = []
for d in sorted(glob.glob(os.path.join(HERE, "seeded", "*"))):
    m = json.load(open(os.path.join(d, "meta.json")))
    res = m["confirmed"]["result"]
    checks = re.findall(r"(C\d\d):rc=(\d),viol=(\d+)", res)
    caught = [c for c, rc, n in checks if rc == "1"]
    missed = [c for c, rc, n in checks if rc != "1"]
    files = ", ".join(os.path.basename(f) for f in m.get("files_touched", []))
    needs = " ".join(str(m.get("what_it_needs_to_manifest", "")).split())[:230]
    rows.append((os.path.basename(d), m.get("property"), files, needs, ", ".join(caught) or "-", ", ".join(missed) or ""))
import sys
if "--compact" in sys.argv:
    print("| seeded change (seeded/<name>/) | breaks | file(s) changed | caught by (quick tier) |")
    print("|---|---|---|---|")
    for r in rows:
        print(f"| {r[0]} | {r[1]} | {r[2]} | {r[4]} |")
    print()
    print(f"{len(rows)} seeded changes, {sum(1 for r in rows if r[4] != '-')} caught")
    sys.exit(0)
print("| seeded change | breaks | file(s) | needs, to manifest | caught by | run but silent |")
print("|---|---|---|---|---|---|")
for r in rows:
    print("| " + " | ".join(x.replace("|", "/") for x in r) + " |")
print()
print(f"{len(rows)} seeded changes, {sum(1 for r in rows if r[4] != '-')} caught")
