#!/bin/bash
# usage: tools/run_all.sh [quick|thorough] [ids...]   runs the claimed checks sequentially
cd "$(dirname "$0")/.."
tier="${1:-quick}"; shift
ids="$@"
[ -z "$ids" ] && ids=$(/venv/bin/python -c "import json;print(' '.join(c['property_id'] for c in json.load(open('MANIFEST.json'))['checks']))")
for id in $ids; do
  s=$(date +%s)
  out=$(./check $id --tier $tier 2>&1); rc=$?
  e=$(date +%s)
  echo "$id rc=$rc $((e-s))s $(echo "$out" | grep -c '^VIOLATION') viol $(echo "$out" | grep -c '^KNOWN-FINDING') known | $(echo "$out" | tail -1 | cut -c1-160)"
done
