#!/venv/bin/python
"""Regenerates MANIFEST.json from the table below (one row per claimed property)."""
import json
import os

HERE = os.path.dirname(os.path.dirname(os.path.abspath(__file__)))
BASELINE = ("cd /repo && /venv/bin/python -m pytest -ra -q -p no:cacheprovider --timeout=900 "
            "--continue-on-collection-errors")

# id -> (design section, level text, level note, technique)
CLAIMED = {
    "C07": ("DESIGN.md §5 C07",
            "Exhaustive enumeration of every subset of <= 2 (quick) / <= 3 (thorough) ingredients from a "
            "47-item menu x 9 public compile functions x both UFO libraries, each followed by a second call "
            "on the same objects (thorough: cross-function histories of depth 3); the real compile function "
            "runs in every state and a deep snapshot of all caller-owned objects is compared after every "
            "call, returned or raised.",
            "Trusted: mc/snapshot.py sees every caller-visible attribute; ufoLib2/defcon as containers. "
            "Ingredient interactions of order > 3 and third-party filters are outside the bound.",
            "bounded exhaustive exploration of call histories x ingredient subsets with frame (snapshot) oracle"),
}

CLAIMED["C01"] = (
    "DESIGN.md §5 C01",
    "Every glyph of every packed trie font is a checked state: all component chains of depth <= 3 over a 9 "
    "(quick) / 14 (thorough) transform palette under 7 base shapes in 3 variants, every single and pair of "
    "coordinate deviations from a 12-value palette, and a width palette (incl. widths in [-0.5, 0)), x both UFO libraries x roundTolerance "
    "{None,0,0.25,0.5} x cffVersion {1,2}; the reloaded CFF/CFF2 outline and hmtx advance must equal the "
    "independent resolver's result (exact ==, halves up).",
    "Trusted: fontTools CFF reader/charstring interpreter; mc/outline_ref.py. Dyadic coordinates only; closed "
    "contours; no zero-length segments.",
    "bounded exhaustive enumeration of component tries / coordinate deviations against an independent outline resolver")
CLAIMED["C05"] = (
    "DESIGN.md §5 C05",
    "BFS over kerning dictionaries (add-one-entry ops, 56 keys x value palette, depth 2, interacting keys only) x "
    "9 group configurations x 13 environment switches (incl. over-long group names sharing a 64-character prefix), plus the complete 4-level exception lattice and a "
    "cross-script merge lattice; in every state "
    "the compiled GPOS is evaluated by an independent PairPos interpreter for every ordered pair of a 13-glyph "
    "multi-script repertoire under every selectable script/language and compared with UFO kerning semantics; both "
    "kern writers.",
    "Trusted: mc/otl_ref.py (selftested), mc/kern_ref.py, fontTools.unicodedata. > 2 interacting entries per state "
    "(beyond the lattice) and contextual kerning are outside the bound.",
    "explicit-state BFS over kerning histories with a reference GPOS interpreter as oracle; confluence re-validation")

def row(ref, text, note, tech):
    return ("DESIGN.md " + ref, text, note, tech)


CLAIMED["C02"] = row("§5 C02 / §15",
    "Every glyph of packed fonts over the full option product (convertCubics x reverseDirection x flattenComponents x "
    "allQuadratic x cubicConversionError x dropImpliedOnCurves x unitsPerEm = 192 configurations): component tries "
    "(pure, mixed, shared, three-component, composites of mixed glyphs), a 14-cubic palette, coordinate deviations; "
    "reloaded glyf compared point-for-point with the independent resolver, cubics by a necessary distance bound, "
    "composites / maxp / flattening recomputed.",
    "Trusted: fontTools glyf reader, mc/outline_ref.py. Curve distance is a sampled necessary condition; 2x2 entries "
    "outside F2Dot14 range are excluded (format limit).",
    "bounded exhaustive enumeration over option product x component tries against an independent outline resolver")
CLAIMED["C03"] = row("§5 C03 / §15",
    "All glyph-name subsets of a 5-name universe x all stored orders up to length 4/5 x explicit orders up to length "
    "2/3 at the makeOfficialGlyphOrder seam (4.4M / 155M calls), compile-seam orders, all code-point assignments of "
    "size <= 2/3 per glyph over {41,42,FFFF,10000,1F600} for 3 glyphs x TTF/OTF x both libraries, BFS over UVS "
    "entries; the notdefGlyph= argument (three kinds of supplied glyph); the glyph orders of the two variable fonts "
    "of a discrete-axis designspace whose default sources store different orders; reference order / cmap / UVS "
    "functions written from the statement.",
    "Trusted: fontTools cmap reader. Name universes > 5 and orders > 5 are outside the bound.",
    "exhaustive enumeration of glyph-order / code-point assignments; BFS over UVS entries; reference model comparison")
CLAIMED["C06"] = row("§5 C06 / §15",
    "BFS over anchor assignments (23 (glyph, anchor-name) slots x 3 positions, depth 3/4, plus rich seed states "
    "expanded by one or two ops, incl. two-digit ligature components, a base-class glyph with an attaching anchor and an Indic ligature with numbered nukta anchors) x 12 environment switches; every ordered glyph pair and every ligature component is "
    "evaluated by the independent MarkBase/MarkLig/MarkMark interpreter in every state and compared with the "
    "source anchors; anchor insertion order is re-validated (confluence).",
    "Trusted: mc/otl_ref.py (selftested). Contextual anchors and > 4 interacting anchors are outside the bound.",
    "explicit-state BFS over anchor histories with a reference GPOS mark-attachment interpreter as oracle")
CLAIMED["C08"] = row("§5 C08 / §3",
    "Schedule space = PYTHONHASHSEED: seeds chosen by a greedy cover until all k! iteration orders of five tracked "
    "name sets are realised (31 seeds of 0..199); per (input, seed) a fresh subprocess runs every call history of "
    "depth <= 2/3 over the compile functions on the same objects, and on seeds 0/1 the full product UFO library x "
    "in-memory/saved-and-reopened(lazy, eager) x inplace x 24/48 construction-order permutations; the process time "
    "zone east and west of UTC; every call history of length 2/3 on ONE object of each of the six exported compiler "
    "classes over {two good sources, bad feature code, incompatible masters}; sha256 of font bytes and emitted "
    "feature text must equal the fresh reference.",
    "Trusted: CPython hashing model (only string-hash order is scheduled), SOURCE_DATE_EPOCH pinning.",
    "exhaustive schedule enumeration over hash-seed-induced set orders x call histories, differential digest oracle")
CLAIMED["C11"] = row("§5 C11 / §15",
    "BFS 'add glyph' over a 25-op (name, code point) alphabet (incl. ligatures repeating a component) to depth 3/4 x 8 public.postscriptNames maps x "
    "TTF/CFF/CFF2 x forward/reversed glyph order, the complete product of the naming switches (972 cases), "
    "variable fonts in thorough; per-table raw bytes with production names on vs off and an independent "
    "restatement of the naming rules.",
    "Trusted: fontTools sfnt reader. Name sets > 4 are outside the bound.",
    "explicit-state BFS over glyph-name sets with byte-level differential oracle and reference naming rules")
CLAIMED["C16"] = row("§5 C16 / §15",
    "All 1,114,112 code points (and all ordered pairs of the 283 dangerous ones) through the PostScript-name "
    "normaliser; deviation bounding (k <= 1 quick, k <= 2 thorough) over 92 fontinfo attributes x 176 menu values "
    "from three bases x TTF/OTF(/CFF2/defcon) with an independent fontinfo->table-field reference (mc/info_ref.py); "
    "designspace public.fontInfo overrides through compileVariableTTF; typographic names elided only as a pair.",
    "Trusted: fontTools table readers, mc/info_ref.py (selftested). Strings > 2 characters and interactions of order "
    "> 2 are outside the bound.",
    "exhaustive code-point enumeration + deviation-bounded enumeration of fontinfo against an independent field map")
CLAIMED["C17"] = row("§5 C17 / §15",
    "BFS 'append top-level statement' over a 35-block palette (languagesystems, class/lookup definitions, GSUB "
    "feature, kern/dist/mark/mkmk/curs blocks in six marker shapes, GDEF, comment) to depth 2 (+1 restricted) / 3 "
    "(+1), x 22 writer lists (explicit, UFO lib, ellipsis; a third-party GSUB writer in every position) x skip/append on the shorter histories; emitted feature source parsed back and compared "
    "with the user's statements; GSUB byte identity; GSUB-writer position independence.",
    "Trusted: feaLib parser/asFea as canonical form. Nested blocks deeper than one level and include() are outside.",
    "explicit-state BFS over feature-file construction histories with a subsequence / placement oracle")
CLAIMED["C18"] = row("§5 C18 / §15",
    "All 7^5 category maps over (base, ligature, mark, skipped, nonexistent) glyph names, with user GDEF variants; "
    "BFS over caret anchors (6 names x 4 coordinates, depth 3/4); all 6^4 entry/exit shape assignments to (Latin, "
    "Arabic, common, unencoded) glyphs with/without a GSUB alternate, without any LTR glyph, with an LTR-only "
    "character map, through designspace rules on both designspace paths and with writer objects reused across two "
    "designspaces; GDEF classes, "
    "LigCaretList and CursivePos records + RightToLeft flag read back and compared with the source.",
    "Trusted: fontTools GDEF/GPOS readers.",
    "exhaustive enumeration of category maps / cursive assignments, BFS over caret anchors, reference comparison")
CLAIMED["C19"] = row("§5 C19 / §15",
    "220-240 designspace setups (incl. families where one complete master has no kerning, a slnt-registered axis / explicit OS/2 classes, an earlier instantiator over the reversed source order) (5 topologies x axis map x rounding x rule sets x scribble mode) x call histories of "
    "<= 3/4 generate_instance / replace_source_layers / swap requests on ONE instantiator at every grid location; "
    "results compared with the master data or an independent closed-form blend (mc/var_ref.py), with a fresh "
    "instantiator (history independence), and sources with their snapshots (frame).",
    "Trusted: fontTools VariationModel only for sparse/intermediate mixes, mc/var_ref.py (selftested), mc/snapshot.py.",
    "explicit-state exploration of call histories on live objects with differential and frame oracles")
CLAIMED["C20"] = row("§5 C20 / §15",
    "Complete product: 5 repertoire mixes (+5 with Lao / N'Ko / Kana and named language systems) x 2 kerning kinds x 3 anchor kinds x all 32 subsets of a 5-statement "
    "languagesystem menu x 3 user-feature shapes x TTF/OTF, ordered statement scenarios, reused "
    "writers, writer configurations (UFO lib key with append mode / another order / other options, the legacy kern "
    "writer, the featureWriters argument in another order) and two-master variable fonts with variable features; every script and language system of the "
    "compiled GPOS is checked for reachability of every generated attaching feature that has a complete pair "
    "usable in that script.",
    "Trusted: fontTools GPOS reader, fontTools.unicodedata.",
    "exhaustive enumeration of configuration product with a ScriptList reachability invariant")

CLAIMED["C04"] = row("§5 C04 / §15",
    "BFS 'append glyph' (advance x outline kind; vertical metrics; code points) to depth 3-5 over flavour {TTF, CFF, "
    "CFF2} x vertical on/off x .notdef {explicit, synthesised, empty} x keepGlyphNames; every prefix is a compiled "
    "state; saved bytes == re-saved bytes (lazy and fully decompiled) and every derived field of "
    "hmtx/hhea/vmtx/vhea/head/maxp/post/VORG/OS2 is recomputed from the stored glyph data, on the reloaded font "
    "and on the returned TTFont object; fractional outlines x roundTolerance; TrueType glyph programs x four kinds "
    "of font-level instruction data (maxp instruction fields recomputed from the stored programs).",
    "Trusted: fontTools table readers. Sequences > 5 glyphs and curves with off-curve extrema are outside the bound.",
    "explicit-state BFS over glyph-append histories with recomputation oracle for derived fields")
CLAIMED["C09"] = row("§5 C09 / §15",
    "Families of 2-4 point-compatible masters over all 144 ordered pairs of a 12-cubic palette (122 pairs need "
    "different segment counts when converted alone) x BFS over structure ops (components, differing 2x2, nesting, "
    "mixed glyphs, sparse layers, skipExportGlyphs, per-master filters) to depth 2/3 x the three interpolatable "
    "entry points; per-glyph point/flag/component/operator structure must be identical in all returned masters; "
    "every sequence of <= 3/4 pre-filters from a 5-filter menu over families whose sparse master holds only "
    "composites / only bases (axis 0..1000 and 0..1): the sparse composite must be the interpolation of the bases "
    "as the earlier filters left them.",
    "Trusted: fontTools glyf/CFF readers. > 4 masters, > 2 axes are outside the bound.",
    "explicit-state BFS over master-family construction histories with a cross-master structural-equality invariant")
CLAIMED["C10"] = row("§5 C10 / §15",
    "Complete product of 4 master topologies x axis map x per-master kerning presence patterns ({absent, v1, v2} for a "
    "class pair and its exception in every master) x per-master anchors x {TTF, CFF2} x variableFeatures {on, off}; the "
    "variable font is instantiated at every full master location and compared with the interpolatable master "
    "(+-1 unit), with the master UFO kerning (all ordered pairs through the GPOS interpreter) and anchors; format-5 "
    "designspaces with two variable fonts over sub-ranges of one axis, each with its own default master and anchor "
    "inventory (compileVariableTTFs / compileVariableCFF2s).",
    "Trusted: fontTools.varLib.instancer as evaluator of the variable font, mc/otl_ref.py, mc/kern_ref.py.",
    "exhaustive enumeration of master families with instancer-based replay against per-master reference data")
CLAIMED["C12"] = row("§5 C12 / §15",
    "Every packed font (C01 tries, deviations, width x default/nominal-width pairs, repeated-subpath and degenerate "
    "segment fonts) x roundTolerance is compiled with all 18 combinations optimizeCFF x subroutinizer x cffVersion; "
    "unsupported ones must raise NotImplementedError; per glyph the decoded drawing, hmtx, the CFF1 charstring's own "
    "width and GPOS/GSUB/GDEF bytes are compared across combinations.",
    "Trusted: fontTools CFF reader/charstring interpreter.",
    "exhaustive enumeration of the option product over packed glyph tries with a differential drawing oracle")
CLAIMED["C13"] = row("§5 C13 / §15",
    "All component graphs of 3 dependent glyphs over lower-indexed bases (single / mixed / double references, 2-4 "
    "transforms) + a mark glyph; in every state ALL 31 skip subsets are compiled (TTF, OTF; argument, UFO lib, "
    "UFO-list union, designspace lib; static, interpolatable, variable) and compared with the unskipped compile: "
    "glyph order, cmap, hmtx, contour multisets, TrueType component lists, GDEF classes, kerning and mark "
    "attachment of every remaining pair; sparse two-axis families through varLib, masters that disagree on a glyph's "
    "construction, and a non-default layer compiled on its own.",
    "Trusted: fontTools readers, mc/otl_ref.py. Straight-line integer outlines only (TrueType component rounding).",
    "exhaustive enumeration of component graphs x all skip subsets with a differential (skip vs no-skip) oracle")

CLAIMED["C14"] = row("§5 C14 / §15",
    "31 filter configurations (every shipped filter and I-variant incl. degenerate options) x 132 include/exclude/"
    "predicate specifications x three sibling fonts (a fourth, already exploded one for the colour-layer filter); every history of <= 2 (quick) / 3 (thorough) invocations of ONE "
    "filter object; four oracle clauses: untouched glyphs snapshot-equal, every changed/added/removed glyph reported, "
    "source font frame, history independence against a fresh filter object (also on the SAME font object with "
    "another glyph set; master-order independence of I-filters).",
    "Trusted: mc/snapshot.py. Third-party filters, fonts > 7 glyphs, histories > 3 are outside the bound.",
    "explicit-state exploration of filter call histories on live objects with frame, report and differential oracles")
CLAIMED["C15"] = row("§5 C15 / §15",
    "Component tries of depth 3 (4 in thorough) over 9/14 transforms in three variants x {Decompose, "
    "DecomposeTransformed, Flatten} x plain/interpolatable; 360 Transformations option sets x every include subset of "
    "a 3-chain and a diamond; anchor propagation over tries and a base/mark product; the independent resolver's "
    "contour multisets, matrix images and anchor positions are compared before/after.",
    "Trusted: mc/outline_ref.py, mc/glyphspec.py (selftested). Depth > 4 and mirroring filter matrices are outside.",
    "bounded exhaustive enumeration of component graphs x filter options against an independent outline resolver")

NOT_APPLICABLE = {}


def main():
    props = [json.loads(l) for l in open(os.path.join(HERE, "properties.jsonl"))]
    checks = []
    na = []
    for p in props:
        pid = p["id"]
        if pid in CLAIMED:
            ref, text, note, tech = CLAIMED[pid]
            checks.append({
                "property_id": pid,
                "quick_cmd": f"./check {pid} --tier quick",
                "thorough_cmd": f"./check {pid} --tier thorough",
                "evidence_file": f"evidence/{pid}.json",
                "replay_cmd_template": f"./check {pid} --replay {{path}}",
                "engine": "mc-explorer",
                "level_claimed": {"category": "model_checking", "text": text, "design_ref": ref},
                "level_note": note,
                "technique": tech,
            })
        else:
            na.append({"property_id": pid,
                       "reason": NOT_APPLICABLE.get(pid, "check not built yet in this round (planned, see DESIGN.md §5); "
                                                    "nothing is claimed for it")})
    doc = {
        "version": 1,
        "setup_cmd": "./check selftest",
        "hooks": {"guard": "UFO2FT_VERIF", "enable": "no hooks are needed: checks import ufo2ft from /repo/Lib "
                  "(working tree) and observe public API results only", "baseline_off_cmd": BASELINE,
                  "source_commits": [], "add_only": True},
        "engines": [{"name": "mc-explorer", "path": "mc/explore.py",
                     "serves_properties": sorted(CLAIMED),
                     "kind_free_text": "hand-written explicit-state / bounded-exhaustive explorer in Python; every "
                     "state executes the real ufo2ft code on freshly built objects and is compared with an "
                     "independent reference model; 16 forked workers"}],
        "checks": checks,
        "notes": "known_findings.json lists genuine defects recorded rather than repaired; see DESIGN.md §7.",
        "not_applicable": na,
    }
    with open(os.path.join(HERE, "MANIFEST.json"), "w") as f:
        json.dump(doc, f, indent=1)
    print(f"claimed {len(checks)}, not claimed {len(na)}")


if __name__ == "__main__":
    main()
