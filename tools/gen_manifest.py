#!/venv/bin/python
"""Regenerates MANIFEST.json from the table below (one row per claimed property)."""
import json
import os

HERE = os.path.dirname(os.path.dirname(os.path.abspath(__file__)))
BASELINE = ("cd /repo && /venv/bin/python -m pytest -ra -q -p no:cacheprovider --timeout=900 "
            "--continue-on-collection-errors")

# id -> (design section, level text, level note, technique)
CLAIMED = {
    "C07": ("DESIGN.md §5 C07",
            "Exhaustive enumeration of every subset of <= 2 (quick) / <= 3 (thorough) ingredients from a "
            "42-item menu x 9 public compile functions x both UFO libraries, each followed by a second call "
            "on the same objects (thorough: cross-function histories of depth 3); the real compile function "
            "runs in every state and a deep snapshot of all caller-owned objects is compared after every "
            "call, returned or raised.",
            "Trusted: mc/snapshot.py sees every caller-visible attribute; ufoLib2/defcon as containers. "
            "Ingredient interactions of order > 3 and third-party filters are outside the bound.",
            "bounded exhaustive exploration of call histories x ingredient subsets with frame (snapshot) oracle"),
}

NOT_APPLICABLE = {}


def main():
    props = [json.loads(l) for l in open(os.path.join(HERE, "properties.jsonl"))]
    checks = []
    na = []
    for p in props:
        pid = p["id"]
        if pid in CLAIMED:
            ref, text, note, tech = CLAIMED[pid]
            checks.append({
                "property_id": pid,
                "quick_cmd": f"./check {pid} --tier quick",
                "thorough_cmd": f"./check {pid} --tier thorough",
                "evidence_file": f"evidence/{pid}.json",
                "replay_cmd_template": f"./check {pid} --replay {{path}}",
                "engine": "mc-explorer",
                "level_claimed": {"category": "model_checking", "text": text, "design_ref": ref},
                "level_note": note,
                "technique": tech,
            })
        else:
            na.append({"property_id": pid,
                       "reason": NOT_APPLICABLE.get(pid, "check not built yet in this round (planned, see DESIGN.md §5); "
                                                    "nothing is claimed for it")})
    doc = {
        "version": 1,
        "setup_cmd": "./check selftest",
        "hooks": {"guard": "UFO2FT_VERIF", "enable": "no hooks are needed: checks import ufo2ft from /repo/Lib "
                  "(working tree) and observe public API results only", "baseline_off_cmd": BASELINE,
                  "source_commits": [], "add_only": True},
        "engines": [{"name": "mc-explorer", "path": "mc/explore.py",
                     "serves_properties": sorted(CLAIMED),
                     "kind_free_text": "hand-written explicit-state / bounded-exhaustive explorer in Python; every "
                     "state executes the real ufo2ft code on freshly built objects and is compared with an "
                     "independent reference model; 16 forked workers"}],
        "checks": checks,
        "notes": "known_findings.json lists genuine defects recorded rather than repaired; see DESIGN.md §7.",
        "not_applicable": na,
    }
    with open(os.path.join(HERE, "MANIFEST.json"), "w") as f:
        json.dump(doc, f, indent=1)
    print(f"claimed {len(checks)}, not claimed {len(na)}")


if __name__ == "__main__":
    main()
