#!/venv/bin/python
"""Regenerates MANIFEST.json from the table below (one row per claimed property)."""
import json
import os

HERE = os.path.dirname(os.path.dirname(os.path.abspath(__file__)))
BASELINE = ("cd /repo && /venv/bin/python -m pytest -ra -q -p no:cacheprovider --timeout=900 "
            "--continue-on-collection-errors")

# id -> (design section, level text, level note, technique)
CLAIMED = {
    "C07": ("DESIGN.md §5 C07",
            "Exhaustive enumeration of every subset of <= 2 (quick) / <= 3 (thorough) ingredients from a "
            "42-item menu x 9 public compile functions x both UFO libraries, each followed by a second call "
            "on the same objects (thorough: cross-function histories of depth 3); the real compile function "
            "runs in every state and a deep snapshot of all caller-owned objects is compared after every "
            "call, returned or raised.",
            "Trusted: mc/snapshot.py sees every caller-visible attribute; ufoLib2/defcon as containers. "
            "Ingredient interactions of order > 3 and third-party filters are outside the bound.",
            "bounded exhaustive exploration of call histories x ingredient subsets with frame (snapshot) oracle"),
}

CLAIMED["C01"] = (
    "DESIGN.md §5 C01",
    "Every glyph of every packed trie font is a checked state: all component chains of depth <= 3 over a 9 "
    "(quick) / 14 (thorough) transform palette under 7 base shapes in 3 variants, every single and pair of "
    "coordinate deviations from a 12-value palette, and a width palette, x both UFO libraries x roundTolerance "
    "{None,0,0.25,0.5} x cffVersion {1,2}; the reloaded CFF/CFF2 outline and hmtx advance must equal the "
    "independent resolver's result (exact ==, halves up).",
    "Trusted: fontTools CFF reader/charstring interpreter; mc/outline_ref.py. Dyadic coordinates only; closed "
    "contours; no zero-length segments.",
    "bounded exhaustive enumeration of component tries / coordinate deviations against an independent outline resolver")
CLAIMED["C05"] = (
    "DESIGN.md §5 C05",
    "BFS over kerning dictionaries (add-one-entry ops, 56 keys x value palette, depth 2, interacting keys only) x "
    "8 group configurations x 11 environment switches, plus the complete 4-level exception lattice; in every state "
    "the compiled GPOS is evaluated by an independent PairPos interpreter for every ordered pair of a 13-glyph "
    "multi-script repertoire under every selectable script/language and compared with UFO kerning semantics; both "
    "kern writers.",
    "Trusted: mc/otl_ref.py (selftested), mc/kern_ref.py, fontTools.unicodedata. > 2 interacting entries per state "
    "(beyond the lattice) and contextual kerning are outside the bound.",
    "explicit-state BFS over kerning histories with a reference GPOS interpreter as oracle; confluence re-validation")

NOT_APPLICABLE = {}


def main():
    props = [json.loads(l) for l in open(os.path.join(HERE, "properties.jsonl"))]
    checks = []
    na = []
    for p in props:
        pid = p["id"]
        if pid in CLAIMED:
            ref, text, note, tech = CLAIMED[pid]
            checks.append({
                "property_id": pid,
                "quick_cmd": f"./check {pid} --tier quick",
                "thorough_cmd": f"./check {pid} --tier thorough",
                "evidence_file": f"evidence/{pid}.json",
                "replay_cmd_template": f"./check {pid} --replay {{path}}",
                "engine": "mc-explorer",
                "level_claimed": {"category": "model_checking", "text": text, "design_ref": ref},
                "level_note": note,
                "technique": tech,
            })
        else:
            na.append({"property_id": pid,
                       "reason": NOT_APPLICABLE.get(pid, "check not built yet in this round (planned, see DESIGN.md §5); "
                                                    "nothing is claimed for it")})
    doc = {
        "version": 1,
        "setup_cmd": "./check selftest",
        "hooks": {"guard": "UFO2FT_VERIF", "enable": "no hooks are needed: checks import ufo2ft from /repo/Lib "
                  "(working tree) and observe public API results only", "baseline_off_cmd": BASELINE,
                  "source_commits": [], "add_only": True},
        "engines": [{"name": "mc-explorer", "path": "mc/explore.py",
                     "serves_properties": sorted(CLAIMED),
                     "kind_free_text": "hand-written explicit-state / bounded-exhaustive explorer in Python; every "
                     "state executes the real ufo2ft code on freshly built objects and is compared with an "
                     "independent reference model; 16 forked workers"}],
        "checks": checks,
        "notes": "known_findings.json lists genuine defects recorded rather than repaired; see DESIGN.md §7.",
        "not_applicable": na,
    }
    with open(os.path.join(HERE, "MANIFEST.json"), "w") as f:
        json.dump(doc, f, indent=1)
    print(f"claimed {len(checks)}, not claimed {len(na)}")


if __name__ == "__main__":
    main()
