#!/venv/bin/python
"""usage: tools/seed_keep.py <seed dir> <name> "<result line from seeded_eval.sh>" [caught-by ids...]
Copies a confirmed seeded change into /verif/seeded/<name>/ and records what was run."""
import json
import os
import shutil
import sys

src, name, line = sys.argv[1], sys.argv[2], sys.argv[3]
caught = sys.argv[4:]
dst = os.path.join(os.path.dirname(os.path.dirname(os.path.abspath(__file__))), "seeded", name)
os.makedirs(dst, exist_ok=True)
for f in ("patch.diff", "demo.py"):
    if os.path.abspath(src) != os.path.abspath(dst):
        shutil.copy(os.path.join(src, f), os.path.join(dst, f))
meta = json.load(open(os.path.join(src, "meta.json")))
meta["breaks_property"] = meta.get("property")
meta["confirmed"] = {
    "how": "tools/seeded_eval.sh: scratch copy of /repo outside /repo and /verif; demo.py on the clean copy, git apply "
           "patch.diff, full pytest suite, demo.py on the changed copy, then ./check <id> --tier quick with VERIF_REPO "
           "pointing at the changed copy; copy removed afterwards",
    "result": line,
    "caught_by": caught,
}
json.dump(meta, open(os.path.join(dst, "meta.json"), "w"), indent=1)
print("kept", dst)
