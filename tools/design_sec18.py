#!/venv/bin/python
"""Rewrites DESIGN.md section 18 (everything from '## 18.' to the end of the file) from docs/sec18_head.md and
the catch matrix of seeded/*/meta.json (tools/seed_matrix.py --compact)."""
import os
import subprocess

HERE = os.path.dirname(os.path.dirname(os.path.abspath(__file__)))
p = os.path.join(HERE, "DESIGN.md")
s = open(p).read()
i = s.find("\n## 18. ")
if i >= 0:
    s = s[:i]
head = open(os.path.join(HERE, "docs", "sec18_head.md")).read()
matrix = subprocess.check_output([os.path.join(HERE, "tools", "seed_matrix.py"), "--compact"], text=True)
open(p, "w").write(s.rstrip("\n") + "\n" + head + matrix)
print("section 18 written:", matrix.strip().splitlines()[-1])
