#!/bin/bash
# usage: tools/mutant.sh <patch-file | -e 'sed expr' file> -- <check ids...>
# Applies a change to a scratch copy of /repo (outside /repo and /verif), runs the given checks
# against it (VERIF_REPO), prints a one-line verdict per check, removes the copy.
set -u
here="$(cd "$(dirname "$0")/.." && pwd)"
tmp=$(mktemp -d /tmp/mut.XXXXXX)
mkdir -p "$tmp/r"
cp -r /repo/Lib /repo/tests /repo/setup.py /repo/setup.cfg /repo/tox.ini "$tmp/r/" 2>/dev/null
cd "$tmp/r" && git init -q . && git add -A >/dev/null && git -c user.email=a@b -c user.name=x commit -qm base
if [ "$1" = "-e" ]; then
  sed -i "$2" "$tmp/r/$3" ; shift 3
else
  case "$1" in /*) pf="$1";; *) pf="$here/$1";; esac; git apply "$pf" || { echo "patch failed"; rm -rf "$tmp"; exit 2; }; shift
fi
[ "$1" = "--" ] && shift
if git diff --quiet; then echo "MUTANT DID NOT CHANGE ANYTHING"; rm -rf "$tmp"; exit 2; fi
git diff --stat | tail -1
tier="${MUT_TIER:-quick}"
for id in "$@"; do
  if [ "$id" = "tests" ]; then
     (cd "$tmp/r" && PYTHONPATH="$tmp/r/Lib" /venv/bin/python -m pytest -q -p no:cacheprovider -x -n 16 tests 2>&1 | tail -2)
     continue
  fi
  out=$(cd "$here" && MC_EVIDENCE_DIR="$tmp/ev" MC_REPLAY_DIR="$tmp/replays" VERIF_REPO="$tmp/r" ./check "$id" --tier "$tier" 2>&1)
  rc=$?
  nv=$(echo "$out" | grep -c '^VIOLATION')
  echo "$id: exit=$rc violations=$nv $(echo "$out" | grep '^VIOLATION' | head -1)"
  [ -n "${MUT_SHOW:-}" ] && echo "$out" | tail -5
done
rm -rf "$tmp"
