#!/venv/bin/python
"""Merge staged known findings (known_findings.d/<Cxx>.json) into known_findings.json.
usage: tools/merge_findings.py C02 C03 ...   [--fixed KF-id=commit ...]"""
import json
import os
import sys

HERE = os.path.dirname(os.path.dirname(os.path.abspath(__file__)))
main = json.load(open(os.path.join(HERE, "known_findings.json")))
fixed = dict(a.split("=", 1) for a in sys.argv[1:] if "=" in a)
for pid in [a for a in sys.argv[1:] if "=" not in a]:
    p = os.path.join(HERE, "known_findings.d", pid + ".json")
    if not os.path.exists(p):
        continue
    for e in json.load(open(p))["findings"]:
        if e["id"] in fixed:
            main["fixed"].append(f"fixed: property={e['property']} {fixed[e['id']]} {e['id']}: {e['description']}")
        elif e["id"] not in {x["id"] for x in main["findings"]}:
            main["findings"].append(e)
    os.remove(p)
json.dump(main, open(os.path.join(HERE, "known_findings.json"), "w"), indent=1)
print(len(main["findings"]), "findings,", len(main["fixed"]), "fixed")
