#!/bin/bash
# usage: tools/seeded_reeval.sh [-j N] [names...]   re-confirms kept seeded changes (seeded/<name>/) against the CURRENT
# /repo and the CURRENT checks: clean demo, patch applies, repo test-suite (unless SEED_SKIP_TESTS=1), demo fails, checks (the property broken plus
# every check recorded as catching it). Rewrites meta.json "confirmed" for each; prints one line per seed.
cd "$(dirname "$0")/.."
j=2
if [ "${1:-}" = "-j" ]; then j=$2; shift 2; fi
names="$@"; [ -z "$names" ] && names=$(ls seeded)
one() {
  name=$1; d=seeded/$name
  ids=$(/venv/bin/python -c "
import json;m=json.load(open('$d/meta.json'))
ids=[m['property']]+[c for c in m.get('confirmed',{}).get('caught_by',[]) if c!=m['property']]
print(' '.join(ids))")
  line=$(tools/seeded_eval.sh $d $ids 2>&1 | tail -1)
  caught=$(echo "$line" | grep -o 'C[0-9][0-9]:rc=1' | cut -d: -f1 | tr '\n' ' ')
  echo "$name | $line"
  case "$line" in *demo_clean_exit=0*passed*demo_changed_exit=[1-9]*C[0-9][0-9]:rc=1*) tools/seed_keep.py $d $name "$line" $caught >/dev/null;; *) echo "  !! $name NOT RE-CONFIRMED";; esac
}
export -f one
echo $names | tr ' ' '\n' | xargs -P $j -I{} bash -c 'one {}'
