"""C14 — filters touch only what they are asked to and report what they changed.

Seam: every shipped filter class and its interpolatable variant called directly,
`filter(font, glyphSet)` on a copied glyph set (also `filter(font)` in place) and
`ifilter(fonts, glyphSets)` on lists of masters.  The separate glyph set is given in both documented
forms: a `_GlyphSet` (mode "copy": carries its own copy of the layer lib and a name) and a plain
`dict` of copied glyphs (mode "dict": no `.lib`, no `.name`).

State = (filter configuration, include/exclude specification, call mode).  In every state ALL
histories of <= k invocations of ONE filter object over three small sibling fonts (for the
interpolatable variants: three master lists) are executed on freshly built fonts, and compared
with a fresh filter object per font.  Four oracle clauses (DESIGN section 5, C14):

 (1) frame     a glyph present before and after the call that is neither included nor a transitive
               component base of an included glyph is snapshot-equal;
 (2) report    every glyph whose contours, components, anchors, width or height changed, or that
               appeared / disappeared, is in the returned set;
 (3) source    with a separate glyph set the deep snapshot of the source font is unchanged; in mode
               "dict" additionally a second run (fresh filter object, fresh glyph copies) on the SAME
               font object gives the outcome of the first (anything the first run left behind in the
               font, visible to the snapshot or not, would show here);
 (4) history   outcome (exception type / returned set / resulting glyph set) of every invocation in
               every history equals that of a fresh filter object on the same font; for the
               interpolatable variants additionally the per-master result does not depend on the
               order in which the masters are listed.
"""

from __future__ import annotations

import itertools
import os

from mc import snapshot as S
from mc import ufo_build as B
from mc.explore import Property, Result, digest, jdump, violation

NAMES = ["a", "acutecomb", "aacute", "nested", "mixed", "space"]
F = "com.github.googlei18n.ufo2ft."
CATS = {"a": "base", "acutecomb": "mark", "aacute": "base"}

FEA_GDEF = "table GDEF { GlyphClassDef [a aacute], , [acutecomb], ; } GDEF;\n"


def font_spec(k: int) -> dict:
    """Sibling k of the 6-glyph family: simple, cubic (two overlapping contours, a mark), composite,
    nested composite, mixed, empty; anchors and categories.  Sibling 1 moves coordinates, gives a
    component a 2x2 and keeps its colour mapping on a glyph; sibling 2 un-nests `nested`, drops the
    component of `mixed`, has no colour information at all and carries a seventh glyph, uni25CC."""
    if k == 3:
        # sibling 0 as a font whose colour layers were "exploded" before: it carries the explicit
        # colorLayers key (only the colour-layer filter is given this sibling)
        spec = font_spec(0)
        spec["lib"][F + "colorLayers"] = {"a": [("a", 0), ("acutecomb", 1)]}
        return spec
    d = 10 * k
    tri = [[(0, 0, "line"), (100.5 + d, 0, "line"), (40, 80.5 + d, "line")]]
    # two overlapping cubic contours; the first has the larger bounding-box origin (sortContours moves it)
    blobs = [[(40, 620, "line"), (60, 600, None), (90.5 + d, 600, None), (110, 620, "curve"),
              (120, 660, None), (80, 700.5, None), (40, 670, "curve")],
             [(0, 600, "line"), (30, 590, None), (60, 590, None), (80, 600 + d, "curve"),
              (80, 650, "line"), (0, 650, "line")]]
    glyphs = {
        "a": {"width": 500 + d, "unicodes": [0x61], "contours": tri,
              "anchors": [("top", 50 + d, 90.5), ("bottom", 50, -10)]},
        "acutecomb": {"width": 0, "unicodes": [0x301], "contours": blobs,
                      "anchors": [("_top", 40, 600), ("top", 45.5, 710 + d)]},
        "aacute": {"width": 500 + d, "unicodes": [0xE1],
                   "components": [("a", (1, 0, 0, 1, 0, 0)),
                                  ("acutecomb", (1, 0, 0, 1, 30.5 + d, 100) if k != 1
                                   else (0.5, 0, 0, 0.5, 30.5, 100))]},
        "nested": {"width": 530, "height": 12,
                   "components": [("aacute", (-1, 0, 0, 1, 300 + d, 0)), ("acutecomb", (0.5, 0, 0, 0.5, 0, 100 + d))]
                   if k != 2 else [("a", (-1, 0, 0, 1, 300, 0)), ("acutecomb", (1, 0, 0, 1, 7, 100.5))]},
        "mixed": {"width": 540.5, "contours": [B.box(0, 0, 50, 50 + d)],
                  "components": [("a", (1, 0, 0, 1, 100, 0))] if k != 2 else [],
                  "anchors": [("top", 10, 20.5)]},
        "space": {"width": 250 + d, "unicodes": [0x20]},
    }
    if k == 2:
        # only this sibling already has a dotted circle (without anchors): DottedCircleFilter then edits
        # an existing glyph instead of adding one
        glyphs["uni25CC"] = {"width": 600, "unicodes": [0x25CC], "contours": [B.box(100, 100, 500, 500)]}
    spec = {"glyphs": glyphs, "order": list(glyphs), "lib": {"public.openTypeCategories": dict(CATS)},
            # the siblings differ in the vertical metrics that TransformationsFilter's Origin option reads
            "info": {"styleName": ["Regular", "Bold", "Light"][k], "xHeight": 500 + 20 * k,
                     "capHeight": 700 + 30 * k}, "layers": {}}
    if k == 0:
        spec["lib"][F + "colorPalettes"] = [[(1, 0.3, 0.1, 1), (0, 0.4, 0.8, 1)]]
        spec["lib"][F + "colorLayerMapping"] = [("color1", 0)]
        spec["layers"]["color1"] = {"glyphs": {
            "a": {"width": 500, "unicodes": [0x61], "contours": [B.box(0, 0, 30, 30)]},
            "aacute": {"width": 500, "unicodes": [0xE1], "components": [("a", (1, 0, 0, 1, 5, 5.5))]}}}
    elif k == 1:
        spec["lib"][F + "colorPalettes"] = [[(1, 0.3, 0.1, 1), (0, 0.4, 0.8, 1)]]
        glyphs["acutecomb"]["lib"] = {F + "colorLayerMapping": [("colorB", 1)]}
        spec["layers"]["colorB"] = {"glyphs": {
            "acutecomb": {"width": 0, "unicodes": [0x301], "contours": [B.box(0, 600, 30, 630)]}}}
        spec["features"] = FEA_GDEF
    return spec


# targets of an invocation: plain filters take one font, interpolatable ones a list of masters
PLAIN_TARGETS = [[0], [1], [2]]
INTERP_TARGETS = [[0, 1, 2], [2, 0], [1, 2]]

# (config name, class base name, interpolatable, args, kwargs)
CONFIGS = [
    ("CubicToQuadratic", "CubicToQuadratic", 0, [], {}),
    ("CubicToQuadratic(noreverse,err)", "CubicToQuadratic", 0, [], {"reverseDirection": False,
                                                                  "conversionError": 0.005}),
    ("CubicToQuadratic(remember)", "CubicToQuadratic", 0, [], {"rememberCurveType": True}),
    ("DecomposeComponents", "DecomposeComponents", 0, [], {}),
    ("DecomposeComponentsI", "DecomposeComponents", 1, [], {}),
    ("DecomposeTransformedComponents", "DecomposeTransformedComponents", 0, [], {}),
    ("DecomposeTransformedComponentsI", "DecomposeTransformedComponents", 1, [], {}),
    ("DottedCircle", "DottedCircle", 0, [], {}),
    ("DottedCircle(4dots)", "DottedCircle", 0, [], {"margin": 40, "sidebearing": 0, "dots": 4}),
    ("ExplodeColorLayerGlyphs", "ExplodeColorLayerGlyphs", 0, [], {}),
    ("FlattenComponents", "FlattenComponents", 0, [], {}),
    ("FlattenComponentsI", "FlattenComponents", 1, [], {}),
    ("PropagateAnchors", "PropagateAnchors", 0, [], {}),
    ("PropagateAnchorsI", "PropagateAnchors", 1, [], {}),
    ("RemoveOverlaps", "RemoveOverlaps", 0, [], {}),
    ("RemoveOverlaps(pathops)", "RemoveOverlaps", 0, [], {"backend": "pathops"}),
    ("ReverseContourDirection", "ReverseContourDirection", 0, [], {}),
    ("SkipExportGlyphs([])", "SkipExportGlyphs", 0, [[]], {}),
    ("SkipExportGlyphs([a])", "SkipExportGlyphs", 0, [["a"]], {}),
    ("SkipExportGlyphs([acutecomb,space])", "SkipExportGlyphs", 0, [["acutecomb", "space"]], {}),
    ("SkipExportGlyphs([aacute])", "SkipExportGlyphs", 0, [["aacute"]], {}),
    ("SkipExportGlyphs([nosuch])", "SkipExportGlyphs", 0, [["nosuch"]], {}),
    ("SkipExportGlyphsI([])", "SkipExportGlyphs", 1, [[]], {}),
    ("SkipExportGlyphsI([a])", "SkipExportGlyphs", 1, [["a"]], {}),
    ("SkipExportGlyphsI([acutecomb,space])", "SkipExportGlyphs", 1, [["acutecomb", "space"]], {}),
    ("SkipExportGlyphsI([aacute])", "SkipExportGlyphs", 1, [["aacute"]], {}),
    ("SkipExportGlyphsI([nosuch])", "SkipExportGlyphs", 1, [["nosuch"]], {}),
    ("SortContours", "SortContours", 0, [], {}),
    ("Transformations(identity)", "Transformations", 0, [], {}),
    ("Transformations(offset)", "Transformations", 0, [], {"OffsetX": 10, "OffsetY": -5}),
    ("Transformations(scale,slant)", "Transformations", 0, [], {"ScaleX": 50, "Slant": 15, "Origin": 2}),
]
CONFIG = {c[0]: c for c in CONFIGS}

PREDICATES = {
    "composites": lambda g: bool(g.components),
    "has-contours": lambda g: len(g) > 0,
    "name-a*": lambda g: g.name.startswith("a"),
}


def all_specs():
    out = [["none"]]
    for kind in ("include", "exclude"):
        for k in range(len(NAMES) + 1):
            for sub in itertools.combinations(NAMES, k):
                out.append([kind, list(sub)])
    for p in PREDICATES:
        out.append(["predicate", p])
    return out


def small_specs():
    out = [["none"]] + [["predicate", p] for p in PREDICATES]
    for n in NAMES:
        out.append(["include", [n]])
        out.append(["exclude", [n]])
    return out


def tiny_specs():
    """One specification of every kind (call mode "dict" in the quick tier)."""
    return [["none"], ["predicate", "has-contours"], ["include", ["a"]], ["exclude", ["acutecomb"]]]


def medium_specs():
    """none, predicates, and the include / exclude lists with <= 1 or >= 5 of the six names."""
    return [sp for sp in all_specs() if sp[0] in ("none", "predicate") or len(sp[1]) <= 1 or len(sp[1]) >= 5]


def spec_kwargs(spec):
    if spec[0] == "none":
        return {}
    if spec[0] == "predicate":
        return {"include": PREDICATES[spec[1]]}
    return {spec[0]: list(spec[1])}


def spec_included(spec, glyph_objs):
    """Names the specification includes, evaluated independently of BaseFilter on the glyph objects
    as they are before the call (for master lists: included when included in any master)."""
    names = set()
    for gs in glyph_objs:
        for n, g in gs.items():
            if spec[0] == "none":
                ok = True
            elif spec[0] == "include":
                ok = n in spec[1]
            elif spec[0] == "exclude":
                ok = n not in spec[1]
            else:
                ok = bool(PREDICATES[spec[1]](g))
            if ok:
                names.add(n)
    return names


def make_filter(cfg, spec):
    import ufo2ft.filters as FL
    _, base, interp, args, kwargs = CONFIG[cfg]
    cls = getattr(FL, base + ("IFilter" if interp else "Filter"))
    return cls(*[list(a) for a in args], **dict(kwargs), **spec_kwargs(spec))


# ------------------------------------------------------------------------------------------
# observations

def untag(v):
    """snapshot values with the int/float tags removed (500 and 500.0 are the same metric)."""
    if isinstance(v, tuple) and len(v) == 2 and v[0] in ("i", "f") and isinstance(v[1], (int, float)):
        return float(v[1])
    if isinstance(v, (list, tuple)):
        return tuple(untag(x) for x in v)
    if isinstance(v, dict):
        return {k: untag(x) for k, x in v.items()}
    return v


def glyph_obs(g):
    return untag(S.glyph_snapshot(g, full=False))


def geometry(obs):
    """What clause (2) calls outline, components, anchors or metrics."""
    return {k: obs[k] for k in ("contours", "components", "anchors", "width", "height")}


def bases_closure(before_list, names):
    """Transitive component bases (in any master) of the given names."""
    out, todo = set(), list(names)
    while todo:
        n = todo.pop()
        for bef in before_list:
            g = bef.get(n)
            if g is None:
                continue
            for comp in g["components"]:
                bname = comp[0]
                if bname not in out:
                    out.add(bname)
                    todo.append(bname)
    return out


class Invocation:
    """One call of a filter object on freshly built fonts."""
    __slots__ = ("exc", "ret", "before", "after", "font_diff", "included", "message", "fonts")


SEPARATE = ("copy", "dict")      # call modes that hand the filter a separate glyph set


def shift_base(views):
    """Edits the separate glyph sets only: the base glyph 'a' is moved and widened (the font objects
    stay as they are), so that a second call sees other glyph data than the first one did."""
    for v in views:
        if "a" in v:
            v["a"].move((64, 0))
            v["a"].width = v["a"].width + 32


def invoke(filt, cfg, spec, target, mode, module, fonts=None, edit=None):
    """`fonts`: run on these font objects (a second run on the same fonts) instead of fresh ones.
    `edit`: applied to the separate glyph sets before the call."""
    from ufo2ft.util import _GlyphSet
    interp = CONFIG[cfg][2]
    if fonts is None:
        fonts = [B.build_font(font_spec(k), module) for k in target]
    inv = Invocation()
    inv.fonts = fonts if mode == "dict" else None
    if mode in SEPARATE:
        font_before = [S.font_snapshot(f) for f in fonts]
        gss = [_GlyphSet.from_layer(f, copy=True) for f in fonts]
        if mode == "dict":
            # the same copies in a plain dict: no .lib / .name attributes, not a _GlyphSet
            gss = [dict(gs) for gs in gss]
            assert all(type(gs) is dict and not hasattr(gs, "lib") for gs in gss)
        views = gss
        if edit is not None:
            edit(views)
    else:
        gss = None
        views = [f.layers.defaultLayer for f in fonts]
    inv.before = [{n: glyph_obs(v[n]) for n in v.keys()} for v in views]
    inv.included = spec_included(spec, [{n: v[n] for n in v.keys()} for v in views])
    inv.exc, inv.ret, inv.message = None, None, ""
    try:
        if interp:
            r = filt(fonts, gss) if mode in SEPARATE else filt(fonts)
        else:
            r = filt(fonts[0], gss[0]) if mode in SEPARATE else filt(fonts[0])
        inv.ret = sorted(r) if r is not None else None
    except Exception as e:  # classified by the caller
        inv.exc = type(e).__name__
        inv.message = str(e)[:200]
    inv.after = [{n: glyph_obs(v[n]) for n in v.keys()} for v in views]
    inv.font_diff = []
    if mode in SEPARATE:
        for k, f, snap in zip(target, fonts, font_before):
            now = S.font_snapshot(f)
            if now != snap:
                inv.font_diff += [(k,) + d for d in S.diff(snap, now, limit=40)]
    return inv


def record(inv):
    return (inv.exc, inv.ret, inv.after)


def _where(path):
    """Normalised location of a source-font difference (layer / glyph / lib key; indices dropped)."""
    parts = [p.split("[")[0] for p in path.split("/") if p]
    keep = []
    for i, p in enumerate(parts):
        keep.append(p)
        if p in ("info", "kerning", "groups", "features", "contours", "components", "anchors",
                 "unicodes", "width", "height"):
            break
        if p == "lib":
            if i + 1 < len(parts):
                keep.append(parts[i + 1])
            break
        if len(keep) >= 6:
            break
    return "/".join(keep)


class Viols(list):
    """Capped per signature so that a recorded finding never crowds out a different violation."""
    PER_SIG, TOTAL = 1, 80

    def add(self, v):
        sig = (v["kind"], repr(sorted(v["features"].items())))
        n = sum(1 for x in self if (x["kind"], repr(sorted(x["features"].items()))) == sig)
        if n < self.PER_SIG and len(self) < self.TOTAL:
            self.append(v)


def check_single(inv, cfg, spec, target, mode, viols, ctrs):
    """Clauses (1)-(3) on one invocation of a fresh filter object."""
    feat = {"filter": cfg}
    detail = {"spec": spec, "target": target, "mode": mode}
    if inv.exc is not None:
        viols.add(violation("filter-raised", dict(feat, exc=inv.exc), message=inv.message, **detail))
        ctrs["raised"] += 1
        return
    ret = set(inv.ret or ())
    if inv.ret is None:
        viols.add(violation("returned-none", dict(feat), **detail))
    allowed = inv.included | bases_closure(inv.before, inv.included)
    changed_any = set()
    for mi, (bef, aft) in enumerate(zip(inv.before, inv.after)):
        for n in sorted(set(bef) | set(aft)):
            if n in bef and n in aft:
                if bef[n] != aft[n]:
                    ctrs["glyphs_changed"] += 1
                    if n not in allowed:
                        viols.add(violation("untouched-glyph-changed", dict(feat, glyph=n), master=target[mi],
                                            included=sorted(inv.included), before=bef[n], after=aft[n],
                                            **detail))
                    else:
                        ctrs["changed_as_base_only"] += n not in inv.included
                elif n not in allowed:
                    ctrs["excluded_glyph_intact"] += 1
                if geometry(bef[n]) != geometry(aft[n]):
                    changed_any.add((n, "changed"))
            elif n in bef:
                ctrs["glyphs_removed"] += 1
                changed_any.add((n, "removed"))
            else:
                ctrs["glyphs_added"] += 1
                changed_any.add((n, "added"))
    for n, what in sorted(changed_any):
        if n in ret:
            ctrs["reported_" + what] += 1
        else:
            viols.add(violation("unreported-" + what, dict(feat, glyph=n), returned=sorted(ret), **detail))
    ctrs["over_reported"] += len(ret - {n for n, _ in changed_any})
    if mode in SEPARATE:
        ctrs["source_frames_checked"] += 1
        ctrs["source_frames_checked_plain_dict"] += mode == "dict"
        seen = set()
        for k, path, x, y in inv.font_diff:
            w = _where(path)
            if w in seen:
                continue
            seen.add(w)
            viols.add(violation("source-font-modified", dict(feat, where=w), master=k, path=path,
                                before=x, after=y, **detail))


def histories(n_targets, depth):
    out = []
    for k in range(1, depth + 1):
        out += [list(t) for t in itertools.product(range(n_targets), repeat=k)]
    return out


class C14(Property):
    id = "C14"
    rule = ("state = (filter configuration, include/exclude specification, call mode, UFO library); "
            "case-state = one invocation inside one history of <= k invocations of one filter object over "
            "the three sibling fonts / master lists; non-trivial = the invocation changed, added or "
            "removed at least one glyph, or the specification excludes at least one glyph")
    assumptions = [
        "glyph comparison is mc/snapshot.glyph_snapshot(full=False) with int/float tags removed: "
        "contours (points, types, smooth), components, anchors, width, height, unicodes; component / "
        "contour identifiers, glyph lib, guidelines, image, note are not compared (soundness rule 2)",
        "every invocation gets freshly built fonts, so the filter object is the only possible carrier "
        "of state between invocations",
        "interpolatable variants are called without an Instantiator; the siblings share categories and "
        "the composite-ness of every component base, so the order of the master list is immaterial",
        "a predicate include is evaluated by the oracle on the glyphs as they are before the call",
    ]
    trusted_base = ["ufoLib2/defcon as containers", "mc/snapshot.py", "ufo2ft.util._GlyphSet.from_layer(copy=True)"
                    " (mode dict: the same copies moved into a plain dict)"]

    def bounds(self, tier):
        b = ({"depth": 0, "history_depth": 2, "defcon": "small"} if tier == "quick"
             else {"depth": 0, "history_depth": 3, "defcon": "medium"})
        if os.environ.get("C14_ONLY"):
            b["only"] = os.environ["C14_ONLY"]
        return b

    def initial(self, b):
        out = []
        small = small_specs()
        other = small if b["defcon"] == "small" else medium_specs()   # quick / thorough
        for cfg in CONFIG:
            for spec in all_specs():
                out.append([{"filter": cfg, "spec": spec, "mode": "copy", "module": "ufoLib2"}])
            for spec in other:
                out.append([{"filter": cfg, "spec": spec, "mode": "inplace", "module": "ufoLib2"}])
                out.append([{"filter": cfg, "spec": spec, "mode": "inplace", "module": "defcon"}])
                out.append([{"filter": cfg, "spec": spec, "mode": "copy", "module": "defcon"}])
            # the separate glyph set as a plain dict of copied glyphs
            for spec in (tiny_specs() if b["defcon"] == "small" else small):
                out.append([{"filter": cfg, "spec": spec, "mode": "dict", "module": "ufoLib2"}])
                out.append([{"filter": cfg, "spec": spec, "mode": "dict", "module": "defcon"}])
        only = b.get("only")
        if only:  # developer aid (mutant triage): restrict to states whose description matches
            import re
            out = [h for h in out if re.search(only, jdump(h))]
        return out

    def run(self, h, b):
        c = h[0]
        cfg, spec, mode, module = c["filter"], c["spec"], c["mode"], c["module"]
        interp = CONFIG[cfg][2]
        targets = INTERP_TARGETS if interp else PLAIN_TARGETS
        if CONFIG[cfg][1] == "ExplodeColorLayerGlyphs":
            targets = PLAIN_TARGETS + [[3]]
        viols = Viols()
        ctrs = {k: 0 for k in ("invocations", "histories", "raised", "glyphs_changed", "glyphs_added",
                               "glyphs_removed", "reported_changed", "reported_added", "reported_removed",
                               "over_reported", "excluded_glyph_intact", "changed_as_base_only",
                               "source_frames_checked", "source_frames_checked_plain_dict",
                               "same_font_rerun_compared", "reuse_compared", "order_compared",
                               "structurally_different_master_lists")}
        # fresh filter object per target: clauses (1)-(3), and the baseline of clause (4)
        fresh = []
        for t in targets:
            inv = invoke(make_filter(cfg, spec), cfg, spec, t, mode, module)
            ctrs["invocations"] += 1
            check_single(inv, cfg, spec, t, mode, viols, ctrs)
            fresh.append(inv)
            # clause (3), second half: run again on the SAME font object(s).  Only when the snapshot of
            # the source is unchanged; otherwise source-font-modified above is the report and a
            # differing second run is its consequence.
            if mode == "dict" and inv.exc is None and not inv.font_diff:
                again = invoke(make_filter(cfg, spec), cfg, spec, t, mode, module, fonts=inv.fonts)
                ctrs["invocations"] += 1
                ctrs["same_font_rerun_compared"] += 1
                if record(again) != record(inv) or again.font_diff:
                    what = ("exception" if again.exc != inv.exc else
                            "returned-set" if again.ret != inv.ret else
                            "glyphs" if again.after != inv.after else "source-font")
                    viols.add(violation(
                        "rerun-on-same-font-differs", {"filter": cfg, "what": what},
                        target=t, spec=spec, mode=mode,
                        first={"exc": inv.exc, "returned": inv.ret},
                        second={"exc": again.exc, "returned": again.ret, "message": again.message},
                        glyph_diff=S.diff(inv.after, again.after, limit=6),
                        font_diff=[list(d[:2]) for d in again.font_diff[:4]]))
            inv.fonts = None
        nontrivial = sum(1 for inv in fresh if inv.before != inv.after or spec[0] != "none")
        nsub = len(targets)
        # clause (4a): every history of <= k invocations of ONE filter object
        for hist in histories(len(targets), b["history_depth"]):
            filt = make_filter(cfg, spec)
            ctrs["histories"] += 1
            for step, ti in enumerate(hist):
                inv = invoke(filt, cfg, spec, targets[ti], mode, module)
                ctrs["invocations"] += 1
                ctrs["reuse_compared"] += 1
                nsub += 1
                if record(inv) != record(fresh[ti]):
                    what = ("exception" if inv.exc != fresh[ti].exc else
                            "returned-set" if inv.ret != fresh[ti].ret else "glyphs")
                    viols.add(violation(
                        "history-dependent", {"filter": cfg, "what": what},
                        history=[targets[i] for i in hist[:step + 1]], spec=spec, mode=mode,
                        fresh={"exc": fresh[ti].exc, "returned": fresh[ti].ret},
                        reused={"exc": inv.exc, "returned": inv.ret},
                        glyph_diff=S.diff(fresh[ti].after, inv.after, limit=6)))
                    break
        # clause (4c): ONE filter object called twice with the SAME font object(s) but other glyph sets
        # (what a build tool does that compiles one UFO to several formats with one filter list)
        if mode in SEPARATE:
            for t, inv0 in zip(targets, fresh):
                if inv0.exc is not None or inv0.font_diff:
                    continue
                fonts = [B.build_font(font_spec(k), module) for k in t]
                filt = make_filter(cfg, spec)
                first = invoke(filt, cfg, spec, t, mode, module, fonts=fonts)
                if first.exc is not None or first.font_diff:
                    continue
                second = invoke(filt, cfg, spec, t, mode, module, fonts=fonts, edit=shift_base)
                ref = invoke(make_filter(cfg, spec), cfg, spec, t, mode, module, edit=shift_base)
                ctrs["invocations"] += 3
                ctrs["same_font_other_glyphset_compared"] = ctrs.get("same_font_other_glyphset_compared", 0) + 1
                nsub += 1
                if record(second) != record(ref):
                    what = ("exception" if second.exc != ref.exc else
                            "returned-set" if second.ret != ref.ret else "glyphs")
                    viols.add(violation(
                        "history-dependent", {"filter": cfg, "what": what, "same_font": True},
                        target=t, spec=spec, mode=mode, fresh={"exc": ref.exc, "returned": ref.ret},
                        reused={"exc": second.exc, "returned": second.ret, "message": second.message},
                        glyph_diff=S.diff(ref.after, second.after, limit=6)))
        # clause (4b): the order of the master list does not matter
        if interp:
            for t, inv in zip(targets, fresh):
                if len(t) < 2:
                    continue
                rt = list(reversed(t))
                rinv = invoke(make_filter(cfg, spec), cfg, spec, rt, mode, module)
                ctrs["invocations"] += 1
                ctrs["order_compared"] += 1
                nsub += 1
                if any(inv.before[i]["nested"]["components"][0][0]
                       != inv.before[0]["nested"]["components"][0][0] for i in range(len(t))):
                    ctrs["structurally_different_master_lists"] += 1
                a = (inv.exc, inv.ret, {k: x for k, x in zip(t, inv.after)})
                bb = (rinv.exc, rinv.ret, {k: x for k, x in zip(rt, rinv.after)})
                if a != bb:
                    what = ("exception" if a[0] != bb[0] else "glyphs" if a[2] != bb[2] else "returned-set")
                    differing = sorted({n for k in t for n in set(a[2][k]) | set(bb[2][k])
                                        if a[2][k].get(n) != bb[2][k].get(n)})
                    viols.add(violation(
                        "master-order-dependent",
                        {"filter": cfg, "what": what, "glyphs": differing[:4]}, masters=t, spec=spec, mode=mode,
                        forward={"exc": inv.exc, "returned": inv.ret},
                        reverse={"exc": rinv.exc, "returned": rinv.ret},
                        glyph_diff=S.diff(a[2], bb[2], limit=6)))
        sig = [(inv.exc, inv.ret, digest(repr(inv.after))) for inv in fresh]
        return Result(list(viols), ctrs, digest(sig), substates=nsub, nontrivial=nontrivial)


    NON_VACUITY = ["glyphs_changed", "glyphs_added", "glyphs_removed", "reported_changed", "reported_added",
                   "reported_removed", "excluded_glyph_intact", "changed_as_base_only", "source_frames_checked",
                   "source_frames_checked_plain_dict", "same_font_rerun_compared",
                   "reuse_compared", "order_compared", "structurally_different_master_lists"]

    def finish(self, b, summary):
        if b.get("only"):
            return []
        missing = [k for k in self.NON_VACUITY if not summary["counters"].get(k)]
        return [violation("vacuous-exploration", {"counter": k}) for k in missing]


PROPERTY = C14()
