"""C17 — automatic features only add to the user's feature file.

BFS "append one top-level statement" over a palette of feature-file building blocks (language
systems, class / lookup definitions, a GSUB feature, hand-written kern/dist/mark/mkmk/curs blocks in
six marker shapes, a GDEF table, a comment).  In every state the font (Latin + Devanagari kerning,
mark and cursive anchors) is compiled with the real feature compiler and the emitted feature
source is parsed back with feaLib and compared with the user's text:

 * the user's statements (feature blocks flattened one level, comments dropped) are an in-order
   subsequence of the emitted statements;
 * a hand-written GPOS feature without marker has exactly the user's rules (not overwritten, not
   duplicated); with a marker the generated rules sit between the rules before and after it;
 * GSUB bytes are identical with featureWriters=None and [];
 * a custom GSUB writer's substitution is seen by the kern writer wherever it is in the list.
"""

from __future__ import annotations

import io
import itertools

from mc import otl_ref as O
from mc import ufo_build as B
from mc.explore import Property, Result, digest, jdump, violation

MARKER = "# Automatic Code"
GPOS_TAGS = ["kern", "dist", "mark", "mkmk", "curs", "abvm", "blwm"]
RULE = {  # two distinct hand-written rules per tag (values never produced by the writers)
    "kern": ("pos a b -11;", "pos b a -12;"),
    "dist": ("pos ka-deva ta-deva -13;", "pos ta-deva ka-deva -14;"),
    "mark": ("pos a 15;", "pos b 16;"),
    "mkmk": ("pos acutecomb 17;", "pos f_i 18;"),
    "curs": ("pos a 19;", "pos b 21;"),
    "abvm": ("pos ka-deva 22;", "pos ta-deva 23;"),
    "blwm": ("pos ka-deva 24;", "pos ta-deva 25;"),
}
SHAPES = ["plain", "alone", "top", "middle", "bottom", "miscased", "commented", "prose"]
GEN_TAGS = ("kern", "dist", "mark", "mkmk", "abvm", "blwm", "curs")


def block(tag, shape):
    r1, r2 = RULE[tag]
    body = {
        "plain": f"    {r1}\n",
        "alone": f"    {MARKER}\n",
        "top": f"    {MARKER}\n    {r1}\n",
        "middle": f"    {r1}\n    {MARKER}\n    {r2}\n",
        "bottom": f"    {r1}\n    {MARKER}\n",
        "miscased": f"    {r1}\n    # automatic code\n",
        # comments that merely mention the marker are not markers
        "commented": f"    {r1}\n    ## Automatic Code\n",
        "prose": f"    {r1}\n    # hand-tuned, do not re-enable the # Automatic Code marker\n    {r2}\n",
    }[shape]
    return f"feature {tag} {{\n{body}}} {tag};\n"


PALETTE = {
    "cls": "@myclass = [a b];\n",
    "lkp": "lookup mylookup {\n    sub a by b;\n} mylookup;\n",
    "liga": "feature liga {\n    sub a b by f_i;\n} liga;\n",
    "gdef": "table GDEF {\n    GlyphClassDef [a b ka-deva ta-deva a.alt], [f_i], [acutecomb anusvara-deva nukta-deva], ;\n} GDEF;\n",
    "gdef-caretpos": "table GDEF {\n    LigatureCaretByPos f_i 123;\n} GDEF;\n",
    "gdef-caretidx": "table GDEF {\n    LigatureCaretByIndex f_i 1;\n} GDEF;\n",
    "comment": "# a top-level comment\n",
}
for _t in GPOS_TAGS:
    for _s in SHAPES:
        PALETTE[f"{_t}:{_s}"] = block(_t, _s)
LS = {"none": "", "dflt": "languagesystem DFLT dflt;\n",
      "dflt+latn": "languagesystem DFLT dflt;\nlanguagesystem latn dflt;\n"}

WRITER_LISTS = ["default", "lib", "kern-only", "ellipsis+custom", "perm0", "perm1", "perm2", "perm3",
                "perm4", "perm5",
                # the same three writers named in the UFO lib (the custom GSUB writer by module path), read
                # with featureWriters=None ("libperm") or through the ellipsis placeholder ("libell")
                "libperm0", "libperm1", "libperm2", "libperm3", "libperm4", "libperm5",
                "libell0", "libell1", "libell2", "libell3", "libell4", "libell5"]


def make_spec(ls, ops, lib_writers=False, lib_mode="skip"):
    glyphs = {".notdef": {"width": 500, "contours": [B.box(50, 0, 450, 700)]}}
    for n, uv in (("a", 0x61), ("b", 0x62), ("a.alt", None), ("f_i", None), ("ka-deva", 0x915),
                  ("ta-deva", 0x924), ("acutecomb", 0x301), ("anusvara-deva", 0x902), ("nukta-deva", 0x93C)):
        g = {"width": 0 if n in ("acutecomb", "anusvara-deva", "nukta-deva") else 500,
             "contours": [B.box(10, 0, 90, 100)], "anchors": []}
        if uv:
            g["unicodes"] = [uv]
        glyphs[n] = g
    glyphs["a"]["anchors"] = [("top", 250, 600), ("entry", 0, 0), ("exit", 500, 0)]
    glyphs["b"]["anchors"] = [("top", 260, 610), ("entry", 0, 10), ("exit", 500, 10)]
    glyphs["acutecomb"]["anchors"] = [("_top", 0, 550), ("top", 0, 700)]
    # Devanagari marks: the mark writer then also generates abvm and blwm (several dependent features)
    glyphs["ka-deva"]["anchors"] = [("top", 300, 650), ("bottom", 300, -20)]
    glyphs["anusvara-deva"]["anchors"] = [("_top", 0, 600)]
    glyphs["nukta-deva"]["anchors"] = [("_bottom", 0, 0)]
    glyphs["f_i"]["anchors"] = [("caret_1", 250, 0)]
    spec = {"glyphs": glyphs, "order": list(glyphs),
            "kerning": [("a", "b", -40), ("a.alt", "a.alt", -30), ("ka-deva", "ta-deva", -50)],
            "features": LS[ls] + "".join(PALETTE[o] for o in ops),
            "lib": {"public.openTypeCategories": {"a": "base", "b": "base", "f_i": "ligature", "acutecomb": "mark",
                                                  "anusvara-deva": "mark", "nukta-deva": "mark",
                                                  "ka-deva": "base", "ta-deva": "base", "a.alt": "base"}}}
    if isinstance(lib_writers, (list, tuple)):
        entry = {"C": {"module": "props.gsub_writer_c17", "class": "CustomGSUBWriter"},
                 "K": {"class": "KernFeatureWriter", "options": {"mode": lib_mode}},
                 "M": {"class": "MarkFeatureWriter", "options": {"mode": lib_mode}}}
        spec["lib"]["com.github.googlei18n.ufo2ft.featureWriters"] = [dict(entry[x]) for x in lib_writers]
    elif lib_writers:
        spec["lib"]["com.github.googlei18n.ufo2ft.featureWriters"] = [
            {"class": "KernFeatureWriter", "options": {"mode": "skip"}},
            {"class": "MarkFeatureWriter"}]
    return spec


def custom_gsub_writer():
    from ufo2ft.featureWriters import BaseFeatureWriter, ast

    class CustomGSUBWriter(BaseFeatureWriter):
        tableTag = "GSUB"
        features = frozenset(["ss01"])

        def _write(self):
            fea = ast.FeatureBlock("ss01")
            fea.statements.append(ast.SingleSubstStatement(
                [ast.GlyphName("a")], [ast.GlyphName("a.alt")], [], [], False))
            self.context.feaFile.statements.append(fea)
            return True

    return CustomGSUBWriter


def writer_list(kind, mode):
    from ufo2ft.featureWriters import (CursFeatureWriter, GdefFeatureWriter, KernFeatureWriter,
                                       MarkFeatureWriter)
    C = custom_gsub_writer()
    if kind in ("default", "lib") or kind.startswith("libperm"):
        return None
    if kind.startswith("libell"):
        return [...]
    if kind == "kern-only":
        return [KernFeatureWriter(mode=mode)]
    if kind == "ellipsis+custom":
        return [..., C]
    perms = list(itertools.permutations(["C", "K", "M"]))
    p = perms[int(kind[4:])]
    mk = {"C": lambda: C(), "K": lambda: KernFeatureWriter(mode=mode), "M": lambda: MarkFeatureWriter(mode=mode)}
    return [mk[x]() for x in p]


def parse(text, glyph_names):
    from fontTools.feaLib.parser import Parser
    return Parser(io.StringIO(text), glyphNames=glyph_names, followIncludes=False).parse()


def flatten(doc):
    """[(scope, canonical text)] — feature blocks flattened one level, comments dropped."""
    from fontTools.feaLib import ast
    out = []
    for st in doc.statements:
        if isinstance(st, ast.Comment):
            continue
        if isinstance(st, (ast.FeatureBlock, ast.TableBlock)):
            scope = st.name if isinstance(st, ast.FeatureBlock) else "table:" + st.name
            for inner in st.statements:
                if isinstance(inner, ast.Comment):
                    continue
                out.append((scope, " ".join(inner.asFea().split())))
        else:
            out.append(("top", " ".join(st.asFea().split())))
    return out


def is_subsequence(small, big):
    it = iter(big)
    return all(any(x == y for y in it) for x in small)


def compile_font(spec, writers="unset", want_fea=True):
    import ufo2ft
    font = B.build_font(spec)
    buf = io.StringIO()
    kw = {}
    if writers != "unset":
        kw["featureWriters"] = writers
    tt = ufo2ft.compileTTF(font, useProductionNames=False, debugFeatureFile=buf, **kw)
    return tt, buf.getvalue()


def table_bytes(tt, tag):
    r = O.reload(tt)
    return r.reader[tag] if tag in r.reader else b""


def user_rules(ops, tag):
    """(before-marker rules, after-marker rules, has_marker) of the FIRST block of `tag` that
    carries a real marker, and the rules of all blocks of the tag."""
    allrules, first = [], None
    for o in ops:
        if ":" not in o:
            continue
        t, s = o.split(":")
        if t != tag:
            continue
        r1, r2 = (" ".join(x.split()) for x in RULE[tag])
        before, after, marker = {
            "plain": ([r1], [], False), "alone": ([], [], True), "top": ([], [r1], True),
            "middle": ([r1], [r2], True), "bottom": ([r1], [], True), "miscased": ([r1], [], False),
            "commented": ([r1], [], False), "prose": ([r1, r2], [], False)}[s]
        if marker and first is None:
            first = (len(allrules) + len(before), )
        allrules += before + after
    return allrules, first


class C17(Property):
    id = "C17"
    rule = ("state = (languagesystem prefix, sequence of <= depth top-level blocks from a 35-block palette); "
            "writer-list / mode variants on the shorter sequences; non-trivial = the user file contains at "
            "least one hand-written GPOS feature block")
    assumptions = [
        "feaLib's parser and asFea() are the canonical form of a statement (whitespace-insensitive)",
        "comments are not statements; the marker comment itself is consumed by design",
        "append mode ignores markers by design (documented); only 'skip' mode is held to the marker clauses",
    ]
    trusted_base = ["fontTools.feaLib parser / asFea", "fontTools binary reader"]

    def bounds(self, tier):
        if tier == "quick":
            return {"depth": 4, "full_depth": 2, "deep_tags": ["kern", "mark", "curs"],
                    "deep_shapes": ["plain", "middle", "alone"], "variants_depth": 1}
        # (a full third level over the 63-block palette would be 750k states: the third level is explored
        #  over the hand-written GPOS blocks only, where blocks interact)
        return {"depth": 4, "full_depth": 2, "deep_tags": GPOS_TAGS,
                "deep_shapes": ["plain", "alone", "top", "middle", "commented"], "variants_depth": 2}

    def initial(self, b):
        out = []
        for ls in LS:
            out.append([{"ls": ls, "writers": "default", "mode": "skip"}])
        for wl in WRITER_LISTS[1:]:
            for mode in ("skip", "append"):
                if wl in ("lib", "ellipsis+custom") and mode == "append":
                    continue
                out.append([{"ls": "dflt+latn", "writers": wl, "mode": mode, "variant": True}])
        return out

    def ops(self, h, b):
        head, ops = h[0], h[1:]
        if head.get("variant"):
            if len(ops) >= b["variants_depth"]:
                return
            for o in PALETTE:
                if o.startswith("gdef") and any(x.startswith("gdef") for x in ops):
                    continue  # one GDEF table block per file
                if o in ("lkp", "gdef") and o in ops:
                    continue  # redefinition is invalid input
                yield o
            return
        if len(ops) < b["full_depth"]:
            for o in PALETTE:
                if o.startswith("gdef") and any(x.startswith("gdef") for x in ops):
                    continue  # one GDEF table block per file
                if o in ("lkp", "gdef") and o in ops:
                    continue  # redefinition is invalid input
                yield o
        elif len(ops) == b["full_depth"]:
            # one level deeper, restricted to hand-written GPOS blocks (where blocks interact)
            if all(":" in o and o.split(":")[0] in b["deep_tags"] and o.split(":")[1] in b["deep_shapes"]
                   for o in ops):
                for t in b["deep_tags"]:
                    for s in b["deep_shapes"]:
                        yield f"{t}:{s}"

    def run(self, h, b):
        head, ops = h[0], h[1:]
        ctr = {"states": 1, "marker_blocks": 0, "protected_blocks": 0, "gsub_identity_checks": 0,
               "writer_order_checks": 0}
        viols = []
        libw = head["writers"] == "lib"
        if head["writers"].startswith(("libperm", "libell")):
            libw = list(itertools.permutations(["C", "K", "M"]))[int(head["writers"][-1])]
        spec = make_spec(head["ls"], ops, lib_writers=libw, lib_mode=head["mode"])
        names = list(spec["glyphs"])
        user_flat = flatten(parse(spec["features"], names))
        writers = writer_list(head["writers"], head["mode"])
        tt, fea = (compile_font(spec) if writers is None else compile_font(spec, writers))
        emitted = flatten(parse(fea, names))
        feat = {"writers": head["writers"], "mode": head["mode"]}
        # (1) user's statements survive, in order
        if not is_subsequence(user_flat, emitted):
            viols.append(violation("user-statement-lost-or-reordered", feat, user=spec["features"],
                                   emitted=fea, user_flat=user_flat, emitted_flat=emitted))
        # (2)/(3) per hand-written GPOS tag
        mark_tags = ["mark", "mkmk", "abvm", "blwm"]
        active = {"default": GPOS_TAGS, "lib": ["kern", "dist"] + mark_tags, "kern-only": ["kern", "dist"],
                  "ellipsis+custom": GPOS_TAGS}.get(head["writers"], ["kern", "dist"] + mark_tags)
        for tag in GPOS_TAGS:
            rules, first = user_rules(ops, tag)
            if not any(o.startswith(tag + ":") for o in ops):
                continue
            got = [t for (sc, t) in emitted if sc == tag]
            if head["mode"] == "append":
                # everything the user wrote is kept (checked by (1)); generated rules are appended
                continue
            if first is None:
                ctr["protected_blocks"] += 1
                if got != rules:
                    viols.append(violation("unmarked-feature-changed", dict(feat, tag=tag), user=spec["features"],
                                           expected=rules, observed=got, emitted=fea))
            else:
                ctr["marker_blocks"] += 1
                k = first[0]
                before, after = rules[:k], rules[k:]
                ok = got[:len(before)] == before and (got[len(got) - len(after):] == after if after else True)
                generated = got[len(before):len(got) - len(after)] if after else got[len(before):]
                if not ok:
                    viols.append(violation("marker-position", dict(feat, tag=tag), user=spec["features"],
                                           before=before, after=after, observed=got, emitted=fea))
                elif tag in active and not generated and tag not in ("abvm", "blwm"):
                    # (abvm/blwm are generated only for Indic scripts the feature file does not rule out
                    #  through its languagesystem statements)
                    viols.append(violation("marker-nothing-generated", dict(feat, tag=tag),
                                           user=spec["features"], emitted=fea))
        # (3b) hand-written GDEF statements are neither overwritten nor duplicated
        for what in ("GlyphClassDef", "LigatureCaret"):
            mine = [t for sc, t in user_flat if sc == "table:GDEF" and t.startswith(what)]
            if mine:
                ctr["protected_blocks"] += 1
                theirs = [t for sc, t in emitted if sc == "table:GDEF" and t.startswith(what)]
                if theirs != mine:
                    viols.append(violation("user-gdef-changed", dict(feat, what=what), user=spec["features"],
                                           expected=mine, observed=theirs, emitted=fea))
        # (3c) the generated blocks keep their relative order whatever marker the user placed
        #      (anchor: "_insert ... dependent features kept in order")
        if head["mode"] == "skip" and head["writers"] == "default" and any(":" in o for o in ops):
            ref_spec = make_spec(head["ls"], [o for o in ops if ":" not in o])
            _, ref_fea = compile_font(ref_spec)
            ref_flat = flatten(parse(ref_fea, names))
            ref_user = flatten(parse(ref_spec["features"], names))

            def gen_order(flat, user):
                pool = list(user)
                order = []
                for item in flat:
                    if item in pool:
                        pool.remove(item)
                        continue
                    if item[0] in GEN_TAGS and item[0] not in order:
                        order.append(item[0])
                return order
            o_ref, o_got = gen_order(ref_flat, ref_user), gen_order(emitted, user_flat)
            # only the blocks of ONE writer have a defined mutual order
            for group in (("kern", "dist"), ("abvm", "blwm", "mark", "mkmk")):
                marked = {o.split(":")[0] for o in ops if ":" in o and o.split(":")[0] in group
                          and o.split(":")[1] in ("alone", "top", "middle", "bottom")}
                if any(":" in o and o.split(":")[0] in group and o.split(":")[1] not in
                       ("alone", "top", "middle", "bottom") for o in ops) and marked:
                    continue  # a protected block of the same writer next to a marker: order is the user's
                if len(marked) > 1:
                    continue  # several markers of one writer: the user's markers dictate the order
                common = [t for t in o_ref if t in o_got and t in group]
                if [t for t in o_got if t in common] != common:
                    viols.append(violation("generated-feature-order", dict(feat, writer=group[0]),
                                           user=spec["features"], expected=o_ref, observed=o_got, emitted=fea))
            ctr["order_checks"] = 1
        # (4) GSUB untouched by the automatic writers
        if head["writers"] == "default":
            ctr["gsub_identity_checks"] = 1
            tt0, _ = compile_font(spec, writers=[])
            if table_bytes(tt, "GSUB") != table_bytes(tt0, "GSUB"):
                viols.append(violation("gsub-changed-by-writers", feat, user=spec["features"]))
        # (5) position independence of a GSUB-producing writer
        if head["writers"].startswith(("perm", "libperm", "libell")):
            ctr["writer_order_checks"] = 1
            if not head["writers"].startswith("perm"):
                ctr["lib_listed_gsub_writer_checks"] = 1
            ref_spec = make_spec(head["ls"], ops)
            ref_spec["features"] += "feature ss01 {\n    sub a by a.alt;\n} ss01;\n"
            from ufo2ft.featureWriters import KernFeatureWriter, MarkFeatureWriter
            perm = list(itertools.permutations(["C", "K", "M"]))[int(head["writers"][-1])]
            mk = {"K": KernFeatureWriter, "M": MarkFeatureWriter}
            ref, _ = compile_font(ref_spec, [mk[x](mode=head["mode"]) for x in perm if x != "C"])
            if table_bytes(tt, "GPOS") != table_bytes(ref, "GPOS"):
                viols.append(violation("gsub-writer-order-matters", feat, user=spec["features"], emitted=fea))
        nontrivial = 1 if any(":" in o for o in ops) else 0
        return Result(viols, ctr, digest([emitted]), substates=1, nontrivial=nontrivial)

    def describe(self, h, b):
        return {"head": h[0], "blocks": h[1:]}


PROPERTY = C17()
