"""C19 — instances equal masters at master locations and the model's blend elsewhere.

State = (family topology, axis map, round_geometry, rule set, scribble mode) + a call history on ONE
`Instantiator`: `generate_instance` requests over the complete location grid (every master location
and every quarter point in between), optionally one `replace_source_layers` call, and -- in scribble
mode -- a step after every request that overwrites every mutable attribute of the returned font.
Every state builds fresh sources, a fresh designspace and a fresh instantiator, replays the
history with the real code and evaluates on the last result:

  * master / blend oracle against mc/var_ref.py (closed forms; VariationModel for master sets
    without one), for outlines, advances, anchors, components, interpolated info, kerning;
  * glyph set, code points, rule swaps (independent swap on plain data), swap involution;
  * history independence: full snapshot == the result of the same request on a fresh instantiator;
  * frame: snapshots of all source fonts, replacement layers and the designspace are unchanged.

A second, small family of states drives `swap_glyph_names` directly on rich ufoLib2 / defcon fonts.
"""

from __future__ import annotations

import copy
import itertools

from mc import snapshot as S
from mc import ufo_build as B
from mc import var_ref as V
from mc.explore import Property, Result, digest, jdump, violation

W, D = "Weight", "Width"

# ---- families ------------------------------------------------------------------------------------
# (d, e) are the per-master deviations of the glyph data; chosen non-collinear / non-bilinear so
# that a wrong blend is visible, and with residues that produce x.25 / x.5 / x.75 on the grid.

TOPOLOGIES = {
    # name: (axes [(name, default)], masters [(design loc, (d, e), role)]); role "default" marks the
    # default source; sources are deliberately not always listed default-first.
    "2m": ([(W, 0)], [({W: 0}, (0, 0), "default"), ({W: 1000}, (10, -6), "last emptyS")]),
    "3mc": ([(W, 500)], [({W: 0}, (10, -6), ""), ({W: 500}, (0, 0), "default"),
                         ({W: 1000}, (30, 9), "last emptyS")]),
    "3mi": ([(W, 0)], [({W: 0}, (0, 0), "default"), ({W: 500}, (10, -6), ""),
                       ({W: 1000}, (30, 9), "last emptyS")]),
    "4c": ([(W, 0), (D, 0)], [({W: 0, D: 0}, (0, 0), "default"), ({W: 1000, D: 0}, (10, -6), "emptyS"),
                              ({W: 0, D: 1000}, (30, 9), ""), ({W: 1000, D: 1000}, (101, -17), "last")]),
    "2s": ([(W, 0)], [({W: 0}, (0, 0), "default"), ({W: 500}, (13, -5), "sparse"),
                      ({W: 1000}, (30, 9), "last emptyS")]),
}
TOPO_NAMES = list(TOPOLOGIES)
GRID = [0, 250, 500, 750, 1000]

# axis maps: user -> design.  The design space is the same with and without the map, only the way
# the design bounds are obtained differs (axis.map_forward of the user-space min/default/max).
AXIS_DEF = {
    W: {"tag": "wght", "nomap": (0, None, 1000), "user": {0: 100, 500: 400, 1000: 900},
        "map": [(100, 0), (400, 500), (900, 1000)]},
    D: {"tag": "wdth", "nomap": (0, None, 1000), "user": {0: 50, 500: 100, 1000: 200},
        "map": [(50, 0), (100, 500), (200, 1000)]},
}

RULESETS = {
    "none": [],
    "one": [{"name": "r1", "conditionSets": [[{"name": W, "minimum": 500, "maximum": 1000}]],
             "subs": [("a", "a.alt"), ("c", "d")]}],
    "chain": [{"name": "r1", "conditionSets": [[{"name": W, "minimum": 250, "maximum": 750}]],
               "subs": [("a", "a.alt")]},
              {"name": "r2", "conditionSets": [[{"name": W, "minimum": 500, "maximum": 1000}]],
               "subs": [("a.alt", "b")]}],
    "self": [{"name": "r1", "conditionSets": [[{"name": W, "minimum": 0, "maximum": 1000}]],
              "subs": [("a", "a"), ("b", "a.alt")]}],
}
RULE_NAMES = list(RULESETS)


def glyph_specs(d, e, role, shift=0):
    """Glyphs of one full master.  `shift` moves the outlines (replacement layers)."""
    sh = shift
    g = {
        ".notdef": {"width": 500, "contours": [B.box(50, 0, 450, 700)]},
        "space": {"width": 250 + d, "unicodes": [0x20]},
        "a": {"width": 500 + d, "unicodes": [0x61],
              "contours": [[(sh, 0, "line"), (100 + d + sh, -20 + e, "line"), (40 + sh, 80 + 2 * d, "line")]],
              "anchors": [("top", 50 + d * 0.5 + sh, 90 + e), ("bottom", 50.5 + sh, -10)],
              "lib": {"my.glyph.key": {"nested": [1, 2]}}},
        "a.alt": {"width": 520 + 2 * d, "unicodes": [0xE001],
                  "contours": [B.box(sh, 0, 120 + d + sh, 90 + e)],
                  "anchors": [("top", 60 + sh, 95 + d)]},
        "b": {"width": 510.5 + d, "unicodes": [0x62, 0x42],
              "contours": [[(sh, 0, "line"), (30 + sh, -20 - e, None), (70.5 + d + sh, -20, None),
                            (100 + d + sh, 0, "curve"), (120 + d + sh, 40, None), (60 + sh, 90.5 + e, None),
                            (sh, 50 + d, "curve", True)]],
              "anchors": [("top", 60 + sh, 95.5)]},
        "c": {"width": 520, "height": 1000 + d, "unicodes": [0x63],
              "components": [("a", (1, 0, 0, 1, 10 + d + sh, -3 + e)),
                             ("b", (0.5 + d / 64, 0, 0, 0.5, sh, 100 + d))],
              "anchors": [("bottom", 10 + sh, -20 + e)]},
        "d": {"width": 530 + d, "unicodes": [0x64],
              "contours": [B.box(-40 + sh, -30 + e, -10 + sh, 0)],
              "components": [("a.alt", (1, 0, 0, 1, 300 + d + sh, 0)), ("c", (-1, 0, 0, 1, 300 + sh, e))]},
        # the "S.closed" situation of MutatorSans: drawn in some masters, left empty in another
        "S": {"width": 400 + d,
              "contours": [] if "emptyS" in role else [B.box(10 + sh, 10, 90 + d + sh, 90 + e)]},
    }
    if "default" in role:
        g["only_default"] = {"width": 300, "contours": [B.box(sh, 0, 30, 30)]}
    if "last" in role:
        g["extra"] = {"width": 310, "contours": [B.box(sh, 0, 31, 31)]}
    return g


SPARSE_GLYPHS = ("a", "c")


def kerning_spec(d, role, kern):
    # "hole-*": one complete master carries no kerning at all (= every pair is 0 there)
    if ((kern == "hole-default" and "default" in role) or (kern == "hole-last" and "last" in role)
            or (kern == "hole-mid" and "default" not in role and "last" not in role)):
        return {}
    k = {
        "a b": -50 - d,
        "public.kern1.A public.kern2.B": 20.5 + d / 4,
        "a public.kern2.B": -7 - d,
        "b a": d,              # 0 in the default master (a zero that is not an exception)
        "c a": -7.5,           # negative half at every master
        "d a": 7.5 + d,
        "b b": -50 - d / 10 if d % 10 == 0 else -50,   # -50, -51, -53: halves at the mid points
    }
    if "last" in role:
        k["a.alt b"] = -33     # exception that exists in one master only
    if kern == "conflict":
        # a glyph pair that matches a (glyph, group) and a (group, glyph) key, with its own exception
        # in the last master only: the other masters' value is the implied one (UFO lookup order)
        k["public.kern1.A c"] = 5 + d
        if "last" in role:
            k["a c"] = -60
    return k


GROUPS = {"public.kern1.A": ["a", "a.alt"], "public.kern2.B": ["b", "c"],
          "other.group": ["a", "c", "a.alt"]}

COPIED_INFO = {
    "copyright": "(c) verif",
    "openTypeNameRecords": [{"nameID": 19, "platformID": 3, "encodingID": 1, "languageID": 0x409,
                             "string": "abc"}],
    "openTypeOS2Selection": [7],
    "openTypeOS2Type": [2],
    "openTypeOS2UnicodeRanges": [0, 1],
    "openTypeGaspRangeRecords": [{"rangeMaxPPEM": 65535, "rangeGaspBehavior": [0, 1]}],
    "versionMajor": 1,
    "versionMinor": 5,
}

# interpolated info: name -> kind ("number": kept exact unless rounding is on; "integer": an
# integer-typed fontinfo field, may be rounded even when geometry rounding is off; "float": never
# required to be rounded)
INTERP_INFO = {
    "unitsPerEm": "number", "ascender": "number", "descender": "number", "xHeight": "number",
    "capHeight": "number", "italicAngle": "float", "postscriptBlueValues": "number",
    "postscriptUnderlinePosition": "number", "postscriptUnderlineThickness": "number",
    "postscriptStemSnapH": "number", "postscriptBlueScale": "float",
    "openTypeOS2TypoAscender": "integer", "openTypeHheaAscender": "integer",
}


def info_spec(d, e, idx, explicit_classes=False):
    info = {
        "styleName": "M%d" % idx,
        "ascender": 800 + d, "descender": -200 + e, "xHeight": 500 + d, "capHeight": 700 + 2 * d,
        "italicAngle": -0.5 * d,
        "postscriptBlueValues": [-10 + e, 0, 500 + d, 510 + d],
        "postscriptUnderlinePosition": -75.5 + e, "postscriptUnderlineThickness": 50 + d,
        "postscriptStemSnapH": [80 + d, 90 + d],
        "postscriptBlueScale": 0.0390625 + d / 4096,
        "openTypeOS2TypoAscender": 800 + d, "openTypeHheaAscender": 900 + d,
        "guidelines": [{"x": 10, "y": 20, "angle": 30, "name": "g"}],
    }
    info.update(copy.deepcopy(COPIED_INFO))
    if explicit_classes:
        info["openTypeOS2WeightClass"] = 300 + 2 * d
        info["openTypeOS2WidthClass"] = 3
    return info


def master_spec(d, e, role, idx, kern, shift=0, explicit_classes=False):
    glyphs = glyph_specs(d, e, role, shift)
    return {
        "glyphs": glyphs,
        "order": list(glyphs),
        "kerning": kerning_spec(d, role, kern),
        "groups": copy.deepcopy(GROUPS),
        "features": "# family features\n",
        "lib": {"my.font.key": {"list": [1, 2.5, "x"], "dict": {"k": [True]}}},
        "info": info_spec(d, e, idx, explicit_classes),
    }


def axis_specs(setup):
    axes = []
    for name, default in TOPOLOGIES[setup["topo"]][0]:
        ad = AXIS_DEF[name]
        if setup.get("tags") == "slnt" and name == W:
            # the same axis registered as 'slnt': masters that SET italicAngle keep / blend it, the
            # axis value is only the fallback for masters that do not
            ad = dict(ad, tag="slnt")
        if setup["map"]:
            u = ad["user"]
            axes.append({"name": name, "tag": ad["tag"], "min": u[0], "default": u[default],
                         "max": u[1000], "map": ad["map"]})
        else:
            axes.append({"name": name, "tag": ad["tag"], "min": 0, "default": default, "max": 1000})
    return axes


def build_family(setup, shift=0):
    """Fresh real objects.  Returns (designspace, fonts) for shift == 0, or the list of replacement
    layer dicts + fonts for shift != 0 (same structure, outlines moved)."""
    axes, masters = TOPOLOGIES[setup["topo"]]
    module = setup.get("module", "ufoLib2")
    kern = setup.get("kern", "base")
    sources = []
    xc = bool(setup.get("tags"))
    default_spec = [master_spec(d, e, role, idx, kern, shift, xc)
                    for idx, (loc, (d, e), role) in enumerate(masters) if "default" in role][0]
    for idx, (loc, (d, e), role) in enumerate(masters):
        if role == "sparse":
            full = glyph_specs(d, e, role, shift)
            default_spec.setdefault("layers", {})["mid"] = {"glyphs": {
                n: {k: v for k, v in full[n].items() if k != "unicodes"} for n in SPARSE_GLYPHS}}
    for idx, (loc, (d, e), role) in enumerate(masters):
        if role == "sparse":
            sources.append({"spec": default_spec, "share": "default", "layerName": "mid",
                            "location": loc, "name": "sparse_mid"})
        elif "default" in role:
            sources.append({"spec": default_spec, "share": "default", "location": loc, "name": "m%d" % idx})
        else:
            sources.append({"spec": master_spec(d, e, role, idx, kern, shift, xc), "location": loc,
                            "name": "m%d" % idx})
    rules = [dict(r) for r in RULESETS[setup["rules"]]]
    ds = B.build_designspace(axis_specs(setup), sources, rules=rules,
                             lib={"public.skipExportGlyphs": ["only_default"], "ds.key": {"l": [1]}},
                             module=module)
    if setup.get("order") == "reversed":
        ds.sources.reverse()
    return ds


def source_layers_of(ds):
    out = []
    for s in ds.sources:
        layer = s.font.layers.defaultLayer if s.layerName is None else s.font.layers[s.layerName]
        out.append(layer)
    return out


def distinct_fonts(ds):
    fonts, seen = [], set()
    for s in ds.sources:
        if id(s.font) not in seen:
            seen.add(id(s.font))
            fonts.append(s.font)
    return fonts


# ---- plain readers -------------------------------------------------------------------------------

def _ptype(p):
    st = getattr(p, "segmentType", None)
    if st is None and hasattr(p, "type"):
        st = p.type
    return st


def plain_glyph(g):
    contours = []
    for c in g:
        pts = c.points if hasattr(c, "points") else list(c)
        contours.append([[p.x, p.y, _ptype(p)] for p in pts])
    return {
        "width": g.width, "height": g.height,
        "contours": contours,
        "components": [[c.baseGlyph, list(c.transformation)] for c in g.components],
        "anchors": [[a.name, a.x, a.y] for a in g.anchors],
        "unicodes": list(g.unicodes),
    }


def plain_font(font):
    return {"glyphs": {g.name: plain_glyph(g) for g in font},
            "kerning": {tuple(k): v for k, v in font.kerning.items()},
            "groups": {k: list(v) for k, v in font.groups.items()}}


def is_empty(p):
    return not p["contours"] and not p["components"]


class Reference:
    """Plain-data copy of everything the instantiator is given, taken before the first call."""

    def __init__(self, setup, ds):
        axes, masters = TOPOLOGIES[setup["topo"]]
        if setup.get("order") == "reversed":
            masters = list(reversed(masters))
        self.axis_order = [a for a, _ in axes]
        self.bounds = {a: (0, de, 1000) for a, de in axes}
        self.default_idx = [i for i, m in enumerate(masters) if "default" in m[2]][0]
        self.master_design = [dict(m[0]) for m in masters]
        self.master_norm = [V.normalize_location(m[0], self.bounds, self.axis_order) for m in masters]
        self.sparse = [m[2] == "sparse" for m in masters]
        self.set_layers(source_layers_of(ds))
        self.kerning, self.info = [], []
        for i, s in enumerate(ds.sources):
            if self.sparse[i]:
                self.kerning.append(None)
                self.info.append(None)
                continue
            f = s.font
            self.kerning.append({tuple(k): v for k, v in f.kerning.items()})
            self.info.append({a: copy.deepcopy(getattr(f.info, a, None))
                              for a in list(INTERP_INFO) + list(COPIED_INFO)
                              + ["openTypeOS2WeightClass", "openTypeOS2WidthClass"]})
        dfont = ds.sources[self.default_idx].font
        self.groups = {k: list(v) for k, v in dfont.groups.items()}
        self.rules = RULESETS[setup["rules"]]

    def set_layers(self, layers):
        self.layers = [{g.name: plain_glyph(g) for g in layer} for layer in layers]

    def glyph_names(self):
        return list(self.layers[self.default_idx])

    def glyph_masters(self, name):
        """[(norm loc, plain glyph)] after the documented selection: a non-default source that does
        not have the glyph, or has it empty while the default's is drawn, does not take part."""
        default = self.layers[self.default_idx][name]
        out = []
        for i, layer in enumerate(self.layers):
            if name not in layer:
                continue
            p = layer[name]
            if i != self.default_idx and is_empty(p) and not is_empty(default):
                continue
            out.append((self.master_norm[i], p))
        return out

    def full_masters(self, table):
        return [(self.master_norm[i], t) for i, t in enumerate(table) if t is not None]


# ---- expectations --------------------------------------------------------------------------------

def expect_glyph(ref, name, nloc, rounding, ctr):
    """-> (expected plain geometry, at_master, method)"""
    masters = ref.glyph_masters(name)
    at = [p for loc, p in masters if loc == nloc]
    if at:
        exp, at_master, method = {k: at[0][k] for k in V.GEOMETRY_KEYS}, True, "master"
    else:
        w, method = V.weights([loc for loc, _ in masters], nloc, ref.axis_order)
        exp = V.blend_glyph([p for _, p in masters], w)
        at_master = False
    if rounding:
        nums = []
        V.tree_map_numbers([exp["width"], exp["contours"], exp["anchors"],
                            [t[4:] for _, t in exp["components"]]], nums.append)
        for v in nums:
            if V.is_half(v):
                ctr["round:half-neg" if v < 0 else "round:half-pos"] += 1
            elif v != int(v):
                ctr["round:fraction"] += 1
        exp = V.round_glyph(exp)
    return exp, at_master, method


def num_ok(obs, exact, kind, rounding):
    """Is the observed info number acceptable for the exact blend?"""
    if obs is None:
        return False
    r = V.otround(exact)
    if kind == "float":
        return obs == exact or (rounding and obs == r)
    if rounding:
        return obs == r
    if kind == "integer":
        return obs == exact or obs == r
    return obs == exact


def kern_ok(obs, exact, rounding):
    if not rounding:
        return obs == exact
    if V.is_half(exact):
        import math
        return obs in (math.floor(exact), math.ceil(exact))
    return obs == V.otround(exact)


# ---- scribbling ----------------------------------------------------------------------------------

def _scribble(v, depth=0):
    """Overwrite a mutable value in place, recursively."""
    if depth > 6:
        return
    if isinstance(v, list):
        for x in v:
            _scribble(x, depth + 1)
        for i, x in enumerate(v):
            if isinstance(x, bool):
                v[i] = not x
            elif isinstance(x, (int, float)):
                v[i] = x + 1000
            elif isinstance(x, str):
                v[i] = x + "~"
        v.append("scribbled")
    elif isinstance(v, dict) or (hasattr(v, "keys") and hasattr(v, "__setitem__")):
        for k in list(v.keys()):
            x = v[k]
            _scribble(x, depth + 1)
            if isinstance(x, bool):
                v[k] = not x
            elif isinstance(x, (int, float)):
                v[k] = x + 1000
            elif isinstance(x, str):
                v[k] = x + "~"
        try:
            v["scribbled"] = 1
        except Exception:
            pass
    elif hasattr(v, "__attrs_attrs__"):
        for a in v.__attrs_attrs__:
            x = getattr(v, a.name, None)
            if isinstance(x, (list, dict)) or hasattr(x, "__attrs_attrs__"):
                _scribble(x, depth + 1)
            elif isinstance(x, bool):
                pass
            elif isinstance(x, (int, float)):
                try:
                    setattr(v, a.name, x + 1000)
                except Exception:
                    pass
            elif isinstance(x, str):
                try:
                    setattr(v, a.name, x + "~")
                except Exception:
                    pass


def scribble_font(font):
    """Overwrite every mutable attribute of a font the caller owns."""
    for attr in S.INFO_ATTRS:
        v = getattr(font.info, attr, None)
        if isinstance(v, (list, dict)):
            _scribble(v)
    _scribble(font.lib)
    for k in list(font.groups.keys()):
        font.groups[k].append("scribbled")
        font.groups[k][0:1] = ["scribbled0"]
    font.groups["scribbled.group"] = ["a"]
    for k in list(font.kerning.keys()):
        font.kerning[k] = font.kerning[k] + 1000
    font.kerning[("scribbled", "scribbled")] = 1
    font.features.text = (font.features.text or "") + "# scribbled\n"
    for g in font:
        for c in g:
            pts = c.points if hasattr(c, "points") else list(c)
            for p in pts:
                p.x = p.x + 1000
                p.y = p.y - 1000
                p.name = "scribbled"
        for a in g.anchors:
            a.x = a.x + 1000
            a.name = (a.name or "") + "~"
        for c in g.components:
            t = tuple(c.transformation)
            c.transformation = (t[0] + 1, t[1], t[2], t[3], t[4] + 1000, t[5])
            c.baseGlyph = "scribbled"
        u = g.unicodes
        try:
            u.append(0xE0FF)
            u[0] = 0xE0FE
        except Exception:
            g.unicodes = [0xE0FE]
        g.width = g.width + 1000
        _scribble(g.lib)
        g.lib["scribbled"] = [1]


# ---- running a history ---------------------------------------------------------------------------

def design_location(op, axis_order):
    return {a: op[1 + i] for i, a in enumerate(axis_order)}


def make_request(loc, given=None):
    """`given`: the part of the location written in the descriptor (axes at their default may be
    left out of an instance location)."""
    from fontTools.designspaceLib import InstanceDescriptor
    i = InstanceDescriptor()
    i.location = dict(loc if given is None else given)
    i.familyName = "Inst"
    i.styleName = "S" + "_".join(str(loc[a]) for a in sorted(loc))
    return i


def owned_snapshot(ds, extra_fonts):
    snap = S.designspace_snapshot(ds)
    return {"ds": snap, "fonts": [S.font_snapshot(f) for f in distinct_fonts(ds)],
            "replacement": [S.font_snapshot(f) for f in extra_fonts]}


def replay_history(setup, ops, want_ref=True):
    """Fresh objects, real calls.  Returns dict with the last instance, reference, frames."""
    from ufo2ft.instantiator import Instantiator
    if setup.get("prelude") == "reversed" and want_ref:
        run_prelude(setup, ops)
    ds = build_family(setup)
    ref = Reference(setup, ds)
    extra = []
    before = owned_snapshot(ds, extra)
    inst = Instantiator.from_designspace(ds, round_geometry=bool(setup["round"]))
    font = None
    last_loc = None
    replaced = False
    before_repl = None
    n_req = 0
    for i, op in enumerate(ops):
        if op[0] == "r":
            ds2 = build_family(setup, shift=16)
            extra = distinct_fonts(ds2)
            before_repl = [S.font_snapshot(f) for f in extra]
            layers = source_layers_of(ds2)
            ref.set_layers(layers)
            inst.replace_source_layers([{g.name: g for g in layer} for layer in layers])
            replaced = True
            font = None
            continue
        loc = design_location(op, ref.axis_order)
        font = inst.generate_instance(make_request(loc))
        last_loc = loc
        n_req += 1
        if setup["scribble"] and i < len(ops) - 1:
            scribble_font(font)
    return {"ds": ds, "ref": ref, "inst": inst, "font": font, "loc": last_loc, "before": before,
            "extra": extra, "before_repl": before_repl, "replaced": replaced, "n_req": n_req}


def run_prelude(setup, ops):
    """Another, independent family (other deviations, same master locations, sources listed in
    reverse) is instantiated first at the requested locations and at one more."""
    from ufo2ft.instantiator import Instantiator
    ds = build_family(dict(setup, prelude=None), shift=8)
    ds.sources.reverse()
    inst = Instantiator.from_designspace(ds, round_geometry=bool(setup["round"]))
    order = [a for a, _ in TOPOLOGIES[setup["topo"]][0]]
    for op in [o for o in ops if o[0] == "g"] + [["g"] + [250] * len(order)]:
        inst.generate_instance(make_request(design_location(op, order)))


_FRESH = {}


def fresh_snapshot(setup, replaced, op):
    """Snapshot of the same request on a fresh instantiator over fresh sources (memoised per
    worker: it is a pure function of its arguments)."""
    s2 = dict(setup)
    s2["scribble"] = 0
    key = jdump([s2, replaced, op])
    if key not in _FRESH:
        ops = ([["r"]] if replaced else []) + [op]
        st = replay_history(s2, ops)
        _FRESH[key] = S.font_snapshot(st["font"])
    return _FRESH[key]


def _where(path):
    parts = [p.split("[")[0] for p in path.split("/") if p]
    keep = []
    for i, p in enumerate(parts):
        if p in ("fonts", "replacement"):
            keep.append(p)
            continue
        keep.append(p)
        if p in ("info", "kerning", "groups", "features", "contours", "components", "anchors",
                 "unicodes", "width", "height", "rules", "axes", "sources", "instances"):
            if p == "info" and i + 1 < len(parts):
                keep.append(parts[i + 1])
            break
        if p == "lib":
            if i + 1 < len(parts):
                keep.append(parts[i + 1])
            break
        if len(keep) >= 6:
            break
    return "/".join(keep)


class C19(Property):
    id = "C19"
    rule = ("state = (topology, axis map, round_geometry, rule set, scribble mode) + history of "
            "generate_instance requests over the full location grid / replace_source_layers on one "
            "Instantiator; case-states = glyphs + kerning + info compared in the last result; "
            "non-trivial = a case whose expectation needed a blend, a rounding, a rule swap or a "
            "non-empty history before it")
    assumptions = [
        "a non-default source that lacks a glyph, or has it empty while the default draws it, does "
        "not take part in that glyph's interpolation (documented in collect_glyph_masters); sparse "
        "layer sources carry no info/kerning (documented)",
        "for master sets without a closed form (sparse layer dropping a corner, intermediate master "
        "without maximum) fontTools' VariationModel is the reference, as the statement says",
        "kerning is compared by UFO lookup value of every glyph pair (fontMath drops zero-valued "
        "non-exception pairs); at exact halves either integer neighbour is accepted for kerning",
        "integer-typed fontinfo fields may be rounded even with round_geometry off; italicAngle and "
        "postscriptBlueScale may stay unrounded with it on",
        "after replace_source_layers the 'masters' of the statement are the replacement layers",
        "scribbling the returned instance cannot hide a defect: it touches only objects the caller "
        "owns after the result was checked, so scribble mode is per history, not per request",
    ]
    trusted_base = ["CPython", "ufoLib2/defcon as containers", "fontTools.designspaceLib descriptors",
                    "fontTools.varLib.models.VariationModel (only for master sets without closed form)",
                    "mc/var_ref.py", "mc/snapshot.py"]

    # -- space ------------------------------------------------------------------------------------
    def bounds(self, tier):
        # req_*: maximal number of ops (generate_instance requests, plus at most one
        # replace_source_layers) per history.  "main" setups = no axis map, rules none / chain;
        # "deep" = main, rules chain, scribble mode on (two-axis family, thorough tier only).
        if tier == "quick":
            return {"depth": 4, "req_1axis": 3, "req_1axis_side": 2, "req_2axis": 2, "req_2axis_deep": 2,
                    "req_2axis_side": 1, "swap_depth": 2, "defcon_sources": False, "conflict": True}
        return {"depth": 5, "req_1axis": 4, "req_1axis_side": 3, "req_2axis": 2, "req_2axis_deep": 3,
                "req_2axis_side": 2, "swap_depth": 3, "defcon_sources": True, "conflict": True}

    def initial(self, b):
        out = []
        for topo, mp, rnd, rules, scr in itertools.product(TOPO_NAMES, (0, 1), (0, 1), RULE_NAMES, (0, 1)):
            out.append([{"mode": "inst", "topo": topo, "map": mp, "round": rnd, "rules": rules,
                         "scribble": scr}])
        if b["conflict"]:
            for topo, rnd in itertools.product(("2m", "3mi"), (0, 1)):
                out.append([{"mode": "inst", "topo": topo, "map": 0, "round": rnd, "rules": "none",
                             "scribble": 0, "kern": "conflict"}])
        for topo, rnd, hole in itertools.product(("2m", "3mc", "3mi", "4c"), (0, 1),
                                                 ("hole-default", "hole-last", "hole-mid")):
            if hole == "hole-mid" and topo == "2m":
                continue
            out.append([{"mode": "inst", "topo": topo, "map": 0, "round": rnd, "rules": "none",
                         "scribble": 0, "kern": hole}])
        # the first axis registered as 'slnt' (italicAngle set by every master, 0 in the default) or
        # kept as 'wght' with explicit OS/2 classes in every master: explicit values are blended,
        # the axis value is only a fallback
        for topo, mp, rnd, tags in itertools.product(("2m", "3mc", "3mi"), (0, 1), (0, 1), ("slnt", "wght")):
            out.append([{"mode": "inst", "topo": topo, "map": mp, "round": rnd, "rules": "none",
                         "scribble": 0, "tags": tags}])
        # another family with the same master locations listed in another order was instantiated
        # in this process before (nothing may be shared between instantiators)
        for topo, rnd in itertools.product(("2m", "3mc", "3mi", "4c", "2s"), (0, 1)):
            out.append([{"mode": "inst", "topo": topo, "map": 0, "round": rnd, "rules": "none",
                         "scribble": 0, "prelude": "reversed"}])
            # ... and the other way round (whatever a process-wide cache holds when the state is
            # reached, one of the two families disagrees with it)
            out.append([{"mode": "inst", "topo": topo, "map": 0, "round": rnd, "rules": "none",
                         "scribble": 0, "prelude": "reversed", "order": "reversed"}])
        if b["defcon_sources"]:
            for topo, rnd, rules in itertools.product(TOPO_NAMES, (0, 1), ("none", "chain")):
                out.append([{"mode": "inst", "topo": topo, "map": 1, "round": rnd, "rules": rules,
                             "scribble": 1, "module": "defcon"}])
        for module in ("ufoLib2", "defcon"):
            out.append([{"mode": "swap", "module": module}])
        return out

    def max_requests(self, setup, b):
        two = len(TOPOLOGIES[setup["topo"]][0]) == 2
        main = (setup["rules"] in ("none", "chain") and not setup["map"]
                and setup.get("kern", "base") == "base" and setup.get("module", "ufoLib2") == "ufoLib2")
        if setup.get("kern", "base") != "base" or setup.get("tags") or setup.get("prelude"):
            return 1
        if two:
            if main and setup["rules"] == "chain" and setup["scribble"]:
                return b["req_2axis_deep"]
            return b["req_2axis"] if main else b["req_2axis_side"]
        return b["req_1axis"] if main else b["req_1axis_side"]

    def ops(self, h, b):
        setup = h[0]
        n = len(h) - 1
        if setup["mode"] == "swap":
            if n >= b["swap_depth"]:
                return []
            return [["s", x, y] for x, y in SWAP_PAIRS]
        if n >= self.max_requests(setup, b):
            return []
        axes = TOPOLOGIES[setup["topo"]][0]
        out = [["g"] + list(p) for p in itertools.product(GRID, repeat=len(axes))]
        # one replace_source_layers per history, never as the last possible op
        if not any(op[0] == "r" for op in h[1:]) and n + 1 < self.max_requests(setup, b):
            out.append(["r"])
        return out

    def describe(self, h, b):
        return {"setup": h[0], "ops": h[1:]}

    REQUIRED = ["request:at-full-master", "request:elsewhere", "glyph:master", "glyph:closed",
                "glyph:model", "kerning:closed", "info:closed", "round:half-pos", "round:half-neg",
                "round:fraction", "kerning:half-pos", "kerning:half-neg", "rules:0-swaps",
                "rules:1-swaps", "rules:2-swaps", "history:compared-with-fresh", "history:with-replace",
                "scribbled-results", "swap:twice", "swap:undone-sequences", "request:partial-location",
                "glyph-instance"]

    def finish(self, b, summary):
        missing = [k for k in self.REQUIRED if not summary["counters"].get(k)]
        if missing:
            return [violation("vacuous", {"missing": missing})]
        return []

    # -- execution --------------------------------------------------------------------------------
    def run(self, h, b):
        setup, ops = h[0], h[1:]
        if setup["mode"] == "swap":
            return run_swaps(setup, ops)
        if not ops:
            # construction only: the frame must hold
            from ufo2ft.instantiator import Instantiator
            ds = build_family(setup)
            before = owned_snapshot(ds, [])
            Instantiator.from_designspace(ds, round_geometry=bool(setup["round"]))
            viols = frame_violations(before, owned_snapshot(ds, []), setup, "from_designspace")
            return Result(viols, {"construct": 1}, digest("construct"), substates=1, nontrivial=0)
        return run_instance_history(setup, ops)


def frame_violations(before, after, setup, last_call):
    viols = []
    if before != after:
        found = {}
        for p, x, y in S.diff(before, after, limit=60):
            found.setdefault(_where(p), []).append((p, x, y))
        for w, d in found.items():
            viols.append(violation("source-modified", {"where": w, "scribble": setup["scribble"]},
                                   last_call=last_call, diff=d[:3], setup=setup))
    return viols


def run_instance_history(setup, ops):
    from collections import Counter
    ctr = Counter()
    viols = []
    st = replay_history(setup, ops)
    ref, font, loc, ds = st["ref"], st["font"], st["loc"], st["ds"]
    rounding = bool(setup["round"])
    topo = setup["topo"]
    ctr["history:len%d" % len(ops)] += 1
    if st["replaced"]:
        ctr["history:with-replace"] += 1
    substates = nontrivial = 0
    outcome = None
    if ops[-1][0] == "g":
        nloc = V.normalize_location(loc, ref.bounds, ref.axis_order)
        feat = {"topo": topo, "round": int(rounding)}
        obs_snapshot = S.font_snapshot(font)
        outcome = digest(obs_snapshot)
        obs = plain_font(font)
        names = ref.glyph_names()

        # --- glyph set ---
        if sorted(obs["glyphs"]) != sorted(names):
            viols.append(violation("glyph-set", dict(feat), observed=sorted(obs["glyphs"]),
                                   expected=sorted(names)))
        # --- code points ---
        default_layer = ref.layers[ref.default_idx]
        for n in names:
            if n in obs["glyphs"] and obs["glyphs"][n]["unicodes"] != default_layer[n]["unicodes"]:
                viols.append(violation("code-points-moved", dict(feat, rules=setup["rules"]), glyph=n,
                                       observed=obs["glyphs"][n]["unicodes"],
                                       expected=default_layer[n]["unicodes"], location=loc))
        # --- rules: undo the expected swaps with the independent swap, then compare as unswapped
        swaps = V.rule_swaps(ref.rules, loc, set(names))
        ctr["rules:%d-swaps" % len(swaps)] += 1
        unsw = obs
        try:
            for x, y in reversed(swaps):
                unsw = V.swap_plain(unsw, x, y)
        except KeyError:
            swaps = None
        swapped_names = set(itertools.chain.from_iterable(swaps or ()))
        # names whose comparison is affected by the swap (the swapped glyphs and their users)
        touched = set(swapped_names)
        for n in names:
            if any(bn in swapped_names for bn, _ in default_layer[n]["components"]):
                touched.add(n)

        # --- geometry ---
        any_master = False
        for n in names:
            if n not in unsw["glyphs"]:
                continue
            exp, at_master, method = expect_glyph(ref, n, nloc, rounding, ctr)
            substates += 1
            ctr["glyph:" + method] += 1
            any_master = any_master or at_master
            if not at_master or rounding or n in touched or len(ops) > 1:
                nontrivial += 1
            bad = V.glyph_aspect_diffs(unsw["glyphs"][n], exp)
            for aspect in bad:
                if n in touched:
                    kind = "rule-swap-mismatch"
                    f = dict(feat, aspect=aspect, rules=setup["rules"])
                elif at_master:
                    kind, f = "master-mismatch", dict(feat, aspect=aspect)
                else:
                    kind, f = "blend-mismatch", dict(feat, aspect=aspect, reference=method)
                key = {"outline": "contours"}.get(aspect, aspect)
                viols.append(violation(kind, f, glyph=n, location=loc, observed=unsw["glyphs"][n][key],
                                       expected=exp[key], setup=setup, swaps=swaps))

        # --- generate_glyph_instance (no rules involved) ---
        if not setup["scribble"]:
            ndict = dict(zip(ref.axis_order, nloc))
            for n in names:
                g = st["inst"].generate_glyph_instance(n, ndict)
                exp, at_master, method = expect_glyph(ref, n, nloc, rounding, Counter())
                pg = plain_glyph(g)
                bad = V.glyph_aspect_diffs(pg, exp)
                if pg["unicodes"] != default_layer[n]["unicodes"]:
                    bad.append("unicodes")
                ctr["glyph-instance"] += 1
                for aspect in bad:
                    viols.append(violation("glyph-instance-mismatch", dict(feat, aspect=aspect,
                                                                          at_master=at_master),
                                           glyph=n, location=loc, setup=setup))

        # --- kerning: UFO lookup value of every glyph pair ---
        kmasters = ref.full_masters(ref.kerning)
        klocs = [l for l, _ in kmasters]
        at = [k for l, k in kmasters if l == nloc]
        if at:
            kw, kmethod = None, "master"
        else:
            kw, kmethod = V.weights(klocs, nloc, ref.axis_order)
        ctr["kerning:" + kmethod] += 1
        substates += 1
        nontrivial += 1 if (kmethod != "master" or rounding or swaps) else 0
        kbad = 0
        for l, r in itertools.product(names, repeat=2):
            if at:
                exact = V.kerning_lookup(at[0], ref.groups, (l, r))
            else:
                exact = sum(w * V.kerning_lookup(k, ref.groups, (l, r)) for w, (_, k) in zip(kw, kmasters))
            got = V.kerning_lookup(unsw["kerning"], unsw["groups"], (l, r))
            if rounding and V.is_half(exact):
                ctr["kerning:half-neg" if exact < 0 else "kerning:half-pos"] += 1
            if exact != 0:
                ctr["kerning:nonzero-pair"] += 1
            if not kern_ok(got, exact, rounding):
                kbad += 1
                if kbad > 3:
                    continue
                implied = [V.kerning_candidates(k, ref.groups, (l, r)) for _, k in kmasters]
                conflict = any((l, r) not in c and any(x[0] == l and x[1] != r for x in c)
                               and any(x[0] != l and x[1] == r for x in c) for c in implied)
                if swaps and (l in swapped_names or r in swapped_names):
                    kind, f = "rule-swap-mismatch", dict(feat, aspect="kerning", rules=setup["rules"])
                elif at:
                    kind, f = "master-mismatch", dict(feat, aspect="kerning")
                else:
                    kind, f = "blend-mismatch", dict(feat, aspect="kerning", reference=kmethod)
                if conflict:
                    f["glyph_group_vs_group_glyph"] = True
                viols.append(violation(kind, f, pair=[l, r], location=loc, observed=got, expected=exact,
                                       master_keys=implied, instance_kerning=sorted(
                                           (list(k), v) for k, v in obs["kerning"].items()),
                                       setup=setup))
        # kerning groups of the instance are the default source's (after undoing the swaps)
        for gname, members in ref.groups.items():
            if gname.startswith((V.K1, V.K2)) and sorted(unsw["groups"].get(gname, [])) != sorted(members):
                viols.append(violation("rule-swap-mismatch" if swaps else "master-mismatch",
                                       dict(feat, aspect="kerning-groups"), group=gname,
                                       observed=unsw["groups"].get(gname), expected=members, location=loc))

        # --- info ---
        imasters = ref.full_masters(ref.info)
        at = [k for l, k in imasters if l == nloc]
        if at:
            iw, imethod = None, "master"
        else:
            iw, imethod = V.weights([l for l, _ in imasters], nloc, ref.axis_order)
        ctr["info:" + imethod] += 1
        substates += 1
        nontrivial += 1 if (imethod != "master" or rounding) else 0
        interp = dict(INTERP_INFO)
        if setup.get("tags"):
            # explicitly set classes win over the values inferred from wght / wdth / slnt axes
            interp.update({"openTypeOS2WeightClass": "integer", "openTypeOS2WidthClass": "integer"})
            ctr["info:explicit-vs-axis-fallback"] += 1
        for attr, kind_ in interp.items():
            if at:
                exact = at[0][attr]
            else:
                exact = V.tree_blend([k[attr] for _, k in imasters], iw)
            got = getattr(font.info, attr, None)
            if isinstance(exact, list):
                ok = (isinstance(got, list) and len(got) == len(exact)
                      and all(num_ok(g, e, kind_, rounding) for g, e in zip(got, exact)))
            else:
                ok = num_ok(got, exact, kind_, rounding)
            if not ok:
                viols.append(violation("master-mismatch" if at else "blend-mismatch",
                                       dict(feat, aspect="info", attr=attr), observed=got, expected=exact,
                                       location=loc, setup=setup))
        if at:
            # non-interpolated info is the same in every master of the family
            for attr, want in COPIED_INFO.items():
                got = S.plain(getattr(font.info, attr, None))
                if not _info_equal(getattr(font.info, attr, None), want):
                    viols.append(violation("master-mismatch", dict(feat, aspect="info", attr=attr),
                                           observed=got, expected=want, location=loc))
        ctr["request:at-full-master" if at else "request:elsewhere"] += 1

        # --- history independence ---
        fresh = fresh_snapshot(setup, st["replaced"], ops[-1])
        if obs_snapshot != fresh:
            found = {}
            for p, x, y in S.diff(fresh, obs_snapshot, limit=60):
                found.setdefault(_where(p), []).append((p, x, y))
            for w, d in found.items():
                viols.append(violation("history-dependence",
                                       {"where": w, "round": int(rounding), "scribble": setup["scribble"]},
                                       history=ops, diff_fresh_vs_history=d[:3], setup=setup))
        if len(ops) > 1:
            ctr["history:compared-with-fresh"] += 1

        # --- an instance location may leave out axes that are at their default ---
        if len(ops) == 1 and not setup["scribble"]:
            given = {a: v for a, v in loc.items() if v != ref.bounds[a][1]}
            if given != loc:
                ctr["request:partial-location"] += 1
                f2 = S.font_snapshot(st["inst"].generate_instance(make_request(loc, given)))
                if f2 != obs_snapshot:
                    d = S.diff(obs_snapshot, f2, limit=10)
                    viols.append(violation("partial-location-differs", dict(feat, where=_where(d[0][0])),
                                           location=loc, given=given, diff=d[:3]))

        # --- swap involution on the live instance (single-request states) ---
        if len(ops) == 1 and not setup["scribble"]:
            viols += swap_involution(font, [("a", "a.alt"), ("a.alt", "b"), ("c", "d"), ("a", "c"),
                                            ("space", "d")], ctr, dict(feat, on="instance"))
        if setup["scribble"]:
            scribble_font(font)
            ctr["scribbled-results"] += st["n_req"]

    # --- frame ---
    after = owned_snapshot(ds, st["extra"])
    before = st["before"]
    if st["before_repl"] is not None:
        before = dict(before, replacement=st["before_repl"])
    viols += frame_violations(before, after, setup, jdump(ops[-1]))
    ctr["frames-compared"] += 1
    return Result(viols, dict(ctr), outcome or digest(["frame", after == before]),
                  substates=max(substates, 1), nontrivial=nontrivial)


def _info_equal(got, want):
    """Compare a fontinfo value (possibly ufoLib2 record objects) with plain data."""
    if isinstance(want, list):
        if not isinstance(got, (list, tuple)) or len(got) != len(want):
            return False
        return all(_info_equal(g, w) for g, w in zip(got, want))
    if isinstance(want, dict):
        for k, w in want.items():
            g = got.get(k) if isinstance(got, dict) else getattr(got, k, None)
            if not _info_equal(g, w):
                return False
        return True
    return got == want


# ---- swap_glyph_names ----------------------------------------------------------------------------

SWAP_GLYPHS = ["a", "a.alt", "b", "c", "d", "space"]
SWAP_PAIRS = [(x, y) for x, y in itertools.permutations(SWAP_GLYPHS, 2)]


def _swap_aspects(obs, exp):
    bad = []
    for n in exp["glyphs"]:
        o, e = obs["glyphs"].get(n), exp["glyphs"][n]
        if o is None:
            bad.append("glyph-set")
            continue
        bad += [a for a in V.glyph_aspect_diffs(o, e) if a != "height"]
        if o["unicodes"] != e["unicodes"]:
            bad.append("unicodes")
    if set(obs["glyphs"]) != set(exp["glyphs"]):
        bad.append("glyph-set")
    if obs["kerning"] != exp["kerning"]:
        bad.append("kerning")
    if {k: sorted(v) for k, v in obs["groups"].items()} != {k: sorted(v) for k, v in exp["groups"].items()}:
        bad.append("groups")
    return sorted(set(bad))


def swap_involution(font, pairs, ctr, feat):
    from ufo2ft.instantiator import swap_glyph_names
    viols = []
    for x, y in pairs:
        s0 = S.font_snapshot(font)
        p0 = plain_font(font)
        swap_glyph_names(font, x, y)
        p1 = plain_font(font)
        for aspect in _swap_aspects(p1, V.swap_plain(p0, x, y)):
            viols.append(violation("swap-wrong", dict(feat, aspect=aspect), pair=[x, y]))
        swap_glyph_names(font, x, y)
        s2 = S.font_snapshot(font)
        ctr["swap:twice"] += 1
        if s2 != s0:
            d = S.diff(s0, s2, limit=10)
            viols.append(violation("swap-not-involution", dict(feat, where=_where(d[0][0])),
                                   pair=[x, y], diff=d[:4]))
    return viols


def _reaches(glyphs, src, target, _seen=None):
    """Does glyph `src` use `target` as a (nested) component?"""
    _seen = _seen or set()
    for bn, _ in glyphs.get(src, {"components": []})["components"]:
        if bn == target:
            return True
        if bn not in _seen:
            _seen.add(bn)
            if _reaches(glyphs, bn, target, _seen):
                return True
    return False


def run_swaps(setup, ops):
    """A sequence of swaps on a rich source-like font; every step is compared with the independent
    swap on plain data, then the sequence is undone in reverse order and must restore the font."""
    from collections import Counter
    from ufo2ft.instantiator import swap_glyph_names
    ctr = Counter()
    spec = master_spec(10, -6, "default", 0, "base")
    spec["layers"] = {"background": {"glyphs": {"a": {"width": 1, "contours": [B.box(0, 0, 5, 5)]}}}}
    spec["glyphs"]["b"]["lib"] = {"k": [1]}
    font = B.build_font(spec, setup["module"])
    s0 = S.font_snapshot(font)
    viols = []
    feat = {"on": "source-like", "module": setup["module"]}
    exp = plain_font(font)
    for i, (_, x, y) in enumerate(ops):
        cur = plain_font(font)["glyphs"]
        uses = _reaches(cur, x, y) or _reaches(cur, y, x)
        if uses:
            ctr["swap:glyph-with-its-own-user"] += 1
        try:
            swap_glyph_names(font, x, y)
        except RecursionError as e:
            viols.append(violation("swap-crash", dict(feat, type=type(e).__name__,
                                                      one_is_component_of_other=uses),
                                   swaps=ops, failed_at=i))
            return Result(viols, dict(ctr), "crash", substates=max(1, len(ops)), nontrivial=len(ops))
        exp = V.swap_plain(exp, x, y)
        ctr["swap:applied"] += 1
    obs = plain_font(font)
    for aspect in _swap_aspects(obs, exp):
        viols.append(violation("swap-wrong", dict(feat, aspect=aspect), swaps=ops))
    mid = S.font_snapshot(font)
    for i, (_, x, y) in enumerate(reversed(ops)):
        # the same pair named in the other direction must undo it as well
        if i % 2:
            swap_glyph_names(font, x, y)
        else:
            swap_glyph_names(font, y, x)
    s2 = S.font_snapshot(font)
    if s2 != s0:
        d = S.diff(s0, s2, limit=10)
        viols.append(violation("swap-not-involution", dict(feat, where=_where(d[0][0])), swaps=ops,
                               diff=d[:4]))
    if ops:
        ctr["swap:undone-sequences"] += 1
    return Result(viols, dict(ctr), digest(mid), substates=max(1, len(ops)), nontrivial=len(ops))


PROPERTY = C19()
