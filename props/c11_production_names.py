"""C11 — Production names rename glyphs and change nothing else.

BFS "add glyph" over a (name, code point) alphabet on top of a fixed kernel (.notdef, f, i,
acutecomb, with kerning, anchors and a GSUB rule so that GPOS/GSUB/GDEF exist).  A state is a set
of added glyphs; it is compiled in every flavour with production names off and on, for both glyph
orders (as added / reversed) and for a family of `public.postscriptNames` maps, saved and
reloaded.  Oracle: per-table raw bytes (TTFont.reader[tag]) are identical except for the
glyph-name carriers; the final names follow an independently restated naming rule.

A second part enumerates the full product of the four switches (argument, the two ufo2ft lib keys,
the Glyphs legacy key); a third part (thorough) does the same comparison for variable fonts.
"""

from __future__ import annotations

import io
import itertools
import re

from fontTools.ttLib import TTFont

from mc import ufo_build as B
from mc.explore import Property, Result, digest, jdump, violation

USE_KEY = "com.github.googlei18n.ufo2ft.useProductionNames"
KEEP_KEY = "com.github.googlei18n.ufo2ft.keepGlyphNames"
GLYPHS_KEY = "com.schriftgestaltung.Don't use Production Names"

LONG70 = "L" + "o" * 68 + "g"
LONG64 = "N" * 64

# (name, code point) ops; simplest first
ALPHABET = [
    ["A", 0x41], ["A", None], ["A.alt", None], ["A.alt.ss01", None], ["f_i", None], ["f_i.alt", None],
    ["uni0041", None], ["uni0041.alt", None], ["uni0041.1", None], [LONG70, None],
    ["a-b", None], ["a-b", 0x1F600], ["u1F600", None], ["X", 0xFFFF], ["uniFFFF", None],
    ["Y", 0x10000], ["f_Y", None], ["space", 0x20], ["ab", None], ["uFFFF", None], ["f_X", None],
    # the smallest code point: 0 is a value, not "no code point"
    ["NULL", 0x0], ["NULL.alt", None],
    # ligatures that repeat a component (adjacent and not)
    ["f_f", None], ["f_i_f", None],
]
FIXED = [[".notdef", None], ["f", 0x66], ["i", 0x69], ["acutecomb", 0x301]]
FIXED_NAMES = [n for n, _ in FIXED]

LEGAL = re.compile(r"^[A-Za-z0-9_.]+$")
ILLEGAL_CH = re.compile(r"[^A-Za-z0-9_.]")
MAXLEN = 63


def sanitize(s):
    return ILLEGAL_CH.sub("", s)


def uni_name(u):
    # AGL: "uni" + 4 uppercase hex digits for the BMP, "u" + 5..6 digits beyond it
    return ("uni%04X" % u) if u <= 0xFFFF else ("u%X" % u)


# ------------------------------------------------------------------------------------------------
# reference naming rule (AGL-style), returning the SET of acceptable names before uniquing


def rule_names(name, glyphs, depth=0):
    """glyphs: {name: first code point | None}.  Firm answers are singletons; where the glyph the
    name refers to is missing from the font, both "leave the name alone" and the full AGL-style
    derivation are acceptable."""
    u = glyphs[name]
    if u is not None:
        return {uni_name(u)}
    if depth > 6:
        return {name}
    # variant: <base>.<last suffix> with the base glyph present
    if "." in name[1:]:
        base, suf = name.rsplit(".", 1)
        if base in glyphs:
            return {r + "." + suf for r in rule_names(base, glyphs, depth + 1)}
    # ligature: components joined by "_", an optional suffix applying to every component
    head, dot, suf = name.partition(".")
    comps = head.split("_") if head else []
    if len(comps) > 1:
        cn = [c + ("." + suf if dot else "") for c in comps]
        if all(c in glyphs for c in cn):
            us = [glyphs[c] for c in cn]
            if all(x is not None and x <= 0xFFFF for x in us):
                return {"uni" + "".join("%04X" % x for x in us)}
            out = {""}
            for i, c in enumerate(cn):
                out = {o + ("_" if i else "") + r for o in out for r in rule_names(c, glyphs, depth + 1)}
            return out
    # nothing in the font to derive from: unchanged, or the AGL derivation through the bare base
    alt = {name}
    if dot and head:
        if head in glyphs and glyphs[head] is not None:
            alt.add(uni_name(glyphs[head]) + "." + suf)
        if len(comps) > 1 and all(c in glyphs and glyphs[c] is not None and glyphs[c] <= 0xFFFF for c in comps):
            alt.add("uni" + "".join("%04X" % glyphs[c] for c in comps) + "." + suf)
    return alt


def acceptable_names(name, glyphs, psmap):
    """Set of acceptable final names (before the uniqueness suffix) of one glyph."""
    san = sanitize(name)
    if psmap:
        entry = psmap.get(name)
        if entry:
            if LEGAL.match(entry) and len(entry) <= MAXLEN:
                return {entry}, "map"
            cands = {sanitize(entry), san}
            short = {c for c in cands if c and len(c) <= MAXLEN}
            return (short or cands), "map-illegal"
        # a map is present but says nothing about this glyph: source name or the derived name
        return {san} | {sanitize(r) for r in rule_names(name, glyphs)}, "map-silent"
    cands = {sanitize(r) for r in rule_names(name, glyphs)}
    short = {c for c in cands if len(c) <= MAXLEN}
    if not short:
        # the derived name is too long: fall back to the source name
        return {san}, "rule-too-long"
    return short, "rule"


def check_names(order_src, final, glyphs, psmap, ctrs):
    """order_src: source glyph names in glyph order; final: names read back from the binary."""
    problems = []
    if len(final) != len(order_src):
        return [("glyph-count", {"expected": len(order_src), "observed": len(final)})]
    if len(set(final)) != len(final):
        problems.append(("names-not-unique", {"final": final}))
    finals = set(final)
    for src, fin in zip(order_src, final):
        if src == ".notdef":
            if fin != ".notdef":
                problems.append(("notdef-renamed", {"observed": fin}))
            continue
        if not LEGAL.match(fin):
            problems.append(("illegal-character", {"source": src, "observed": fin}))
            continue
        acc, how = acceptable_names(src, glyphs, psmap)
        ctrs["name_" + how] += 1
        if fin in acc:
            if fin != src:
                ctrs["glyphs_renamed"] += 1
            if fin.startswith("u") and not fin.startswith("uni") and glyphs[src] is not None:
                ctrs["astral_u_names"] += 1
            if glyphs[src] == 0xFFFF:
                ctrs["code_point_FFFF"] += 1
            continue
        # a uniqueness suffix is legitimate only if the plain name is really taken by another glyph
        ok = False
        for a in acc:
            if fin.startswith(a) and re.fullmatch(r"(\.\d+)+", fin[len(a):]) and a in (finals - {fin}):
                ok = True
        if ok:
            ctrs["unique_suffix_added"] += 1
            continue
        problems.append(("wrong-name", {"source": src, "code_point": glyphs[src], "observed": fin,
                                        "acceptable": sorted(acc), "rule": how}))
        # a name longer than 63 is only tolerated when no acceptable candidate is shorter
    for src, fin in zip(order_src, final):
        if len(fin) > MAXLEN:
            ctrs["names_over_63"] += 1
    return problems


# ------------------------------------------------------------------------------------------------
# fonts


def font_spec(added, order_rev=False, psmap=None, lib=None, shift=0):
    glyphs = {
        ".notdef": {"width": 500, "contours": [B.box(50, 0, 450, 700)]},
        "f": {"width": 300 + shift, "unicodes": [0x66], "contours": B.SHAPES["tri"], "anchors": [("top", 100, 700)]},
        "i": {"width": 250 + shift, "unicodes": [0x69], "contours": [B.box(10, 0, 90 + shift, 500)],
              "anchors": [("top", 50, 520)]},
        "acutecomb": {"width": 0, "unicodes": [0x301], "contours": [B.box(-60, 550, -20, 650)],
                      "anchors": [("_top", -40, 540)]},
    }
    kern = {("f", "i"): -15}
    ordered = list(reversed(added)) if order_rev else list(added)
    for k, (n, u) in enumerate(added):
        g = {"width": 500 + 10 * k + shift, "contours": [B.box(10 + k, 0, 300 + k + shift, 400 + 7 * k)],
             "anchors": [("top", 150 + k, 420)]}
        if u is not None:
            g["unicodes"] = [u]
        glyphs[n] = g
        kern[("f", n)] = -20 - k
        kern[(n, "i")] = 12 + k
    fea = "feature ss01 { sub f by i; } ss01;\n"
    if added:
        fea += "feature ss02 { sub i by %s; } ss02;\n" % added[0][0]
    order = FIXED_NAMES + [n for n, _ in ordered]
    spec = {"glyphs": glyphs, "order": order, "kerning": [[l, r, v] for (l, r), v in kern.items()],
            "features": fea, "lib": dict(lib or {})}
    if psmap is not None:
        spec["lib"]["public.postscriptNames"] = dict(psmap)
    return spec


def source_cps(spec):
    return {n: (g.get("unicodes") or [None])[0] for n, g in spec["glyphs"].items()}


FLAVOURS = {
    "ttf": lambda u, f, **kw: u.compileTTF(f, **kw),
    "otf": lambda u, f, **kw: u.compileOTF(f, optimizeCFF=0, **kw),
    "cff2": lambda u, f, **kw: u.compileOTF(f, optimizeCFF=0, cffVersion=2, **kw),
}


def save_reload(tt):
    buf = io.BytesIO()
    tt.save(buf)
    buf.seek(0)
    return TTFont(buf)


def raw_tables(tt):
    out = {}
    for tag in tt.reader.keys():
        data = tt.reader[tag]
        if tag == "head":
            data = data[:8] + b"\0\0\0\0" + data[12:]
        out[tag] = data
    return out


NAME_CARRIERS = {"post", "CFF "}


def compare_binaries(off, on, ctrs):
    """Table-level differential oracle.  Returns [(kind, detail)]."""
    problems = []
    a, b = raw_tables(off), raw_tables(on)
    if sorted(a) != sorted(b):
        problems.append(("table-set-differs", {"off": sorted(a), "on": sorted(b)}))
    for tag in sorted(set(a) & set(b)):
        if tag in NAME_CARRIERS:
            continue
        ctrs["tables_compared"] += 1
        if a[tag] != b[tag]:
            first = next((i for i, (x, y) in enumerate(zip(a[tag], b[tag])) if x != y), min(len(a[tag]), len(b[tag])))
            problems.append(("table-bytes-differ", {"table": tag, "len_off": len(a[tag]), "len_on": len(b[tag]),
                                                   "first_diff_at": first}))
    for t in ("GPOS", "GSUB", "GDEF"):
        if t in a:
            ctrs["has_" + t] += 1
    # the name carriers may differ in names only: same charstrings per glyph index, same post header
    if "CFF " in a and "CFF " in b and a["CFF "] != b["CFF "]:
        ca, cb = off["CFF "].cff.topDictIndex[0], on["CFF "].cff.topDictIndex[0]
        csa, csb = ca.CharStrings, cb.CharStrings
        ga, gb = off.getGlyphOrder(), on.getGlyphOrder()
        if len(ga) != len(gb):
            problems.append(("cff-glyph-count", {"off": len(ga), "on": len(gb)}))
        else:
            for i, (x, y) in enumerate(zip(ga, gb)):
                for cs in (csa[x], csb[y]):
                    if cs.bytecode is None:
                        cs.compile()
                if csa[x].bytecode != csb[y].bytecode:
                    problems.append(("cff-charstring-differs", {"glyph_index": i, "off": x, "on": y}))
                    break
            ctrs["cff_charstrings_compared"] += len(ga)
    if "post" in a and "post" in b and a["post"][4:32] != b["post"][4:32]:
        problems.append(("post-header-differs", {}))
    return problems


def decide_switches(arg, lib, has_map):
    """Documented semantics of the switches (docstring of PostProcessor.process, restated):
    returns (rename, keep_names)."""
    if arg is not None:
        return bool(arg), True
    keep = lib.get(KEEP_KEY, True)
    if USE_KEY in lib:
        use = lib[USE_KEY]
    else:
        use = (not lib.get(GLYPHS_KEY)) and has_map
    return bool(use), bool(keep)


def psmap_family(added):
    """Maps tried for a state: absent, empty, and one entry for the last added glyph of each kind."""
    out = [("absent", None), ("empty", {})]
    if added:
        g = added[-1][0]
        out += [("legal", {g: "B"}), ("blank", {g: "", "f": "eff"}), ("illegal", {g: "bad name!"}),
                ("dup", {g: "f"}), ("long64", {g: LONG64}), ("dup2", {g: "Same", "i": "Same"})]
    return out


# ------------------------------------------------------------------------------------------------


class C11(Property):
    id = "C11"
    rule = ("state = a set of (glyph name, code point) additions to a fixed kernel font; every state is compiled "
            "per flavour with production names off and on for two glyph orders and a family of "
            "public.postscriptNames maps (plus the full switch product and, thorough, variable fonts); "
            "non-trivial = at least one glyph is renamed")
    assumptions = [
        "TTFont.reader[tag] returns the table bytes as stored in the saved file",
        "for a glyph without a code point whose base / ligature components are not in the font, both the "
        "unchanged name and the AGL-style derived name are accepted; for a glyph missing from a non-empty "
        "public.postscriptNames map both its source name and its derived name are accepted",
        "a '.N' suffix is accepted only when the plain name is the final name of another glyph",
        "names longer than 63 characters are counted, not rejected (the statement has no length clause; "
        "ufo2ft only warns)",
        "CFF 1 with keepGlyphNames=False is documented as unsupported: only the table oracle applies",
    ]
    trusted_base = ["fontTools sfnt reader/writer, post and CFF charset decoding"]

    def bounds(self, tier):
        if tier == "quick":
            return {"depth": 3, "flavours": ["ttf", "otf", "cff2"], "vf": [], "vf_depth": 0, "all_orders_depth": 0,
                    "full_map_depth": 1}
        return {"depth": 4, "flavours": ["ttf", "otf", "cff2"], "vf": ["vttf", "vcff2"], "vf_depth": 2,
                "all_orders_depth": 3, "full_map_depth": 2}

    def initial(self, b):
        out = [[]]
        # switch product on two glyph sets
        for gs in (0, 1):
            for arg in (None, True, False):
                for fl in b["flavours"]:
                    out.append([{"part": "switch", "glyphs": gs, "arg": arg, "flavour": fl}])
        return out

    def ops(self, h, b):
        if h and isinstance(h[0], dict):
            return []
        used_names = {n for n, _ in h} | set(FIXED_NAMES)
        used_cps = {u for _, u in h if u is not None} | {u for _, u in FIXED if u is not None}
        out = []
        for n, u in ALPHABET:
            if n in used_names or (u is not None and u in used_cps):
                continue
            out.append([n, u])
        return out

    def canon(self, h, b):
        if h and isinstance(h[0], dict):
            return jdump(h)
        # UFO glyph dictionaries are unordered; the glyph ORDER is content, and is covered inside
        # run() (forward / reversed / thorough: all permutations), so states merge as sets
        return jdump(sorted(h, key=jdump))

    def describe(self, h, b):
        return [[n[:20], u] for n, u in h] if not (h and isinstance(h[0], dict)) else h

    # ---------------------------------------------------------------------------------------
    def run(self, h, b):
        from collections import Counter
        ctrs = Counter()
        if h and isinstance(h[0], dict):
            return self.run_switch(h[0], b, ctrs)
        viols, sig = [], []
        added = [tuple(x) for x in h]
        orders = [(False, list(added))]
        if len(added) >= 2:
            orders.append((True, list(added)))
        n_cases = 0
        renamed_any = False
        rot = sum(ALPHABET.index(list(a)) for a in added)
        fam = psmap_family(added)
        for fi, fl in enumerate(b["flavours"]):
            for rev, _ in orders:
                off = self.compile(fl, font_spec(added, rev), useProductionNames=False)
                for mi, (mkind, psmap) in enumerate(fam):
                    # every state sees every map kind; the (map kind, flavour) pairing rotates with the
                    # state so that all pairings occur across the level (thorough: full product)
                    if mkind != "absent" and len(added) > b["full_map_depth"]:
                        if rev or (mi + fi + rot) % len(b["flavours"]) != 0:
                            continue
                    elif rev and mkind not in ("absent", "dup2"):
                        continue
                    spec = font_spec(added, rev, psmap)
                    on = self.compile(fl, spec, useProductionNames=True)
                    n_cases += 1
                    ctrs["pairing_%s_%s" % (mkind, fl)] += 1
                    r = self.judge(off, on, spec, psmap, ctrs, {"flavour": fl, "map": mkind},
                                   {"added": [list(a) for a in added], "reversed": rev, "psmap": psmap})
                    viols += r[0]
                    sig.append(r[1])
                    renamed_any = renamed_any or r[2]
        # thorough: every glyph order of the added glyphs (names only depend on order and content)
        if 2 < len(added) <= b["all_orders_depth"]:
            for perm in itertools.permutations(added):
                if list(perm) in (list(added), list(reversed(added))):
                    continue
                spec = font_spec(list(perm))
                off = self.compile("ttf", spec, useProductionNames=False)
                on = self.compile("ttf", spec, useProductionNames=True)
                n_cases += 1
                ctrs["extra_orders"] += 1
                r = self.judge(off, on, spec, None, ctrs, {"flavour": "ttf", "map": "absent"},
                               {"added": [list(a) for a in perm], "psmap": None})
                viols += r[0]
                sig.append(r[1])
        # variable fonts
        if b["vf"] and len(added) <= b["vf_depth"]:
            for vfl in b["vf"]:
                for mkind, psmap in psmap_family(added)[:3]:
                    off = self.compile_vf(vfl, added, psmap, False)
                    on = self.compile_vf(vfl, added, psmap, True)
                    n_cases += 1
                    ctrs["vf_cases"] += 1
                    r = self.judge(off, on, font_spec(added, False, psmap), psmap, ctrs,
                                   {"flavour": vfl, "map": mkind},
                                   {"added": [list(a) for a in added], "psmap": psmap})
                    viols += r[0]
                    sig.append(r[1])
        return Result(viols[:10], dict(ctrs), digest(sig), substates=n_cases,
                      nontrivial=n_cases if renamed_any else 0)

    @staticmethod
    def compile(flavour, spec, **kw):
        import ufo2ft
        font = B.build_font(spec)
        return save_reload(FLAVOURS[flavour](ufo2ft, font, **kw))

    @staticmethod
    def compile_vf(vfl, added, psmap, use, lib=None):
        import ufo2ft
        m0 = B.build_font(font_spec(added, False, psmap, lib))
        m1 = B.build_font(font_spec(added, False, psmap, lib, shift=40))
        m1.info.styleName = "Bold"
        ds = B.build_designspace(
            [{"name": "Weight", "tag": "wght", "min": 400, "default": 400, "max": 700}],
            [{"font": m0, "location": {"Weight": 400}}, {"font": m1, "location": {"Weight": 700}}])
        if vfl == "vttf":
            tt = ufo2ft.compileVariableTTF(ds, useProductionNames=use)
        else:
            tt = ufo2ft.compileVariableCFF2(ds, useProductionNames=use, optimizeCFF=0)
        return save_reload(tt)

    def judge(self, off, on, spec, psmap, ctrs, feat, detail, expect_rename=True, keep=True):
        """Compare the off/on binaries and check the final names.  -> (violations, signature, renamed?)"""
        viols = []
        for kind, d in compare_binaries(off, on, ctrs):
            f = dict(feat)
            if "table" in d:
                f["table"] = d["table"]
            viols.append(violation(kind, f, **dict(detail, **d)))
        order_src = spec["order"]
        final = on.getGlyphOrder()
        src_seen = off.getGlyphOrder()
        renamed = False
        cff1 = "CFF " in on
        if src_seen != order_src:
            viols.append(violation("source-names-changed-without-production-names", dict(feat),
                                   expected=order_src, observed=src_seen, **detail))
        if not keep and not cff1:
            # names dropped: post format 3
            if on["post"].formatType != 3.0:
                viols.append(violation("post-format", dict(feat, expected=3.0), observed=on["post"].formatType,
                                       **detail))
            ctrs["post_format_3"] += 1
        elif not keep and cff1:
            ctrs["cff1_keep_false_unsupported"] += 1
        else:
            if not cff1 and on["post"].formatType != 2.0:
                viols.append(violation("post-format", dict(feat, expected=2.0), observed=on["post"].formatType,
                                       **detail))
            if expect_rename:
                glyphs = source_cps(spec)
                for kind, d in check_names(order_src, final, glyphs, psmap, ctrs):
                    viols.append(violation(kind, dict(feat, rule=d.get("rule", "")), **dict(detail, **d)))
                renamed = final != order_src
            elif final != order_src:
                viols.append(violation("renamed-although-switched-off", dict(feat), expected=order_src,
                                       observed=final, **detail))
        return viols, (feat["flavour"], feat["map"], final), renamed

    def run_switch(self, c, b, ctrs):
        """Full product of the lib switches for one value of the argument."""
        import ufo2ft
        added = [("A", 0x41), ("A.alt", None)] if c["glyphs"] == 0 else [("a-b", 0x1F600), ("f_i", None), ("X", 0xFFFF)]
        viols, sig = [], []
        n = 0
        arg = c["arg"]
        for fl in [c["flavour"]]:
            for mkind, psmap in (("absent", None), ("legal", {added[0][0]: "Prod.name"})):
                base = self.compile(fl, font_spec(added, False, psmap), useProductionNames=False)
                for use, dont, keep in itertools.product((None, True, False), repeat=3):
                    lib = {}
                    if use is not None:
                        lib[USE_KEY] = use
                    if dont is not None:
                        lib[GLYPHS_KEY] = dont
                    if keep is not None:
                        lib[KEEP_KEY] = keep
                    spec = font_spec(added, False, psmap, lib)
                    on = self.compile(fl, spec, useProductionNames=arg)
                    want_rename, want_keep = decide_switches(arg, lib, psmap is not None)
                    n += 1
                    ctrs["switch_cases"] += 1
                    ctrs["switch_rename" if want_rename else "switch_no_rename"] += 1
                    r = self.judge(base, on, spec, psmap, ctrs, {"flavour": fl, "map": mkind, "part": "switch"},
                                   {"arg": arg, "lib": lib, "psmap": psmap, "added": [list(a) for a in added]},
                                   expect_rename=want_rename, keep=want_keep)
                    viols += r[0]
                    sig.append(r[1])
                    if want_rename and want_keep and not r[2]:
                        viols.append(violation("not-renamed-although-switched-on",
                                               {"flavour": fl, "map": mkind, "part": "switch"},
                                               arg=arg, lib=lib, observed=on.getGlyphOrder()))
        return Result(viols[:10], dict(ctrs), digest(sig), substates=n, nontrivial=n)

    def finish(self, b, summary):
        c = summary["counters"]
        out = []
        for k in ("glyphs_renamed", "unique_suffix_added", "astral_u_names", "code_point_FFFF", "has_GPOS",
                  "has_GSUB", "has_GDEF", "post_format_3", "name_map", "name_map-illegal", "name_rule",
                  "cff_charstrings_compared", "names_over_63"):
            if not c.get(k):
                out.append(violation("non-vacuity", {"counter": k}, expected=">0", observed=0))
        return out


PROPERTY = C11()
