"""Inputs and the in-subprocess executor of C08 (purity: output is a function of content+options).

Run as a module in a FRESH interpreter with an explicit PYTHONHASHSEED:
    python -m props.purity_inputs   < job.json   > result.json
job = {"input": name, "variants": [variant, ...]}
variant = {"lib": "ufoLib2"|"defcon", "load": "memory"|"disk-lazy"|"disk-eager", "inplace": bool,
           "history": [fn, ...], "perm": int|None}
result = {variant_key: {"font": sha256, "fea": sha256} | {"error": "Type: msg"}}; the digest is of the
LAST call of the history.  Also returns the iteration orders of the tracked name sets.
"""

from __future__ import annotations

import hashlib
import io
import itertools
import json
import os
import sys

F = "com.github.googlei18n.ufo2ft."
TRACKED = {
    "glyphs": ["a", "A-cy", "alpha", "beh-ar"],
    "anchors": ["top", "bottom", "ogonek", "ring"],
    "scripts": ["Latn", "Cyrl", "Grek", "Arab"],
    "groups": ["public.kern1.A", "public.kern1.O", "public.kern2.B"],
    "marks": ["acutecomb", "gravecomb", "cedillacomb", "ringcomb"],
}


def box(x0, y0, x1, y1):
    return [(x0, y0, "line"), (x1, y0, "line"), (x1, y1, "line"), (x0, y1, "line")]


def rich_spec(m=0, perm=None):
    d = 10 * m
    G = {}

    def add(name, uv=None, width=500, anchors=(), comps=None, contours=True):
        g = {"width": width + (d if width else 0), "anchors": list(anchors)}
        if uv is not None:
            g["unicodes"] = [uv]
        if comps:
            g["components"] = comps
        elif contours:
            g["contours"] = [box(10, 0, 90 + d, 100 + d)]
        G[name] = g

    add(".notdef")
    add("space", 0x20, 250, contours=False)
    add("a", 0x61, anchors=[("top", 250 + d, 500), ("bottom", 250, -10), ("ogonek", 400, 0), ("ring", 250, 520),
                            ("entry", 0, 0), ("exit", 500 + d, 0)])
    add("b", 0x62, anchors=[("top", 260, 700 + d), ("bottom", 260, -10), ("entry", 0, 5), ("exit", 510, 0)])
    # 'o' carries a contextual anchor: its context lives in public.objectLibs under the anchor's identifier
    add("o", 0x6F, anchors=[("top", 250, 500), ("ring", 250, 500), ("*top", 300, 640 + d, "ctxTop")])
    G["o"]["lib"] = {"public.objectLibs": {"ctxTop": {"GPOS_Context": "b *"}}}
    add("A-cy", 0x410, anchors=[("top", 300, 700)])
    add("Be-cy", 0x411, anchors=[("top", 310, 700)])
    add("alpha", 0x3B1, anchors=[("top", 255, 500)])
    add("beta", 0x3B2)
    add("alef-ar", 0x627, anchors=[("top", 100, 800), ("exit", 0, 0)])
    add("beh-ar", 0x628, anchors=[("top", 300, 400 + d), ("bottom", 300, -100), ("entry", 600, 0), ("exit", 0, 0)])
    add("ka-deva", 0x915, anchors=[("top", 300, 650)])
    add("one", 0x31)
    add("period", 0x2E)
    add("f_i", None, 700, anchors=[("top_1", 150, 700), ("top_2", 500 + d, 700), ("caret_1", 350 + d, 0)])
    add("acutecomb", 0x301, 0, anchors=[("_top", 0, 550), ("top", 0, 700 + d)])
    add("gravecomb", 0x300, 0, anchors=[("_top", 5, 550), ("top", 5, 700)])
    add("cedillacomb", 0x327, 0, anchors=[("_bottom", 0, 0), ("bottom", 0, -150), ("_ogonek", 0, 0)])
    add("ringcomb", 0x30A, 0, anchors=[("_ring", 0, 500), ("_top", 0, 560)])
    add("fatha-ar", 0x64E, 0, anchors=[("_top", 0, 600)])
    add("aacute", 0xE1, comps=[("a", (1, 0, 0, 1, 0, 0)), ("acutecomb", (1, 0, 0, 1, 250 + d, -50))])
    add("aogonek", 0x105, comps=[("a", (1, 0, 0, 1, 0, 0)), ("cedillacomb", (1, 0, 0, 1, 400, 0))])
    # two composites that share a NESTED composite base (aacute -> a): with a sparse layer holding 'a'
    # both must get a master at the sparse location when they are decomposed
    add("aacute.alt", None, comps=[("aacute", (1, 0, 0, 1, 20 + d, 0))])
    add("aacute.sc", None, comps=[("aacute", (0.5, 0, 0, 0.5, 0, 0))])
    groups = {
        "public.kern1.A": ["a", "A-cy", "alpha", "aacute"],
        "public.kern1.O": ["o", "period"],
        "public.kern2.B": ["b", "Be-cy", "beta", "beh-ar"],
        "public.kern2.One": ["one", "period"],
    }
    kerning = [
        ("public.kern1.A", "public.kern2.B", -30 - d), ("a", "public.kern2.B", -35), ("public.kern1.A", "b", -25),
        ("a", "b", -45), ("public.kern1.O", "public.kern2.One", 12.5), ("alef-ar", "beh-ar", -60),
        ("beh-ar", "public.kern2.B", 15), ("ka-deva", "ka-deva", -20), ("one", "public.kern2.B", -7),
        ("a", "acutecomb", -5), ("period", "period", -9), ("public.kern1.A", "period", -11),
    ]
    cats = {n: "base" for n in G if n not in (".notdef", "space")}
    for n in ("acutecomb", "gravecomb", "cedillacomb", "ringcomb", "fatha-ar"):
        cats[n] = "mark"
    cats["f_i"] = "ligature"
    spec = {"glyphs": G, "order": list(G), "groups": groups, "kerning": kerning,
            "lib": {"public.openTypeCategories": cats}, "info": {"styleName": "Regular" if m == 0 else "Bold"}}
    if perm is not None:
        spec = permuted(spec, perm)
    return spec


def permuted(spec, k):
    """Same content, different construction order (k-th permutation pattern)."""
    import copy
    s = copy.deepcopy(spec)
    # glyph insertion order (public.glyphOrder stays fixed through spec["order"])
    names = list(s["glyphs"])
    head, tail = names[:2], names[2:]
    perms4 = list(itertools.permutations(range(4)))
    p = perms4[k % 24]
    first4 = [tail[i] for i in p] + tail[4:]
    if k >= 24:
        first4 = list(reversed(first4))
    s["glyphs"] = {n: s["glyphs"][n] for n in head + first4}
    # anchors of 'a' (6 anchors: permute the first four)
    an = s["glyphs"]["a"]["anchors"]
    s["glyphs"]["a"]["anchors"] = [an[i] for i in p] + an[4:]
    # kerning and group insertion order
    s["kerning"] = [s["kerning"][i] for i in p] + list(reversed(s["kerning"][4:]))
    gk = list(s["groups"])
    s["groups"] = {gk[i]: [s["groups"][gk[i]][j] for j in (p if len(s["groups"][gk[i]]) == 4 else range(len(s["groups"][gk[i]])))]
                   for i in p}
    s["lib"]["public.openTypeCategories"] = dict(reversed(list(s["lib"]["public.openTypeCategories"].items())))
    return s


USER_FEA = """\
languagesystem DFLT dflt;
languagesystem latn dflt;
languagesystem cyrl dflt;
languagesystem arab dflt;
@lc = [a b o];
feature liga { sub f_i by f_i; } liga;
feature kern {
    pos a a -3;
    # Automatic Code
} kern;
feature mark {
    # Automatic Code
} mark;
"""


def group_marks_spec():
    """Four mark classes whose conflict graph is a path: greedy colouring depends on visiting order."""
    G = {".notdef": {"width": 500, "contours": [box(50, 0, 450, 700)]}}
    G["a"] = {"width": 500, "unicodes": [0x61], "contours": [box(0, 0, 100, 100)],
              "anchors": [("top", 1, 1), ("bottom", 2, 2), ("ogonek", 3, 3), ("ring", 4, 4)]}
    # m1 is in three classes (a triangle in the conflict graph: the order in which its class set is
    # iterated decides which colour MC_ogonek gets, hence which lookup MC_ring joins)
    G["m1"] = {"width": 0, "unicodes": [0x301], "anchors": [("_top", 0, 0), ("_bottom", 0, 1), ("_ogonek", 0, 2)]}
    G["m2"] = {"width": 0, "unicodes": [0x300], "anchors": [("_ogonek", 0, 0), ("_ring", 0, 1)]}
    G["m3"] = {"width": 0, "unicodes": [0x327], "anchors": [("_ring", 0, 0)]}
    G["m4"] = {"width": 0, "unicodes": [0x30A], "anchors": [("_bottom", 0, 0), ("_top", 1, 1)]}
    return {"glyphs": G, "order": list(G),
            "lib": {F + "featureWriters": [{"class": "KernFeatureWriter"},
                                           {"class": "MarkFeatureWriter", "options": {"groupMarkClasses": True}}]}}


def math_spec():
    s = rich_spec()
    s["lib"]["com.nagwa.MATHPlugin.constants"] = {"ScriptPercentScaleDown": 70, "MinConnectorOverlap": 20}
    s["lib"]["com.nagwa.MATHPlugin.extendedShape"] = ["o"]
    s["glyphs"]["o"].setdefault("lib", {})["com.nagwa.MATHPlugin.variants"] = {"vVariants": ["o", "b"]}
    return s


def classkern_spec(m=0, perm=None):
    """26 x 26 kerning classes with sparse class-to-class kerning (what GPOS compaction is made for)."""
    d = 10 * m
    letters = [chr(ord("A") + i) for i in range(26)]
    G = {".notdef": {"width": 500}}
    groups, kerning = {}, []
    for i, c in enumerate(letters):
        for suffix in ("", ".alt"):
            g = {"width": 500 + d, "contours": [box(50, 0, 450 + d, 700)]}
            if not suffix:
                g["unicodes"] = [ord(c)]
            G[c + suffix] = g
        groups["public.kern1." + c] = [c, c + ".alt"]
        groups["public.kern2." + c] = [c, c + ".alt"]
    for i, left in enumerate(letters):
        for j in (i, (i + 1) % 26, (i + 7) % 26):
            kerning.append(("public.kern1." + left, "public.kern2." + letters[j], -10 - i - j - m))
    return {"glyphs": G, "order": list(G), "groups": groups, "kerning": kerning,
            "info": {"styleName": "Regular" if m == 0 else "Bold"}, "lib": {}}


STATIC = ["compileTTF", "compileOTF", "compileOTF-cff2"]
DSFN = ["compileVariableTTF", "compileVariableCFF2", "compileInterpolatableTTFsFromDS"]
# static compile of the default master of a designspace (after the variable build has run on the same objects)
DSFN_INFO = ["compileVariableTTF", "compileVariableCFF2", "compileTTF-master0"]

def colrv1_spec():
    """COLRv1 colour glyphs given explicitly through the colorLayers lib key, whose dict lists 'b'
    before 'a': in memory the dict keeps that order, a lib.plist written to disk has sorted keys."""
    G = {".notdef": {"width": 500}, "space": {"width": 250, "unicodes": [0x20]}}
    for i, n in enumerate(("a", "b", "a.c1", "a.c2", "b.c1", "b.c2")):
        G[n] = {"width": 600, "contours": [box(50 + 10 * i, 0, 400 + 10 * i, 300 + 20 * i)]}
        if len(n) == 1:
            G[n]["unicodes"] = [ord(n)]

    def solid(g, pi):
        return {"Format": 10, "Glyph": g, "Paint": {"Format": 2, "PaletteIndex": pi, "Alpha": 1.0}}
    layers = {}
    layers["b"] = {"Format": 1, "Layers": [solid("b.c1", 1), solid("b.c2", 0)]}
    layers["a"] = {"Format": 1, "Layers": [solid("a.c1", 0), solid("a.c2", 1)]}
    return {"glyphs": G, "order": list(G),
            "lib": {F + "colorPalettes": [[(1.0, 0.3, 0.1, 1.0), (0.0, 0.4, 0.8, 1.0)]], F + "colorLayers": layers}}


INPUTS = {
    "colrv1": {"kind": "static", "specs": lambda perm=None: [colrv1_spec()]},
    "rich": {"kind": "static", "specs": lambda perm=None: [rich_spec(0, perm)]},
    "rich+fea": {"kind": "static", "specs": lambda perm=None: [dict(rich_spec(0, perm), features=USER_FEA)]},
    "propagate": {"kind": "static", "specs": lambda perm=None: [_propagate_spec(perm)]},
    "groupmarks": {"kind": "static", "specs": lambda perm=None: [group_marks_spec()]},
    "prodnames": {"kind": "static", "specs": lambda perm=None: [_prodnames_spec(perm)], "opts": {"useProductionNames": True}},
    "math": {"kind": "static", "specs": lambda perm=None: [math_spec()]},
    "ds2": {"kind": "ds", "specs": lambda perm=None: [rich_spec(0, perm), rich_spec(1, perm)], "locs": [400, 700]},
    "ds2+info": {"kind": "ds", "specs": lambda perm=None: [rich_spec(0, perm), rich_spec(1, perm)], "locs": [400, 700],
                 "fns": DSFN_INFO,
                 "dslib": {"public.fontInfo": {"familyName": "Override", "versionMajor": 7, "ascender": 950,
                                               "openTypeOS2TypoAscender": 940, "italicAngle": -9}}},
    "ds2+ftconfig": {"kind": "ds", "specs": lambda perm=None: [classkern_spec(0), classkern_spec(1)],
                     "locs": [400, 700], "fns": DSFN_INFO, "ftconfig": True},
    "ds3sparse": {"kind": "ds", "specs": lambda perm=None: [rich_spec(0, perm), rich_spec(1, perm)], "locs": [400, 700],
                  "sparse": 550},
}


def _propagate_spec(perm):
    s = rich_spec(0, perm)
    s["lib"][F + "filters"] = [{"name": "propagateAnchors", "pre": True}]
    # a "ligature mark" made of two marks without anchors of its own: the filter promotes the
    # component closest to the origin to a base.  brevecomb's exact bounds are farther from the origin
    # than acutecomb's, its control points are nearer (exact vs control bounds rank them differently)
    s["glyphs"]["brevecomb"] = {
        "width": 0, "unicodes": [0x306],
        "contours": [[(20, 50, "line"), (0, 0, None), (100, 0, None), (80, 50, "curve"), (80, 90, "line"),
                      (20, 90, "line")]],
        "anchors": [("_top", 50, 40), ("top", 50, 120)]}
    s["glyphs"]["acutecomb_brevecomb"] = {
        "width": 0, "components": [("acutecomb", (1, 0, 0, 1, 0, 0)), ("brevecomb", (1, 0, 0, 1, 0, 0))]}
    s["order"] = list(s["glyphs"])
    s["lib"]["public.openTypeCategories"]["brevecomb"] = "mark"
    s["lib"]["public.openTypeCategories"]["acutecomb_brevecomb"] = "mark"
    return s


def _prodnames_spec(perm):
    s = rich_spec(0, perm)
    s["lib"]["public.postscriptNames"] = {"a": "uni0061", "A-cy": "afii10017"}
    return s


def build(input_name, variant):
    from mc import ufo_build as B
    inp = INPUTS[input_name]
    specs = inp["specs"](variant.get("perm"))
    lib, load = variant["lib"], variant["load"]

    def mk(spec, i):
        font = B.build_font(spec, lib)
        if load != "memory":
            font = B.save_and_reopen(font, lib, lazy=(load == "disk-lazy"), name=f"m{i}.ufo")
        return font

    if inp["kind"] == "static":
        return mk(specs[0], 0)
    fonts = [mk(s, i) for i, s in enumerate(specs)]
    sources = [{"font": fonts[0], "location": {"Weight": inp["locs"][0]}, "name": "m0"},
               {"font": fonts[1], "location": {"Weight": inp["locs"][1]}, "name": "m1"}]
    if inp.get("sparse"):
        f0 = fonts[0]
        layer = f0.newLayer("mid")
        for n in ("a", "b"):
            g = layer.newGlyph(n)
            src = f0[n]
            g.width = src.width + 3
            pen = g.getPointPen()
            src.drawPoints(pen)
        sources.insert(1, {"font": f0, "layerName": "mid", "location": {"Weight": inp["sparse"]}, "name": "mid"})
    return B.build_designspace([{"name": "Weight", "tag": "wght", "min": 400, "default": 400, "max": 700}],
                               sources, module=lib, lib=inp.get("dslib"))


def call(fn, src, inplace, opts):
    import ufo2ft
    buf = io.StringIO()
    kw = dict(opts)
    kw["inplace"] = inplace
    if fn == "compileTTF-master0":
        out = ufo2ft.compileTTF(src.sources[0].font, debugFeatureFile=buf, **kw)
    elif fn == "compileOTF-cff2":
        out = ufo2ft.compileOTF(src, cffVersion=2, debugFeatureFile=buf, **kw)
    elif fn == "compileInterpolatableTTFsFromDS":
        ds = ufo2ft.compileInterpolatableTTFsFromDS(src, debugFeatureFile=buf, **kw)
        out = [s.font for s in ds.sources]
    else:
        out = getattr(ufo2ft, fn)(src, debugFeatureFile=buf, **kw)
    fonts = out if isinstance(out, list) else [out]
    h = hashlib.sha256()
    for f in fonts:
        b = io.BytesIO()
        f.save(b)
        h.update(b.getvalue())
    return {"font": h.hexdigest()[:24], "fea": hashlib.sha256(buf.getvalue().encode()).hexdigest()[:24]}


def vkey(v):
    return json.dumps(v, sort_keys=True)


def main():
    import logging
    import warnings
    warnings.simplefilter("ignore")
    logging.disable(logging.CRITICAL)
    job = json.load(sys.stdin)
    out = {"orders": {k: list(set(v)) for k, v in TRACKED.items()}, "results": {},
           "hashseed": os.environ.get("PYTHONHASHSEED")}
    opts = dict(INPUTS[job["input"]].get("opts", {}))
    for v in job["variants"]:
        try:
            if INPUTS[job["input"]].get("ftconfig"):
                # ONE options object kept by the caller for all calls of the history
                from fontTools.otlLib.optimize.gpos import COMPRESSION_LEVEL
                opts["ftConfig"] = {COMPRESSION_LEVEL: 9}
            src = build(job["input"], v)
            res = None
            for i, fn in enumerate(v["history"]):
                last = i == len(v["history"]) - 1
                # inplace is only requested for the last call (on objects that saw the history)
                try:
                    res = call(fn, src, v["inplace"] and last, opts)
                except Exception as e:
                    res = {"error": f"{type(e).__name__}: {str(e)[:200]}"}
                    if not last:
                        continue
            out["results"][vkey(v)] = res
        except Exception as e:  # construction failed
            out["results"][vkey(v)] = {"error": f"harness:{type(e).__name__}: {str(e)[:200]}"}
    json.dump(out, sys.stdout)


if __name__ == "__main__":
    main()
