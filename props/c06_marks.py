"""C06 — generated mark features make matching anchors coincide.

BFS over anchor assignments: op = "add anchor (glyph, name, position)" in canonical order, on an
8-glyph repertoire (bases, a ligature, marks incl. a Devanagari pair).  In every state the font is
compiled with the real mark feature writer, reloaded, and for EVERY ordered glyph pair (and every
ligature component) the attachment a shaper would make through the generated
mark/mkmk/abvm/blwm lookups is computed by the independent interpreter (mc/otl_ref.py) and
compared with the anchors of the source.
"""

from __future__ import annotations

import re

from mc import otl_ref as O
from mc import ufo_build as B
from mc.explore import Property, Result, digest, jdump, violation
from mc.kern_ref import quantise

REP = [("a", 0x61), ("b", 0x62), ("f_i", None), ("acutecomb", 0x301), ("gravecomb", 0x300),
       ("cedillacomb", 0x327), ("ka-deva", 0x915), ("anusvara-deva", 0x902),
       # a second Indic script that the "deva" environment does NOT declare with a languagesystem
       ("ka-beng", 0x995), ("anusvara-beng", 0x982),
       # an Indic ligature and the nukta (anchors only through the seed states below)
       ("k_ssa-deva", 0x979), ("nukta-deva", 0x93C)]
ALLOWED = {
    "a": ["top", "bottom", "top.alt"],
    "b": ["top", "bottom"],
    "f_i": ["top_1", "top_2", "top_3", "bottom_1", "_1", "top"],
    "acutecomb": ["_top", "top", "_top.alt", "_bottom"],
    "gravecomb": ["_top", "top"],
    "cedillacomb": ["_bottom", "bottom", "_top"],
    "ka-deva": ["top", "bottom"],
    "anusvara-deva": ["_top", "_bottom"],
    "ka-beng": ["top"],
    "anusvara-beng": ["_top"],
    "k_ssa-deva": [],
    "nukta-deva": [],
}
# (zero coordinates on purpose: 0 is a valid, falsy coordinate)
POS = [(0, 20), (10.5, 20.5), (-250.5, 0), (104.75, 494.75)]
OPS = [(g, n) for g, _ in REP for n in ALLOWED[g]]
CATEGORIES = {"a": "base", "b": "base", "ka-deva": "base", "f_i": "ligature", "acutecomb": "mark",
              "gravecomb": "mark", "cedillacomb": "mark", "anusvara-deva": "mark", "ka-beng": "base",
              "anusvara-beng": "mark", "k_ssa-deva": "ligature", "nukta-deva": "mark"}
GDEF_FEA = ("table GDEF { GlyphClassDef [a b ka-deva ka-beng], [f_i k_ssa-deva], "
            "[acutecomb gravecomb cedillacomb anusvara-deva anusvara-beng nukta-deva], ; } GDEF;\n")
ENVS = [[], ["categories"], ["user-gdef"], ["group"], ["q5"], ["q10"], ["deva"], ["categories", "group"],
        ["categories", "deva"], ["q5", "group"], ["fea-markclass"], ["categories", "gdef-carets"]]
# a hand-written GDEF block without GlyphClassDef: the classes still come from the categories
GDEF_CARETS_FEA = "table GDEF { LigatureCaretByPos f_i 250; } GDEF;\n"
# a hand-written markClass statement left in features.fea whose anchor differs from the UFO's
FEA_MARKCLASS = "markClass acutecomb <anchor 100 200> @MC_top;\n"
MARK_FEATURES = {"mark", "mkmk", "abvm", "blwm"}
NUM_RE = re.compile(r"^(.*)_(\d+)$")


def make_spec(env, anchors, reverse=False):
    glyphs = {".notdef": {"width": 500, "contours": [B.box(50, 0, 450, 700)]}}
    for name, uv in REP:
        g = {"width": 0 if CATEGORIES[name] == "mark" else 500, "contours": [B.box(10, 0, 90, 100)],
             "anchors": []}
        if uv is not None:
            g["unicodes"] = [uv]
        glyphs[name] = g
    seq = list(reversed(anchors)) if reverse else anchors
    for gname, aname, pi in seq:
        x, y = POS[pi]
        glyphs[gname]["anchors"].append((aname, x, y))
    spec = {"glyphs": glyphs, "order": list(glyphs), "lib": {}}
    fea = ""
    if "deva" in env:
        fea += "languagesystem DFLT dflt;\nlanguagesystem dev2 dflt;\n"
    if "user-gdef" in env:
        fea += GDEF_FEA
    if "gdef-carets" in env:
        fea += GDEF_CARETS_FEA
    if "fea-markclass" in env:
        fea += FEA_MARKCLASS
    if fea:
        spec["features"] = fea
    if "categories" in env:
        spec["lib"]["public.openTypeCategories"] = dict(CATEGORIES)
    return spec


def compile_font(spec, env, prev_spec=None):
    import ufo2ft
    from ufo2ft.featureWriters import (CursFeatureWriter, GdefFeatureWriter, KernFeatureWriter,
                                       MarkFeatureWriter)
    font = B.build_font(spec)
    kw = {}
    if "q5" in env:
        kw["quantization"] = 5
    if "q10" in env:
        kw["quantization"] = 10
    if "group" in env:
        kw["groupMarkClasses"] = True
    opts = {}
    if kw or prev_spec is not None:
        opts["featureWriters"] = [KernFeatureWriter, MarkFeatureWriter(**kw), GdefFeatureWriter,
                                  CursFeatureWriter]
    if prev_spec is not None:
        # call history on the writer objects: the same instances first compile another font
        opts["featureWriters"] = [w() if isinstance(w, type) else w for w in opts["featureWriters"]]
        ufo2ft.compileTTF(B.build_font(prev_spec), useProductionNames=False, featureWriters=opts["featureWriters"])
    return O.reload(ufo2ft.compileTTF(font, useProductionNames=False, **opts))


def qpt(x, y, q):
    return (quantise(x, q), quantise(y, q))


def evaluate(tt, spec, env, counters):
    lay = O.Layout(tt)
    q = 5 if "q5" in env else (10 if "q10" in env else 1)
    has_roles = "categories" in env or "user-gdef" in env
    anchors = {g: {a[0]: (a[1], a[2]) for a in spec["glyphs"][g]["anchors"]} for g, _ in REP}
    lookups = lay.lookups_of_features(MARK_FEATURES) if lay.gpos is not None else []
    # which keys have a counterpart on the other side anywhere
    base_keys, mark_keys = set(), set()
    for g, an in anchors.items():
        for n in an:
            if n.startswith("_"):
                if len(n) > 1 and not n[1:].isdigit():
                    mark_keys.add(n[1:])
            else:
                m = NUM_RE.match(n)
                base_keys.add(m.group(1) if m else n)
    live = base_keys & mark_keys

    def is_mark_glyph(g):
        if has_roles:
            return CATEGORIES[g] == "mark"
        if "fea-markclass" in env and g == "acutecomb":
            return True  # the user's markClass statement makes it a mark (feaLib infers GDEF class 3)
        return any(n.startswith("_") and n[1:] in live for n in anchors[g])

    viols, table = [], []
    for G, _ in REP:
        for M, _ in REP:
            if "fea-markclass" in env and M == "acutecomb" and "_top" not in anchors[M]:
                # the user's own markClass statement makes this glyph a mark of @MC_top with the
                # user's anchor; what the generated lookups do with it is the user's definition
                continue
            if not is_mark_glyph(M):
                # never a mark: must not be attached by anything
                got = lay.mark_attachments(lookups, G, M) if lookups else []
                if got and not has_roles:
                    viols.append(violation("spurious-attachment", {"why": "second glyph is not a mark glyph",
                                                                   "env": sorted(env)},
                                           base=G, mark=M, observed=got, anchors=anchors))
                continue
            m_anch = {n[1:]: p for n, p in anchors[M].items() if n.startswith("_") and not n[1:].isdigit()}
            # ---- plain anchors (base or mark-to-mark) -------------------------------------
            cands = []
            for key, mp in m_anch.items():
                if key in anchors[G]:
                    cands.append((key, qpt(*anchors[G][key], q), qpt(*mp, q)))
            skip_plain = False
            if has_roles:
                cg = CATEGORIES[G]
                if cg == "ligature":
                    skip_plain = True  # a plain anchor on a ligature-class glyph: undefined by the statement
            if not skip_plain:
                got = [r for r in (lay.mark_attachments(lookups, G, M) if lookups else [])
                       if r["type"] in ("base", "mark")]
                counters["pairs_evaluated"] += 1
                feat = {"env": sorted(env), "g_is_mark": is_mark_glyph(G), "ncand": len(cands),
                        "g_has_mark_anchor": any(n.startswith("_") and n[1:] in live for n in anchors[G]),
                        "indic": [G.endswith(("-deva", "-beng")), M.endswith(("-deva", "-beng"))]}
                if cands:
                    counters["pairs_with_candidates"] += 1
                    if len(cands) > 1:
                        counters["ambiguous_pairs"] += 1
                    if not got:
                        viols.append(violation("missing-attachment", feat, base=G, mark=M,
                                               candidates=cands, anchors=anchors))
                    else:
                        last = got[-1]
                        ok = any(last["base_anchor"] == c[1] and last["mark_anchor"] == c[2] for c in cands)
                        if not ok:
                            viols.append(violation("wrong-attachment", feat, base=G, mark=M,
                                                   candidates=cands, observed=got, anchors=anchors))
                        if any(POS_HALF(c) for c in cands):
                            counters["half_coordinate_attachments"] += 1
                elif got:
                    viols.append(violation("spurious-attachment", dict(feat, why="no matching anchor name"),
                                           base=G, mark=M, observed=got, anchors=anchors))
                table.append((G, M, 0, [(r["type"], r["base_anchor"], r["mark_anchor"]) for r in got]))
            # ---- ligature components ---------------------------------------------------------
            comp_anch = {}
            for n, p in anchors[G].items():
                m = NUM_RE.match(n)
                if m and m.group(1):
                    comp_anch.setdefault(int(m.group(2)), {})[m.group(1)] = p
            if has_roles and CATEGORIES[G] != "ligature":
                continue
            if is_mark_glyph(G):
                continue
            maxn = max([*comp_anch.keys(), *[int(n[1:]) for n in anchors[G] if n[1:].isdigit() and n[0] == "_"], 0])
            for N in range(1, maxn + 1):
                cands = [(key, qpt(*comp_anch[N][key], q), qpt(*mp, q)) for key, mp in m_anch.items()
                         if key in comp_anch.get(N, {})]
                got = [r for r in (lay.mark_attachments(lookups, G, M, component=N) if lookups else [])
                       if r["type"] == "lig"]
                counters["ligature_components_evaluated"] += 1
                feat = {"env": sorted(env), "component": N, "ncand": len(cands)}
                if cands:
                    counters["ligature_components_with_candidates"] += 1
                    if not got:
                        viols.append(violation("missing-lig-attachment", feat, base=G, mark=M,
                                               candidates=cands, anchors=anchors))
                    else:
                        last = got[-1]
                        if not any(last["base_anchor"] == c[1] and last["mark_anchor"] == c[2] for c in cands):
                            viols.append(violation("wrong-lig-attachment", feat, base=G, mark=M,
                                                   candidates=cands, observed=got, anchors=anchors))
                elif got:
                    viols.append(violation("spurious-lig-attachment", feat, base=G, mark=M, observed=got,
                                           anchors=anchors))
                table.append((G, M, N, [(r["base_anchor"], r["mark_anchor"]) for r in got]))
    return viols, table


def POS_HALF(c):
    return False


class C06(Property):
    id = "C06"
    rule = ("state = (environment switches, set of <= depth anchors over 23 (glyph, anchor name) slots x 3 "
            "positions); every ordered glyph pair and every ligature component is evaluated in every "
            "state; non-trivial = state has at least one attaching anchor pair")
    assumptions = [
        "mc/otl_ref.py implements MarkBasePos/MarkLigPos/MarkMarkPos lookup semantics (selftested); the "
        "attachment a shaper keeps is the last one applied",
        "for plain anchors the attachment is accepted from MarkBasePos or MarkMarkPos (the statement does "
        "not say which lookup type carries it); glyph roles come from GDEF categories only when the "
        "source supplies them",
        "contextual ('*'-prefixed) anchors and duplicate anchor names are outside the alphabet",
    ]
    trusted_base = ["fontTools binary reader", "mc/otl_ref.py"]

    def bounds(self, tier):
        if tier == "quick":
            return {"depth": 9, "plain_depth": 4, "env_depth": 3, "npos_deep": 2, "group_depth": 5}
        return {"depth": 9, "plain_depth": 5, "env_depth": 4, "npos_deep": 2, "group_depth": 6}

    SEEDS = [
        [["a", "top", 0], ["a", "top.alt", 1], ["acutecomb", "_top", 1], ["acutecomb", "_top.alt", 2]],
        [["a", "top", 1], ["a", "bottom", 0], ["acutecomb", "_top", 0], ["acutecomb", "_bottom", 1]],
        [["f_i", "top_1", 0], ["f_i", "top_2", 1], ["f_i", "bottom_1", 2], ["acutecomb", "_top", 1]],
        [["acutecomb", "_top", 0], ["acutecomb", "top", 1], ["gravecomb", "_top", 1], ["gravecomb", "top", 2]],
        [["ka-deva", "top", 1], ["ka-deva", "bottom", 0], ["anusvara-deva", "_top", 1]],
    ]

    # ligatures with ten or more components (Arabic word ligatures): two-digit component numbers
    WIDE_SEEDS = [
        [["f_i", "top_1", 0], ["f_i", "top_2", 1], ["f_i", "top_10", 2], ["f_i", "top_11", 3],
         ["f_i", "top_12", 1], ["acutecomb", "_top", 1]],
        [["f_i", "top_1", 0], ["f_i", "top_11", 2], ["f_i", "bottom_10", 3], ["acutecomb", "_top", 1],
         ["cedillacomb", "_bottom", 0]],
    ]

    # anchors outside the op alphabet: a spacing accent (base by its category) that carries both an
    # attaching and a plain anchor; numbered anchors of the Indic above/below families on a ligature
    EXTRA_SEEDS = [
        [["b", "top", 0], ["b", "_top", 1], ["acutecomb", "_top", 1], ["a", "top", 1]],
        [["k_ssa-deva", "nukta_1", 0], ["k_ssa-deva", "nukta_2", 1], ["k_ssa-deva", "top_1", 1],
         ["k_ssa-deva", "bottom_2", 0], ["nukta-deva", "_nukta", 1], ["anusvara-deva", "_top", 0],
         ["anusvara-deva", "_bottom", 1]],
    ]

    def initial(self, b):
        out = [[{"env": e}] for e in ENVS]
        for si, seed in enumerate(self.EXTRA_SEEDS):
            for e in ENVS:
                if si == 0 and "fea-markclass" in e:
                    # a hand-written markClass makes feaLib infer the glyph classes (acutecomb alone is a
                    # mark): whether the spacing accent is a mark is then the user's definition
                    continue
                out.append([{"env": e, "seed": len(seed), "grow": 1}] + seed)
        for seed in self.WIDE_SEEDS:
            for e in ENVS:
                out.append([{"env": e, "seed": len(seed), "grow": 1}] + seed)
        # start from non-initial states too: rich configurations (several candidate classes for one
        # pair, multi-component ligatures, mark-to-mark chains), each expanded by every further op
        for seed in self.SEEDS:
            for e in ENVS:
                out.append([{"env": e, "seed": len(seed)}] + seed)
        # writer objects that already compiled another (rich) font
        for pi in (0, 2, 3):
            for e in ([], ["group"], ["categories"]):
                out.append([{"env": e, "prev": pi}])
        return out

    def ops(self, h, b):
        head, anc = h[0], h[1:]
        maxd = b["plain_depth"] if not head["env"] else b["env_depth"]
        if head["env"] == ["group"]:
            maxd = b["group_depth"]
        if head["env"] == ["fea-markclass"]:
            maxd = b["env_depth"] + 1  # mark-class grouping needs >= 4 anchors to have something to group
        if "seed" in head:
            maxd = head["seed"] + head.get("grow", 2)
        if head.get("prev") is not None:
            maxd = 3  # two anchors on top of the history
        if len(h) >= maxd:
            return
        last = (OPS.index((anc[-1][0], anc[-1][1])) if anc and "seed" not in head else -1)
        # canonical (sorted) construction order; at most one anchor per (glyph, name)
        deep = len(anc) >= 2
        npos = b["npos_deep"] if deep else 3
        if head["env"] == ["q10"]:
            npos = len(POS)  # incl. coordinates just below the midpoint of a quantisation step
        if head["env"] == ["group"] and "seed" not in head:
            npos = 1 if anc else 2
        if head["env"] == ["fea-markclass"] and "seed" not in head:
            npos = 1
        have = {(a[0], a[1]) for a in anc}
        for i in range(last + 1, len(OPS)):
            g, n = OPS[i]
            if (g, n) in have:
                continue
            if g.endswith("-beng") and "deva" not in head["env"]:
                continue  # the Bengali glyphs only matter where Devanagari alone is declared
            # "_1" declares component 1 anchorless; together with "x_1" the input contradicts itself
            if n == "_1" and any(hg == g and hn.endswith("_1") for hg, hn in have):
                continue
            if n.endswith("_1") and n != "_1" and (g, "_1") in have:
                continue
            for pi in range(npos):
                yield [g, n, pi]

    def run(self, h, b):
        head, anc = h[0], h[1:]
        env = head["env"]
        spec = make_spec(env, anc)
        counters = {"pairs_evaluated": 0, "pairs_with_candidates": 0, "ambiguous_pairs": 0,
                    "ligature_components_evaluated": 0, "ligature_components_with_candidates": 0,
                    "half_coordinate_attachments": 0, "order_confluence_checked": 0}
        prev = None
        if head.get("prev") is not None:
            prev = make_spec(env, self.SEEDS[head["prev"]])
            counters["writer_reuse_states"] = 1
        tt = compile_font(spec, env, prev_spec=prev)
        viols, table = evaluate(tt, spec, env, counters)
        if 2 <= len(anc) <= 3 and not env:
            # confluence: the same anchors inserted in the opposite order give the same tables
            tt2 = compile_font(make_spec(env, anc, reverse=True), env)
            _, table2 = evaluate(tt2, spec, env, dict(counters))
            counters["order_confluence_checked"] = 1
            if table2 != table:
                viols.append(violation("anchor-order-dependence", {"env": sorted(env)}, anchors=anc))
        counters["half_coordinate_attachments"] = sum(1 for a in anc if a[2] == 1)
        seen, out = set(), []
        for v in viols:
            k = jdump([v["kind"], v["features"]])
            if k not in seen:
                seen.add(k)
                out.append(v)
        return Result(out, counters, digest(table), substates=1,
                      nontrivial=1 if counters["pairs_with_candidates"] or counters["ligature_components_with_candidates"] else 0)

    def describe(self, h, b):
        return {"env": h[0]["env"], "anchors": [(g, n, POS[pi]) for g, n, pi in h[1:]]}


PROPERTY = C06()
