"""C15 — component/transform filters preserve rendering; anchors follow components.

Seam: the filter classes called directly (`filter(font)` in place, `filter(font, glyphSet)` on a
copied glyph set, `ifilter([fonts])` for the interpolatable variants) on real ufoLib2 / defcon fonts
built by mc.ufo_build.  Before and after every call the live glyph objects are read back into plain
specs (mc.glyphspec.spec_from_glyphset) and the independent resolver mc.outline_ref.resolve is
evaluated on both.

Parts of the (finite, completely enumerated) space:
  decomp         component tries (every chain of depth <= d over the transform palette, three
                 variants) x {Decompose, DecomposeTransformed, Flatten} x {plain, interpolatable}
  xform-graph    Transformations: 360 option sets x every include subset of a 3-chain and a diamond
  xform-trie     Transformations on the tries, a few option sets x include modes (compensation algebra
                 under every palette transform)
  xform-misc     empty / anchors-only / contour-only glyphs under all 360 option sets
  anchors-trie   PropagateAnchors (+I) on the tries with anchors on bases and on some composites
  anchors-marks  PropagateAnchors on base+mark composites: anchor subsets x transforms x categories
"""

from __future__ import annotations

import itertools
import os
import math

from mc import outline_ref as R
from mc import ufo_build as B
from mc.explore import Property, Result, digest, jdump, violation
from mc.glyphspec import contour_multiset, spec_from_glyphset

SMALLBOX = [(300, 300, "line"), (310.5, 300, "line"), (310.5, 320, "line"), (300, 320, "line")]
CAP, XH = 700, 500          # even, so the "half" origins need no rounding rule
INFO = {"capHeight": CAP, "xHeight": XH}


# ------------------------------------------------------------------------------------------
# alphabets

def trie_glyphs(shape, variant, palette, depth, anchors=False):
    """Every component chain of depth <= `depth` over `palette` hung under base `r` (as in C01)."""
    glyphs = {"r": {"width": 500.5, "height": 0, "unicodes": [0x41], "contours": B.SHAPES[shape]}}
    if anchors:
        glyphs["r"]["anchors"] = [("top", 50.5, 80), ("bottom", 40, -10.5)]
    level = [("r", ())]
    for d in range(depth):
        nxt = []
        for parent, path in level:
            for i, tn in enumerate(palette):
                p2 = path + (i,)
                name = "n" + "_".join(map(str, p2))
                g = {"width": 100 + 10 * i + d + (0.5 if i % 2 else 0),
                     "components": [(parent, B.TRANSFORMS[tn])]}
                if variant == "mixed":
                    g["contours"] = [SMALLBOX]
                elif variant == "shared":
                    g["components"] = g["components"] + [("r", (1, 0, 0, 1, 200.5, 0.5))]
                elif variant == "multi":
                    # several copies of the same (possibly nested) composite, like the dots of an
                    # ellipsis: the same sub-tree is reached repeatedly from one glyph
                    g["components"] = g["components"] + [(parent, (1, 0, 0, 1, 200.5, 0.5)),
                                                         (parent, (1, 0, 0, 1, -30, 40))]
                if anchors and i % 4 == 2:
                    # an anchor the composite already has: must stay, and blocks propagation of "top"
                    g["anchors"] = [("top", 1.5 + d, -2)]
                if anchors and i % 4 == 3:
                    g["anchors"] = [("ogonek", 7, 8.5)]
                glyphs[name] = g
                nxt.append((name, p2))
        level = nxt
    return glyphs


def rotated(palette):
    return list(palette[1:]) + list(palette[:1])


def second_master(shape, variant, palette, depth, anchors=False, sparse=False):
    """A second master: same names and bases, every node carries the *next* palette transform,
    coordinates of the base moved; with `sparse`, the odd leaves are absent."""
    g2 = trie_glyphs(shape, variant, rotated(palette), depth, anchors)
    g2["r"]["contours"] = [[(p[0] + 10, p[1] - 4.5) + tuple(p[2:]) for p in c] for c in g2["r"]["contours"]]
    if anchors:
        g2["r"]["anchors"] = [("top", 60.5, 85), ("bottom", 42, -12.5)]
    if sparse == "subtree":
        # sparse master: every leaf whose parent has an odd last index is absent, i.e. those parents
        # are present in this master but none of the glyphs referencing them is
        for name in list(g2):
            parts = name[1:].split("_")
            if name != "r" and len(parts) == depth and depth >= 2 and int(parts[-2]) % 2:
                del g2[name]
    elif sparse:
        for name in list(g2):
            if name.count("_") == depth - 1 and name != "r" and int(name.rsplit("_", 1)[-1].lstrip("n")) % 2:
                del g2[name]
    return g2


OFFSETS = [(0, 0), (10, 0), (0, 10), (10, 10)]
SCALES = [(sx, sy) for sx in (100, 50, 150) for sy in (100, 50, 150)]
SLANTS = [0, 15]
ORIGINS = [0, 1, 2, 3, 4]

TSETS = {
    "shifts": [(1, 0, 0, 1, 10.5, -3), (1, 0, 0, 1, 0, 20), (1, 0, 0, 1, -7, 0.5), (1, 0, 0, 1, 30, 30)],
    "mixed": [B.TRANSFORMS["flipx"], B.TRANSFORMS["shear"], B.TRANSFORMS["x1.5"], B.TRANSFORMS["rot90"]],
    "half": [B.TRANSFORMS["half"], B.TRANSFORMS["flipshear"], B.TRANSFORMS["flipy"], B.TRANSFORMS["shift"]],
}


KITE_NAMES = [("A", "B", "C"), ("base", "mid", "top"), ("y", "x", "z"), ("dot", "dotaccent", "idotaccent"),
              ("q", "p", "r"), ("n2", "n1", "n0")]


def graph_glyphs(graph, tset, own_contours):
    t = TSETS[tset]
    A = {"width": 500.5, "height": 0, "contours": B.SHAPES["tri"],
         "anchors": [("top", 50.5, 80), ("_bottom", 10, -20.25)]}
    if graph.startswith("kite"):
        # top -> [mid, base], mid -> [base]: a glyph that references a composite AND that composite's
        # own base.  Several namings, because the order in which a set of base names is visited
        # depends on the names (the hash seed is pinned by ./check).
        base, mid, top = KITE_NAMES[int(graph[4:])]
        g = {base: A,
             mid: {"width": 300, "height": 100, "components": [(base, t[0])], "anchors": [("top", 1, 2)]},
             top: {"width": 250.5, "height": 0, "components": [(mid, t[1]), (base, t[2])],
                   "anchors": [("x", -3, 700)]}}
        if own_contours:
            g[mid]["contours"] = [SMALLBOX]
        return g
    if graph == "chain":
        g = {"A": A,
             "B": {"width": 300, "height": 100, "components": [("A", t[0])], "anchors": [("top", 1, 2)]},
             "C": {"width": 250.5, "height": 0, "components": [("B", t[1])], "anchors": [("x", -3, 700)]}}
        if own_contours:
            g["B"]["contours"] = [SMALLBOX]
    else:
        g = {"A": A,
             "B": {"width": 300, "height": 100, "components": [("A", t[0])], "anchors": [("top", 1, 2)]},
             "C": {"width": 310, "height": 0, "components": [("A", t[1])]},
             "D": {"width": 250.5, "height": 0, "components": [("B", t[2]), ("C", t[3])],
                   "anchors": [("x", -3, 700)]}}
        if own_contours:
            g["C"]["contours"] = [SMALLBOX]
    return g


# ------------------------------------------------------------------------------------------
# reference: the requested matrix, written from the option semantics (not from fontTools)

def origin_height(origin):
    return {0: CAP, 1: CAP / 2, 2: XH, 3: XH / 2, 4: 0}[origin]


def requested_matrix(o):
    """x' = sx*(x + tan(slant)*(y - h0)) + ox ;  y' = sy*(y - h0) + h0 + oy   (Origin only matters
    when scaling or slanting)."""
    sx, sy = o["ScaleX"] / 100, o["ScaleY"] / 100
    t = math.tan(math.radians(o["Slant"])) if o["Slant"] else 0
    h0 = origin_height(o["Origin"])
    if sx == 1 and sy == 1 and t == 0:
        h0 = 0
    return (sx, 0, sx * t, sy, o["OffsetX"] - sx * t * h0, o["OffsetY"] + h0 - sy * h0)


def is_exact(o):
    return o["Slant"] == 0 and o["ScaleX"] in (100, 50, 200, 25) and o["ScaleY"] in (100, 50, 200, 25)


def is_identity(o):
    return requested_matrix(o) == (1, 0, 0, 1, 0, 0)


def _close(a, b, tol):
    return a == b if tol == 0 else abs(a - b) <= tol


def _pt_close(p, q, tol):
    if p is None or q is None:
        return p is q
    return _close(p[0], q[0], tol) and _close(p[1], q[1], tol)


def cycles_match(exp, obs, tol):
    """Do two lists of segment cycles agree as multisets of directed cyclic contours (within tol)?"""
    if len(exp) != len(obs):
        return False

    def seg_eq(a, b):
        return (a[0] == b[0] and len(a[1]) == len(b[1]) and _pt_close(a[2], b[2], tol)
                and all(_pt_close(x, y, tol) for x, y in zip(a[1], b[1])))

    if tol == 0:
        return contour_multiset(exp) == contour_multiset(obs)
    used = [False] * len(obs)
    for e in exp:
        for j, ob in enumerate(obs):
            if not used[j] and R.cyclic_equal(e, ob, seg_eq):
                used[j] = True
                break
        else:
            return False
    return True


def magnitude(cycles, extra=()):
    m = 1.0
    for c in cycles:
        for _, offs, end in c:
            for p in offs + ((end,) if end is not None else ()):
                m = max(m, abs(p[0]), abs(p[1]))
    for v in extra:
        m = max(m, abs(v))
    return m


# ------------------------------------------------------------------------------------------
# running the real filters

def filter_class(name, interp=False):
    import ufo2ft.filters as F
    return getattr(F, name + ("IFilter" if interp else "Filter"))


def copied_glyphset(font):
    from ufo2ft.util import _GlyphSet
    return _GlyphSet.from_layer(font, copy=True)


def _short(glyphs, name, depth=0):
    g = glyphs.get(name)
    if g is None:
        return {"name": name, "missing": True}
    out = {"name": name, "width": g.get("width"), "height": g.get("height"),
           "contours": g.get("contours", [])[:3], "components": g.get("components", []),
           "anchors": g.get("anchors", [])}
    if depth < 4:
        out["bases"] = [_short(glyphs, b, depth + 1) for b, _ in g.get("components", ())][:2]
    return out


def flips_on_chain(glyphs, name):
    n, g = 0, glyphs[name]
    while g.get("components"):
        base, t = g["components"][0]
        if R.det(t) < 0:
            n += 1
        g = glyphs[base]
    return n


def descendants(glyphs, name, acc=None):
    acc = set() if acc is None else acc
    for b, _ in glyphs[name].get("components", ()):
        if b in glyphs and b not in acc:
            acc.add(b)
            descendants(glyphs, b, acc)
    return acc


def clean_for_transform(glyphs, included, name, memo):
    """Sufficient structural condition under which the filter's one-level compensation can be
    correct: every direct base is either included (and clean) or excluded with no included glyph
    below it.  Its negation is the (included composite, excluded intermediate, included base)
    pattern of the known finding."""
    if name in memo:
        return memo[name]
    ok = True
    for b, _ in glyphs[name].get("components", ()):
        if b not in glyphs:
            continue
        if b in included:
            ok = ok and clean_for_transform(glyphs, included, b, memo)
        else:
            ok = ok and not (descendants(glyphs, b) & included)
    memo[name] = ok
    return ok


class Viols(list):
    """Violations of one state, capped *per signature* (kind + features) so that a recorded known
    finding can never crowd a different violation out of the report."""
    PER_SIG, TOTAL = 2, 60

    def add(self, v):
        sig = (v["kind"], repr(sorted(v["features"].items())))
        n = sum(1 for x in self if (x["kind"], repr(sorted(x["features"].items()))) == sig)
        if n < self.PER_SIG and len(self) < self.TOTAL:
            self.append(v)


class C15(Property):
    id = "C15"
    rule = ("state = one (filter, input font, options) call; case-state = one glyph (of one master) of "
            "that call, or one (glyph, include subset, option set) for Transformations; non-trivial = the "
            "glyph has components (decomp/flatten/anchors) or is included under a non-identity matrix")
    assumptions = [
        "coordinates are multiples of 1/4 and transform entries dyadic: decomposition, flattening and "
        "anchor propagation are compared with == ; Transformations is compared with == when the matrix "
        "and its inverse are dyadic (Slant 0, Scale in {50,100}) and within 1e-9 relative otherwise",
        "closed contours, acyclic component graphs, every referenced base present in the same master",
        "font info capHeight 700 / xHeight 500 (even), so the half-height origins are unambiguous",
        "Transformations scale factors are positive (a mirroring filter matrix is outside the alphabet)",
        "interpolatable variants are called without an Instantiator (each master resolved in itself)",
        "PropagateAnchors completeness is demanded only where exactly one non-mark component base "
        "carries the anchor name; ligature numbering and mark-adjustment are checked for position, "
        "preservation and idempotence only",
    ]
    trusted_base = ["ufoLib2/defcon as containers", "mc/outline_ref.py resolver", "mc/glyphspec.py reader"]

    # ---- bounds / enumeration --------------------------------------------------------------
    def bounds(self, tier):
        b = self._bounds(tier)
        if os.environ.get("C15_ONLY"):
            b["only"] = os.environ["C15_ONLY"]
        return b

    def _bounds(self, tier):
        if tier == "quick":
            return {"depth": 0, "trie_depth": 3, "palette": B.QUICK_TRANSFORMS,
                    "shapes": ["tri", "cubic", "quad", "mixed", "two", "offstart"],
                    "deep": [], "tsets": ["shifts", "mixed"], "xform_trie_shapes": ["tri"],
                    "mark_palette": B.QUICK_TRANSFORMS,
                    # defcon is 4-6x slower than ufoLib2: in the quick tier it runs a sub-alphabet
                    "defcon_shapes": ["tri", "two"], "defcon_tsets": ["mixed"],
                    "defcon_trie_includes": ["all", "odd-depth"]}
        return {"depth": 0, "trie_depth": 3, "palette": B.ALL_TRANSFORMS,
                "shapes": ["tri", "cubic", "quad", "mixed", "two", "offstart", "large"],
                "deep": [("tri", 4), ("two", 4)], "tsets": ["shifts", "mixed", "half"],
                "xform_trie_shapes": ["tri", "cubic", "two"], "mark_palette": B.ALL_TRANSFORMS,
                "defcon_shapes": ["tri", "cubic", "quad", "mixed", "two", "offstart", "large"],
                "defcon_tsets": ["shifts", "mixed", "half"],
                "defcon_trie_includes": ["all", "composites", "even-depth", "odd-depth", "bases"]}

    def initial(self, b):
        out = []
        pal, d = list(b["palette"]), b["trie_depth"]
        tries = [(s, d, pal) for s in b["shapes"]] + [(s, dd, list(B.QUICK_TRANSFORMS)) for s, dd in b["deep"]]
        # -- decomposition / flattening
        for shape, dd, pp in tries:
            for variant in ("pure", "mixed", "shared", "multi"):
                if variant == "multi" and shape not in ("tri", "two"):
                    continue
                for filt in ("DecomposeComponents", "DecomposeTransformedComponents", "FlattenComponents"):
                    for module in ("ufoLib2", "defcon"):
                        if module == "defcon" and (dd > d or shape not in b["defcon_shapes"]):
                            continue
                        for mode in ("inplace", "copy"):
                            out.append([{"part": "decomp", "filter": filt, "interp": 0, "shape": shape,
                                         "variant": variant, "module": module, "mode": mode, "d": dd,
                                         "palette": pp}])
                        for sparse in ((0, 1) if dd <= d else (0,)):
                            out.append([{"part": "decomp", "filter": filt, "interp": 1, "shape": shape,
                                         "variant": variant, "module": module, "mode": "inplace", "d": dd,
                                         "palette": pp, "sparse": sparse}])
        # -- Transformations on the two small graphs: all option sets x all include subsets
        for graph in ("chain", "diamond") + tuple("kite%d" % i for i in range(len(KITE_NAMES))):
            for tset in b["tsets"]:
                if graph.startswith("kite") and tset != b["tsets"][0]:
                    continue
                for own in (0, 1):
                    for module in ("ufoLib2", "defcon"):
                        if module == "defcon" and tset not in b["defcon_tsets"]:
                            continue
                        for off in OFFSETS:
                            for sc in SCALES:
                                out.append([{"part": "xform-graph", "graph": graph, "tset": tset, "own": own,
                                             "module": module, "offset": list(off), "scale": list(sc)}])
        # -- Transformations on tries
        for shape in b["xform_trie_shapes"]:
            for variant in ("pure", "mixed", "shared"):
                for module in ("ufoLib2", "defcon"):
                    for oi in range(len(TRIE_OPTS)):
                        for inc in ("all", "composites", "even-depth", "odd-depth", "bases"):
                            if module == "defcon" and inc not in b["defcon_trie_includes"]:
                                continue
                            out.append([{"part": "xform-trie", "shape": shape, "variant": variant,
                                         "module": module, "opt": oi, "include": inc, "d": d, "palette": pal}])
        # -- the smallest chain with identity references under a pure offset (DESIGN section 7, #7)
        for module in ("ufoLib2", "defcon"):
            out.append([{"part": "xform-min", "module": module}])
        # -- Transformations on degenerate glyphs
        for module in ("ufoLib2", "defcon"):
            out.append([{"part": "xform-misc", "module": module}])
        # -- PropagateAnchors
        for shape, dd, pp in tries:
            if shape not in ("tri", "two"):
                continue
            for variant in ("pure", "mixed", "shared"):
                for module in ("ufoLib2", "defcon"):
                    if dd > d and module == "defcon":
                        continue
                    for mode in ("inplace", "copy"):
                        out.append([{"part": "anchors-trie", "interp": 0, "shape": shape, "variant": variant,
                                     "module": module, "mode": mode, "d": dd, "palette": pp}])
                    for sparse in ((0, "subtree") if dd <= d else (0,)):
                        out.append([{"part": "anchors-trie", "interp": 1, "shape": shape, "variant": variant,
                                     "module": module, "mode": "inplace", "d": dd, "palette": pp,
                                     "sparse": sparse}])
        for bi in range(4):
            for mi in range(8):
                for module in ("ufoLib2", "defcon"):
                    for interp in (0, 1):
                        out.append([{"part": "anchors-marks", "base_anchors": bi, "mark_anchors": mi,
                                     "module": module, "interp": interp, "palette": list(b["mark_palette"])}])
        only = b.get("only")
        if only:  # developer aid (mutant triage): restrict to states whose description matches
            import re
            out = [h for h in out if re.search(only, jdump(h))]
        return out

    def describe(self, h, b):
        c = dict(h[0])
        if "palette" in c:
            c["palette"] = len(c["palette"])
        return c

    def run(self, h, b):
        c = h[0]
        return getattr(self, "run_" + c["part"].replace("-", "_"))(c, b)

    NON_VACUITY = ["flipped_chains", "double_flips", "decomposed", "left_composite", "untransformed_kept",
                   "flattened", "compensated_components", "pattern_excluded_intermediate", "exact_compares",
                   "tolerance_compares", "anchors_mapped", "slanted_advance_with_height", "added_under_flip",
                   "numbered_ligature_anchors", "propagation_blocked_by_existing", "single_base_propagations"]

    def finish(self, b, summary):
        if b.get("only"):
            return []
        missing = [k for k in self.NON_VACUITY if not summary["counters"].get(k)]
        return [violation("vacuous-exploration", {"counter": k}) for k in missing]

    # ---- decomposition / flattening -----------------------------------------------------------
    def run_decomp(self, c, b):
        masters = [trie_glyphs(c["shape"], c["variant"], c["palette"], c["d"])]
        if c["interp"]:
            masters.append(second_master(c["shape"], c["variant"], c["palette"], c["d"],
                                         sparse=bool(c.get("sparse"))))
        fonts = [B.build_font({"glyphs": g, "info": INFO}, c["module"]) for g in masters]
        cls = filter_class(c["filter"], c["interp"])
        filt = cls()
        if c["interp"]:
            before = [spec_from_glyphset(f) for f in fonts]
            filt(fonts)
            after = [spec_from_glyphset(f) for f in fonts]
        elif c["mode"] == "copy":
            gs = copied_glyphset(fonts[0])
            before = [spec_from_glyphset(gs)]
            filt(fonts[0], gs)
            after = [spec_from_glyphset(gs)]
        else:
            before = [spec_from_glyphset(fonts[0])]
            filt(fonts[0])
            after = [spec_from_glyphset(fonts[0])]
        feat = {"filter": c["filter"], "interp": c["interp"]}
        viols = Viols()
        ctrs = {"glyph_states": 0, "composites": 0, "flipped_chains": 0, "double_flips": 0,
                "decomposed": 0, "left_composite": 0, "untransformed_kept": 0, "flattened": 0,
                "depth_gt1_before": 0}
        sig, nontrivial = [], 0
        # which glyphs carry a transformed component in *any* master (the I-filter's criterion)
        transformed_any = set()
        for bef in before:
            for name, g in bef.items():
                if any(tuple(t[:4]) != (1, 0, 0, 1) for _, t in g["components"]):
                    transformed_any.add(name)
        for mi, (bef, aft) in enumerate(zip(before, after)):
            if set(bef) != set(aft):
                viols.add(violation("glyph-set-changed", dict(feat), master=mi,
                                       missing=sorted(set(bef) - set(aft))[:5],
                                       added=sorted(set(aft) - set(bef))[:5]))
            for name, g in bef.items():
                if name not in aft:
                    continue
                ctrs["glyph_states"] += 1
                want = R.resolve(bef, name)
                got = R.resolve(aft, name)
                if contour_multiset(want) != contour_multiset(got):
                    fl = flips_on_chain(bef, name)
                    viols.add(violation("rendering-changed",
                                           dict(feat, flipped=bool(fl % 2), variant=c["variant"]),
                                           glyph=name, master=mi, module=c["module"], mode=c["mode"],
                                           before=_short(bef, name), after=_short(aft, name),
                                           expected=[list(x) for x in contour_multiset(want)][:4],
                                           observed=[list(x) for x in contour_multiset(got)][:4]))
                if g["components"]:
                    ctrs["composites"] += 1
                    nontrivial += 1
                    fl = flips_on_chain(bef, name)
                    ctrs["flipped_chains"] += fl % 2
                    ctrs["double_flips"] += fl >= 2
                    if R.component_depth(bef, name) > 1:
                        ctrs["depth_gt1_before"] += 1
                    if not aft[name]["components"]:
                        ctrs["decomposed"] += 1
                    else:
                        ctrs["left_composite"] += 1
                    if c["filter"] == "FlattenComponents" and aft[name]["components"] != g["components"]:
                        ctrs["flattened"] += 1
                    if c["filter"] == "DecomposeTransformedComponents" and name not in transformed_any:
                        # transformed-only decomposition leaves untransformed references in place
                        ctrs["untransformed_kept"] += 1
                        if (aft[name]["components"] != g["components"]
                                or aft[name]["contours"] != g["contours"]):
                            viols.add(violation("untransformed-reference-not-kept", dict(feat),
                                                   glyph=name, master=mi, before=_short(bef, name),
                                                   after=_short(aft, name)))
                sig.append((mi, name, len(aft[name]["contours"]), len(aft[name]["components"])))
        return Result(viols, ctrs, digest(sig), substates=ctrs["glyph_states"], nontrivial=nontrivial)

    # ---- Transformations ----------------------------------------------------------------------
    def _check_transform(self, bef, aft, included, o, feat, viols, ctrs, detail):
        """Oracle for one TransformationsFilter call; returns (#glyph states, #non-trivial)."""
        M = requested_matrix(o)
        exact = is_exact(o)
        ident = is_identity(o)
        memo = {}
        n = nt = 0
        if set(bef) != set(aft):
            viols.add(violation("glyph-set-changed", dict(feat), **detail))
        for name in bef:
            if name not in included or name not in aft:
                continue
            n += 1
            g, g2 = bef[name], aft[name]
            if not ident:
                nt += 1
            clean = clean_for_transform(bef, included, name, memo)
            pattern = "clean" if clean else "included-composite/excluded-intermediate/included-base"
            if not clean:
                ctrs["pattern_excluded_intermediate"] += 1
            want = [R.transform_segments(M, s) for s in R.resolve(bef, name)]
            got = R.resolve(aft, name)
            tol = 0 if exact else 1e-9 * magnitude(want + got, (origin_height(o["Origin"]),))
            ctrs["exact_compares" if exact else "tolerance_compares"] += 1
            if g["components"] and any(bb in included for bb, _ in g["components"]):
                ctrs["compensated_components"] += 1
            if not cycles_match(want, got, tol):
                viols.add(violation(
                    "transform-outline", dict(feat, pattern=pattern),
                    glyph=name, options=o, matrix=M, include=sorted(included),
                    before=_short(bef, name), after=_short(aft, name),
                    expected=[[list(s) for s in cyc] for cyc in want][:3],
                    observed=[[list(s) for s in cyc] for cyc in got][:3], **detail))
            # anchors: own data only, by the full matrix
            wa = [(a[0],) + R.transform_point(M, (a[1], a[2])) for a in g["anchors"]]
            ga = list(g2["anchors"])
            atol = 0 if exact else 1e-9 * max([1.0, origin_height(o["Origin"])]
                                              + [abs(v) for a in wa + ga for v in a[1:]])
            if g["anchors"]:
                ctrs["anchors_mapped"] += len(g["anchors"])
            if (len(wa) != len(ga) or any(x[0] != y[0] or not _pt_close(x[1:], y[1:], atol)
                                          for x, y in zip(wa, ga))):
                viols.add(violation("transform-anchors", dict(feat), glyph=name, options=o, matrix=M,
                                       expected=wa, observed=ga, include=sorted(included), **detail))
            # advance: the vector (width, height) by the linear part
            ww = (M[0] * g["width"] + M[2] * g["height"], M[1] * g["width"] + M[3] * g["height"])
            gw = (g2["width"], g2["height"])
            wtol = 0 if exact else 1e-9 * max(1.0, abs(ww[0]), abs(ww[1]), abs(g["width"]), abs(g["height"]))
            if g["height"] and o["Slant"]:
                ctrs["slanted_advance_with_height"] += 1
            if not _pt_close(ww, gw, wtol):
                empty = not (g["contours"] or g["components"] or g["anchors"])
                viols.add(violation("transform-advance", dict(feat, empty_glyph=empty), glyph=name,
                                       options=o, matrix=M, before=(g["width"], g["height"]),
                                       expected=ww, observed=gw, include=sorted(included), **detail))
        return n, nt

    @staticmethod
    def _xform_counters():
        return {"glyph_states": 0, "filter_calls": 0, "pattern_excluded_intermediate": 0,
                "exact_compares": 0, "tolerance_compares": 0, "compensated_components": 0,
                "anchors_mapped": 0, "slanted_advance_with_height": 0, "identity_matrix_calls": 0}

    def run_xform_graph(self, c, b):
        glyphs = graph_glyphs(c["graph"], c["tset"], c["own"])
        names = list(glyphs)
        viols, ctrs, sig = Viols(), self._xform_counters(), []
        nsub = nt = 0
        for slant in SLANTS:
            for origin in ORIGINS:
                o = {"OffsetX": c["offset"][0], "OffsetY": c["offset"][1], "ScaleX": c["scale"][0],
                     "ScaleY": c["scale"][1], "Slant": slant, "Origin": origin}
                for k in range(len(names) + 1):
                    for sub in itertools.combinations(names, k):
                        font = B.build_font({"glyphs": glyphs, "info": INFO}, c["module"])
                        bef = spec_from_glyphset(font)
                        filt = filter_class("Transformations")(include=list(sub), **o)
                        filt(font)
                        aft = spec_from_glyphset(font)
                        ctrs["filter_calls"] += 1
                        ctrs["identity_matrix_calls"] += is_identity(o)
                        feat = {"part": "graph", "graph": c["graph"]}
                        a, b2 = self._check_transform(bef, aft, set(sub), o, feat, viols, ctrs,
                                                      {"module": c["module"], "tset": c["tset"],
                                                       "own": c["own"]})
                        nsub += max(a, 1)
                        nt += b2
                        sig.append((slant, origin, sub, [(n, aft[n]["width"], aft[n]["components"])
                                                         for n in names]))
        ctrs["glyph_states"] = nsub
        return Result(viols, ctrs, digest(sig), substates=nsub, nontrivial=nt)

    def run_xform_min(self, c, b):
        """A = contour, B = [A], C = [B] (identity references), OffsetX=100, every include subset."""
        ident = (1, 0, 0, 1, 0, 0)
        glyphs = {"A": {"width": 500, "height": 0, "contours": [B.box(0, 0, 100, 100)]},
                  "B": {"width": 500, "height": 0, "components": [("A", ident)]},
                  "C": {"width": 500, "height": 0, "components": [("B", ident)]}}
        o = {"OffsetX": 100, "OffsetY": 0, "ScaleX": 100, "ScaleY": 100, "Slant": 0, "Origin": 4}
        viols, ctrs, sig = Viols(), self._xform_counters(), []
        nsub = nt = 0
        names = list(glyphs)
        for k in range(len(names) + 1):
            for sub in itertools.combinations(names, k):
                font = B.build_font({"glyphs": glyphs, "info": INFO}, c["module"])
                bef = spec_from_glyphset(font)
                filter_class("Transformations")(include=list(sub), OffsetX=100)(font)
                aft = spec_from_glyphset(font)
                ctrs["filter_calls"] += 1
                a, b2 = self._check_transform(bef, aft, set(sub), o, {"part": "min", "include": "+".join(sub)},
                                              viols, ctrs, {"module": c["module"]})
                nsub += max(a, 1)
                nt += b2
                sig.append((sub, [(n, aft[n]["components"]) for n in names]))
        ctrs["glyph_states"] = nsub
        return Result(viols, ctrs, digest(sig), substates=nsub, nontrivial=nt)

    def run_xform_trie(self, c, b):
        glyphs = trie_glyphs(c["shape"], c["variant"], c["palette"], c["d"], anchors=True)
        o = dict(TRIE_OPTS[c["opt"]])
        font = B.build_font({"glyphs": glyphs, "info": INFO}, c["module"])
        bef = spec_from_glyphset(font)

        def depth_of(name):
            return 0 if name == "r" else name.count("_") + 1

        inc = c["include"]
        if inc == "all":
            kw, included = {}, set(bef)
        elif inc == "composites":
            kw, included = {"include": lambda g: bool(g.components)}, {n for n in bef if bef[n]["components"]}
        elif inc == "bases":
            kw, included = {"include": ["r"]}, {"r"}
        else:
            par = 0 if inc == "even-depth" else 1
            included = {n for n in bef if depth_of(n) % 2 == par}
            kw = {"exclude": [n for n in bef if n not in included]}
        filt = filter_class("Transformations")(**kw, **o)
        filt(font)
        aft = spec_from_glyphset(font)
        viols, ctrs = Viols(), self._xform_counters()
        ctrs["filter_calls"] = 1
        feat = {"part": "trie", "include": inc}
        n, nt = self._check_transform(bef, aft, included, o, feat, viols, ctrs,
                                      {"module": c["module"], "variant": c["variant"], "shape": c["shape"]})
        ctrs["glyph_states"] = n
        sig = [(k, v["width"], v["components"], v["anchors"]) for k, v in aft.items()]
        return Result(viols, ctrs, digest(sig), substates=max(n, 1), nontrivial=nt)

    def run_xform_misc(self, c, b):
        glyphs = {"empty": {"width": 250.5, "height": 0},
                  "emptyh": {"width": 250, "height": 1000},
                  "anchoronly": {"width": 0, "height": 0, "anchors": [("top", 10.5, 20), ("_x", -3, 0.25)]},
                  "contour": {"width": 600, "height": 880.5, "contours": B.SHAPES["cubic"]},
                  "comp": {"width": 123.5, "height": 0, "components": [("contour", B.TRANSFORMS["flipshear"])]}}
        viols, ctrs, sig = Viols(), self._xform_counters(), []
        nsub = nt = 0
        for off in OFFSETS:
            for sc in SCALES:
                for slant in SLANTS:
                    for origin in ORIGINS:
                        o = {"OffsetX": off[0], "OffsetY": off[1], "ScaleX": sc[0], "ScaleY": sc[1],
                             "Slant": slant, "Origin": origin}
                        font = B.build_font({"glyphs": glyphs, "info": INFO}, c["module"])
                        bef = spec_from_glyphset(font)
                        filter_class("Transformations")(**o)(font)
                        aft = spec_from_glyphset(font)
                        ctrs["filter_calls"] += 1
                        ctrs["identity_matrix_calls"] += is_identity(o)
                        a, b2 = self._check_transform(bef, aft, set(bef), o, {"part": "misc"}, viols, ctrs,
                                                      {"module": c["module"]})
                        nsub += a
                        nt += b2
                        sig.append([(k, v["width"], v["height"]) for k, v in aft.items()])
        ctrs["glyph_states"] = nsub
        return Result(viols, ctrs, digest(sig), substates=nsub, nontrivial=nt)

    # ---- PropagateAnchors -----------------------------------------------------------------------
    def _propagate(self, c, masters, categories=None):
        """Build fonts, apply the filter, apply a fresh one, apply the first object again.
        Returns per master (before, after1, after2, after3)."""
        lib = {"public.openTypeCategories": categories} if categories else {}
        fonts = [B.build_font({"glyphs": g, "info": INFO, "lib": lib}, c["module"]) for g in masters]
        cls = filter_class("PropagateAnchors", c["interp"])
        f1, f2 = cls(), cls()
        if c["interp"]:
            targets = fonts
            run = lambda f: f(fonts)  # noqa: E731
        elif c.get("mode") == "copy":
            gs = copied_glyphset(fonts[0])
            targets = [gs]
            run = lambda f: f(fonts[0], gs)  # noqa: E731
        else:
            targets = fonts
            run = lambda f: f(fonts[0])  # noqa: E731
        snaps = [[spec_from_glyphset(t) for t in targets]]
        for f in (f1, f2, f1):
            run(f)
            snaps.append([spec_from_glyphset(t) for t in targets])
        return [tuple(s[i] for s in snaps) for i in range(len(targets))]

    def _check_anchors(self, bef, a1, a2, a3, marks, feat, viols, ctrs, detail):
        from collections import Counter
        n = nt = 0
        for name, g in bef.items():
            n += 1
            before = list(g["anchors"])
            after = list(a1[name]["anchors"])
            comps = [(bb, t) for bb, t in g["components"] if bb in bef]
            if comps:
                nt += 1
            # geometry untouched
            if (a1[name]["contours"] != g["contours"] or a1[name]["components"] != g["components"]
                    or a1[name]["width"] != g["width"]):
                viols.add(violation("anchors-filter-changed-outline", dict(feat), glyph=name, **detail))
            # (a) existing anchors untouched
            cb, ca = Counter(before), Counter(after)
            if cb - ca:
                viols.add(violation("existing-anchor-changed", dict(feat), glyph=name, before=before,
                                       after=after, **detail))
            added = list((ca - cb).elements())
            if before:
                ctrs["glyphs_with_existing_anchors"] += 1
            if added:
                ctrs["glyphs_gaining_anchors"] += 1
                ctrs["anchors_added"] += len(added)
            if added and not comps:
                viols.add(violation("anchor-added-to-non-composite", dict(feat), glyph=name,
                                       added=added, **detail))
            # (b) every added anchor sits at T(base anchor) for one of the glyph's components
            names_before = {a[0] for a in before}
            for an, ax, ay in added:
                cand = set()
                for bb, t in comps:
                    for bn, bx, by in a1[bb]["anchors"]:
                        if an == bn or (an.startswith(bn + "_") and an[len(bn) + 1:].isdigit()):
                            cand.add(R.transform_point(tuple(t), (bx, by)))
                if any(tuple(t[:4]) != (1, 0, 0, 1) for _, t in comps):
                    ctrs["added_under_2x2"] += 1
                if any(R.det(t) < 0 for _, t in comps):
                    ctrs["added_under_flip"] += 1
                if "_" in an and an.rsplit("_", 1)[1].isdigit():
                    ctrs["numbered_ligature_anchors"] += 1
                if (ax, ay) not in cand:
                    viols.add(violation(
                        "propagated-anchor-misplaced",
                        dict(feat, transformed=any(tuple(t[:4]) != (1, 0, 0, 1) for _, t in comps)),
                        glyph=name, anchor=(an, ax, ay), candidates=sorted(cand),
                        glyph_before=_short(bef, name), glyph_after=_short(a1, name), **detail))
                if an in names_before:
                    viols.add(violation("anchor-overridden", dict(feat), glyph=name, anchor=(an, ax, ay),
                                           before=before, **detail))
            # (c) completeness where no Glyphs-specific rule is involved: exactly one component base
            # (none of the bases being a mark, i.e. carrying a "_" anchor) has the name
            if comps and not (name in marks and before):
                base_anchors = [(bb, t, a1[bb]["anchors"]) for bb, t in comps]
                allnames = {an for _, _, al in base_anchors for an, _, _ in al}
                nholders = {an: sum(1 for _, _, al in base_anchors if any(x[0] == an for x in al))
                            for an in allnames}
                # a name carried by several components triggers ligature numbering (name_1, name_2),
                # whose generated names may collide with propagated ones: no completeness demanded then
                if (not any(an.startswith("_") for an in allnames)
                        and all(v == 1 for v in nholders.values())):
                    for an in sorted(allnames):
                        holders = [(t, al) for _, t, al in base_anchors if any(x[0] == an for x in al)]
                        if any(x[0].startswith(an) for x in before):
                            ctrs["propagation_blocked_by_existing"] += 1
                            continue
                        t, al = holders[0]
                        src = next(x for x in al if x[0] == an)
                        want = (an,) + R.transform_point(tuple(t), (src[1], src[2]))
                        ctrs["single_base_propagations"] += 1
                        if want not in after:
                            viols.add(violation("anchor-not-propagated", dict(feat), glyph=name,
                                                   expected=want, after=after,
                                                   glyph_before=_short(bef, name), **detail))
            # (d) idempotence: a fresh filter and the reused one add nothing
            if (a2[name]["anchors"] != after or a3[name]["anchors"] != after):
                viols.add(violation("second-application-changed-anchors", dict(feat), glyph=name,
                                       first=after, second=a2[name]["anchors"], third=a3[name]["anchors"],
                                       glyph_before=_short(bef, name), **detail))
        return n, nt

    @staticmethod
    def _anchor_counters():
        return {"glyph_states": 0, "glyphs_with_existing_anchors": 0, "glyphs_gaining_anchors": 0,
                "anchors_added": 0, "added_under_2x2": 0, "added_under_flip": 0,
                "numbered_ligature_anchors": 0, "propagation_blocked_by_existing": 0,
                "single_base_propagations": 0}

    def run_anchors_trie(self, c, b):
        masters = [trie_glyphs(c["shape"], c["variant"], c["palette"], c["d"], anchors=True)]
        if c["interp"]:
            masters.append(second_master(c["shape"], c["variant"], c["palette"], c["d"], anchors=True,
                                         sparse=c.get("sparse", 0)))
        res = self._propagate(c, masters)
        viols, ctrs, sig = Viols(), self._anchor_counters(), []
        nsub = nt = 0
        for mi, (bef, a1, a2, a3) in enumerate(res):
            feat = {"part": "trie", "interp": c["interp"], "sparse_master": c.get("sparse", 0)}
            a, b2 = self._check_anchors(bef, a1, a2, a3, set(), feat, viols, ctrs,
                                        {"module": c["module"], "master": mi, "variant": c["variant"],
                                         "mode": c.get("mode")})
            nsub += a
            nt += b2
            sig.append([(k, v["anchors"]) for k, v in a1.items()])
        ctrs["glyph_states"] = nsub
        return Result(viols, ctrs, digest(sig), substates=nsub, nontrivial=nt)

    def run_anchors_marks(self, c, b):
        glyphs, cats = marks_font(c["base_anchors"], c["mark_anchors"], c["palette"], 0)
        masters = [glyphs]
        if c["interp"]:
            masters.append(marks_font(c["base_anchors"], c["mark_anchors"], c["palette"], 1)[0])
        res = self._propagate(c, masters, cats)
        marks = {k for k, v in cats.items() if v == "mark"}
        viols, ctrs, sig = Viols(), self._anchor_counters(), []
        if c["module"] == "ufoLib2":
            # both UFO libraries: identical glyph data must receive identical anchors
            other = self._propagate(dict(c, module="defcon"), masters, cats)
            ctrs["library_agreement_glyphs"] = 0
            for mi, ((_, a1, _, _), (_, d1, _, _)) in enumerate(zip(res, other)):
                for name in a1:
                    ctrs["library_agreement_glyphs"] += 1
                    if sorted(a1[name]["anchors"]) != sorted(d1[name]["anchors"]):
                        viols.add(violation("anchors-depend-on-ufo-library", {"part": "marks", "interp": c["interp"]},
                                            glyph=name, master=mi, ufoLib2=a1[name]["anchors"],
                                            defcon=d1[name]["anchors"], base_anchors=c["base_anchors"],
                                            mark_anchors=c["mark_anchors"]))
        nsub = nt = 0
        for mi, (bef, a1, a2, a3) in enumerate(res):
            feat = {"part": "marks", "interp": c["interp"]}
            a, b2 = self._check_anchors(bef, a1, a2, a3, marks, feat, viols, ctrs,
                                        {"module": c["module"], "master": mi,
                                         "base_anchors": c["base_anchors"], "mark_anchors": c["mark_anchors"]})
            nsub += a
            nt += b2
            sig.append([(k, v["anchors"]) for k, v in a1.items()])
        ctrs["glyph_states"] = nsub
        return Result(viols, ctrs, digest(sig), substates=nsub, nontrivial=nt)


# option sets used on the tries (the full 360 run on the small graphs)
TRIE_OPTS = [
    {"OffsetX": 10, "OffsetY": 0, "ScaleX": 100, "ScaleY": 100, "Slant": 0, "Origin": 4},
    {"OffsetX": 0, "OffsetY": 0, "ScaleX": 50, "ScaleY": 50, "Slant": 0, "Origin": 4},
    {"OffsetX": 10, "OffsetY": 10, "ScaleX": 50, "ScaleY": 100, "Slant": 0, "Origin": 0},
    {"OffsetX": 0, "OffsetY": 10, "ScaleX": 150, "ScaleY": 50, "Slant": 0, "Origin": 3},
    {"OffsetX": 0, "OffsetY": 0, "ScaleX": 100, "ScaleY": 100, "Slant": 15, "Origin": 2},
    {"OffsetX": 10, "OffsetY": 10, "ScaleX": 150, "ScaleY": 150, "Slant": 15, "Origin": 1},
]

BASE_ANCHORS = [("top", 50.5, 80), ("bottom", 40, -10.5)]
MARK_ANCHORS = [("_top", 0, 60), ("top", 0.5, 71), ("_bottom", 3, -2)]
PRE_ANCHORS = [[], [("top", 9, 9.5)], [("topright", 8, 8)], [("bottom", 7.5, 7)]]
BASE_T = ["id", "shift", "flipx"]


def marks_font(bi, mi, palette, master):
    """Base `a`, mark `acutecomb`, and every composite (base under T_b + mark under T_m) x
    pre-existing anchors x {plain, ligature-like} name x {uncategorised, mark} category; plus
    mark-only composites and one nesting level.  Master 1 moves the anchors."""
    d = 4.5 * master
    ba = [(n, x + d, y - d) for j, (n, x, y) in enumerate(BASE_ANCHORS) if bi >> j & 1]
    ma = [(n, x - d, y + d) for j, (n, x, y) in enumerate(MARK_ANCHORS) if mi >> j & 1]
    glyphs = {"a": {"width": 500, "contours": B.SHAPES["tri"], "anchors": ba},
              "acutecomb": {"width": 0, "contours": [B.box(-30, 60, 30, 70)], "anchors": ma}}
    cats = {"a": "base", "acutecomb": "mark"}
    i = 0
    for tb in BASE_T:
        for tm in palette:
            for pi, pre in enumerate(PRE_ANCHORS):
                for lig in (0, 1):
                    for cat in (0, 1):
                        name = ("x_%d" if lig else "c%d") % i
                        i += 1
                        glyphs[name] = {"width": 500, "anchors": list(pre),
                                        "components": [("a", B.TRANSFORMS[tb]),
                                                       ("acutecomb", B.TRANSFORMS[tm])]}
                        if cat:
                            cats[name] = "mark"
                        if pi == 0 and not cat:
                            glyphs["nest" + name] = {"width": 400,
                                                     "components": [(name, B.TRANSFORMS["flipshear"])]}
    # a second mark whose off-curve handles reach far outside its outline: the box of its control
    # points has its lower-left corner at the origin, the outline's own is near (88, 88); the
    # "component closest to the origin" of a mark-only ligature is decided on outlines
    glyphs["hookcomb"] = {"width": 0, "anchors": [(n, x + 150, y + 100) for n, x, y in ma], "contours": [[
        (200, 200, "line"), (400, 200, None), (0, 200, None), (100, 200, "curve"),
        (100, 400, None), (100, 0, None), (100, 100, "curve"), (200, 100, "line")]]}
    cats["hookcomb"] = "mark"
    for lig in (0, 1):
        glyphs["h_m" if lig else "hm"] = {"width": 0, "components": [("hookcomb", (1, 0, 0, 1, 0, 0)),
                                                                     ("acutecomb", (1, 0, 0, 1, 0, 0))]}
        cats["h_m" if lig else "hm"] = "mark"
    for j, tm in enumerate(palette):
        for lig in (0, 1):
            name = ("m_%d" if lig else "mm%d") % j
            glyphs[name] = {"width": 0, "components": [("acutecomb", B.TRANSFORMS[tm]),
                                                       ("acutecomb", (1, 0, 0, 1, 5.5, 40 + j))]}
            cats[name] = "mark"
    return glyphs, cats


PROPERTY = C15()
