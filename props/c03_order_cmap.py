"""C03 — glyph order and character map follow the source exactly.

Five finite spaces, all enumerated completely (nothing sampled):

  fn      `ufo2ft.util.makeOfficialGlyphOrder` called directly on real ufoLib2 / defcon fonts:
          every subset of a 5-name universe  x  every stored public.glyphOrder sequence up to
          length L over universe + {'zz'} (plus "key absent", plus defcon's self-maintained key)
          x  explicit argument None or every sequence up to length K.
  order   full compileTTF / compileOTF -> save -> reload: subsets x stored sequences (shorter).
  xorder  the same with an explicit `glyphOrder=` argument (stored order must then be ignored).
  skip    one glyph of the source not exported (public.skipExportGlyphs).
  cmap    glyphs a, b, c take every subset of size <= k of a 5-code-point palette (BMP edge
          0xFFFF, supplementary 0x10000 / 0x1F600): all 16^3 assignments, both flavours.
  uvs     BFS over `public.unicodeVariationSequences` entries (selector, base, glyph) to depth d
          over two fixed base assignments.

A packed state runs many independent compiles; each compile / call is one sub-state.
The reference functions below are written from the property statement only.
"""

from __future__ import annotations

import io
import itertools

from fontTools.ttLib import TTFont

from mc import ufo_build as B
from mc.explore import Property, Result, digest, violation

UNIVERSE = [".notdef", "a", "b", "B", "c"]
ALPHA = UNIVERSE + ["zz"]          # 'zz' never exists in the font
INSERTION = ["c", "b", ".notdef", "a", "B"]   # glyph insertion order: neither sorted nor reversed

CPS = [0x41, 0x0000, 0xFFFF, 0x10000, 0x1F600]  # U+0000 is a valid (falsy) code point
CMAP_GLYPHS = ["a", "b", "c"]
SELECTORS = [0xFE00, 0xE0100]
UVS_BASES = [
    {"a": [0x41], "b": [0x0000, 0xFFFF], "c": []},                 # BMP only
    {"a": [0x41, 0x10000], "b": [0xFFFF], "c": [0x1F600]},       # with supplementary code points
]
UVS_KEY = "public.unicodeVariationSequences"
VF_ORDERS = ["ABSENT", [".notdef", "a", "b", "c"], ["c", "B", "b", "a"], ["zz", "b", ".notdef"]]
MAX_VIOLS = 4


# ------------------------------------------------------------------------------------------------
# reference model (from the statement)

def ref_order(names, stored, requested, synth_notdef):
    """'.notdef' first (synthesised if the source lacks it and `synth_notdef`), then the glyphs
    named by the requested order -- or, when none is requested, the stored order -- that exist,
    in that order, then all remaining glyphs sorted by name; every glyph exactly once."""
    exported = set(names)
    out = []
    if ".notdef" in exported or synth_notdef:
        out.append(".notdef")
    listing = requested if requested is not None else (stored if stored is not None else [])
    for n in listing:
        if n in exported and n not in out:
            out.append(n)
    out.extend(sorted(n for n in exported if n not in out))
    return out


def ref_cmap(assign):
    """assign: {glyph: [code points]} -> ("reject", cp) when a code point is declared twice, else
    ("ok", bmp mapping, full mapping)."""
    decl = {}
    for g, cps in assign.items():
        for cp in cps:
            decl.setdefault(cp, []).append(g)
    dup = sorted(cp for cp, gs in decl.items() if len(gs) > 1)
    if dup:
        return ("reject", dup)
    full = {cp: gs[0] for cp, gs in decl.items()}
    bmp = {cp: g for cp, g in full.items() if cp <= 0xFFFF}
    return ("ok", bmp, full)


def ref_uvs(entries, full):
    """entries: {(selector, base): glyph}.  Default (None) iff the sequence names the glyph the
    base code point is mapped to; otherwise non-default (the glyph name)."""
    out = {}
    for (sel, base), g in entries.items():
        out.setdefault(sel, []).append((base, None if full.get(base) == g else g))
    return {sel: sorted(v, key=_uvkey) for sel, v in out.items()}


def _uvkey(t):
    return (t[0], t[1] or "")


# ------------------------------------------------------------------------------------------------
# enumeration helpers

def seqs(alphabet, maxlen):
    """Every sequence of length <= maxlen, shorter first."""
    out = []
    for n in range(maxlen + 1):
        out.extend(list(t) for t in itertools.product(alphabet, repeat=n))
    return out


def chunk(first, maxlen):
    """Stored-order variants whose first element is `first`.  first=None: key absent and []."""
    if first is None:
        return ["ABSENT", []]
    if maxlen < 1:
        return []
    return [[first] + s for s in seqs(ALPHA, maxlen - 1)]


def subsets(universe):
    out = []
    for k in range(len(universe) + 1):
        out.extend(list(c) for c in itertools.combinations(universe, k))
    return out


def cp_subsets(k):
    out = []
    for n in range(k + 1):
        out.extend(list(c) for c in itertools.combinations(CPS, n))
    return out


def order_spec(names, stored, cmap=None, lib=None, bare=False):
    glyphs = {}
    for n in INSERTION + CMAP_GLYPHS:
        if n in names and n not in glyphs:
            g = {"width": 500}
            if cmap and cmap.get(n):
                g["unicodes"] = list(cmap[n])
            glyphs[n] = g
    spec = {"glyphs": glyphs, "order": None if stored == "ABSENT" else list(stored)}
    if lib:
        spec["lib"] = lib
    if bare:
        spec["info"] = NO_INFO
    return spec


NO_INFO = {k: None for k in B.DEFAULT_INFO}   # function seam: font info is irrelevant, skip it


def build(names, stored, module, cmap=None, lib=None, bare=False):
    """Fresh real font.  stored == "AUTO" (defcon only): the public.glyphOrder key that defcon
    itself maintains while glyphs are added is left in place."""
    if stored == "AUTO":
        import defcon
        font = defcon.Font()
        for k, v in B.DEFAULT_INFO.items():
            setattr(font.info, k, v)
        for n in INSERTION:
            if n in names:
                font.newGlyph(n).width = 500
        return font
    return B.build_font(order_spec(names, stored, cmap, lib, bare), module)


def stored_list(font, stored):
    if stored == "ABSENT":
        return None
    if stored == "AUTO":
        return list(font.lib.get("public.glyphOrder", []))
    return stored


class Unsaveable(Exception):
    pass


def compile_reload(make_font, flavour, exported, ctrs, **kw):
    """compileTTF/OTF with default options (production names off: renaming is C11's subject),
    serialise, reload.  Returns the reloaded TTFont."""
    import ufo2ft
    fn = ufo2ft.compileTTF if flavour == "TTF" else ufo2ft.compileOTF
    tt = fn(make_font(), useProductionNames=False, **kw)
    buf = io.BytesIO()
    try:
        tt.save(buf)
    except AttributeError as e:
        # A CFF font whose only glyph is '.notdef' comes back from the subroutiniser in a form
        # fontTools cannot write ("charset").  Serialisability is C04's subject, not C03's: count
        # it and observe the order through the unsubroutinised build instead.
        if flavour == "OTF" and set(exported) <= {".notdef"} and str(e) == "charset":
            ctrs["otf_notdef_only_unsaveable_with_subroutiniser"] = \
                ctrs.get("otf_notdef_only_unsaveable_with_subroutiniser", 0) + 1
            tt = fn(make_font(), useProductionNames=False, optimizeCFF=0, **kw)
            buf = io.BytesIO()
            tt.save(buf)
        else:
            raise
    buf.seek(0)
    return TTFont(buf)


def classify_order(want, got):
    if sorted(want) != sorted(got):
        return "glyph-set"
    if ".notdef" in want and got[0] != ".notdef":
        return "notdef-not-first"
    return "sequence"


def read_cmap(tt):
    out = []
    for t in tt["cmap"].tables:
        rec = {"platform": (t.platformID, t.platEncID), "format": t.format}
        if t.format == 14:
            rec["uvs"] = {sel: sorted(((u, g) for u, g in lst), key=_uvkey)
                          for sel, lst in (t.uvsDict or {}).items()}
            rec["cmap"] = dict(t.cmap or {})
        else:
            rec["cmap"] = dict(t.cmap)
        out.append(rec)
    return out


def check_cmap_tables(tables, bmp, full, feat):
    """Violations of the character-map clauses for a compiled font (no UVS part)."""
    viols = []
    has16 = has32 = False
    for t in tables:
        if t["format"] == 14:
            if t["cmap"]:
                viols.append(violation("cmap-mismatch", dict(feat, subtable="format14-has-plain-mappings"),
                                       observed=_hexmap(t["cmap"])))
            continue
        if t["format"] in (8, 10, 12, 13):
            has32 = True
            want, what = full, "32bit"
        else:
            has16 = True
            want, what = bmp, "16bit"
        if t["cmap"] != want:
            extra = sorted(set(t["cmap"]) - set(want))
            missing = sorted(set(want) - set(t["cmap"]))
            why = ("supplementary-in-16bit" if what == "16bit" and any(c > 0xFFFF for c in extra)
                   else "extra" if extra else "missing" if missing else "wrong-glyph")
            viols.append(violation("cmap-mismatch", dict(feat, subtable=what, why=why),
                                   platform=t["platform"], format=t["format"],
                                   expected=_hexmap(want), observed=_hexmap(t["cmap"])))
    supp = any(cp > 0xFFFF for cp in full)
    if not has16:
        viols.append(violation("cmap-subtables", dict(feat, why="no-16bit-subtable"),
                               observed=[(t["platform"], t["format"]) for t in tables]))
    if supp and not has32:
        viols.append(violation("cmap-subtables", dict(feat, why="supplementary-unmapped-no-32bit-subtable"),
                               observed=[(t["platform"], t["format"]) for t in tables]))
    if has32 and not supp:
        # the property's mechanism: 32-bit subtables are written when a code point > 0xFFFF exists
        viols.append(violation("cmap-subtables", dict(feat, why="32bit-subtable-without-supplementary"),
                               mapping=_hexmap(full),
                               observed=[(t["platform"], t["format"]) for t in tables]))
    return viols


def _hexmap(m):
    return {"%04X" % k: v for k, v in sorted(m.items())}


def _bump(ctrs, key, n=1):
    ctrs[key] = ctrs.get(key, 0) + n


# ------------------------------------------------------------------------------------------------

class C03(Property):
    id = "C03"
    rule = ("sub-state = one call of makeOfficialGlyphOrder on a real font (glyph subset, stored order, "
            "explicit order, UFO library) or one full compile+save+reload (glyph subset / code-point "
            "assignment / UVS history, stored and explicit order, flavour, UFO library); non-trivial = a "
            "listed order changes the result, '.notdef' is synthesised, a code point is supplementary, "
            "at 0xFFFF or declared twice, or a variation sequence is present")
    assumptions = [
        "'sorted by name' is plain string (code point) order: 'B' < 'a'",
        "a name listed more than once takes the position of its first occurrence",
        "an explicit empty glyphOrder argument counts as a requested order (nothing listed)",
        "compiles use useProductionNames=False (renaming is C11) and otherwise default options",
        "the clause '32-bit subtables exist only when a code point above U+FFFF exists' is taken from "
        "the property's mechanism anchor (format 12 pair when any cp > 0xFFFF), reported as its own "
        "kind cmap-subtables/32bit-subtable-without-supplementary",
        "OTF with '.notdef' as the only glyph cannot be saved after subroutinising (C04 subject): the "
        "order is observed on the unsubroutinised build there",
        "fontTools' post / CFF charset / cmap readers are trusted",
    ]
    trusted_base = ["fontTools TTFont reader (post, CFF charset, maxp, cmap 4/12/14)",
                    "ufoLib2 / defcon as containers"]

    def bounds(self, tier):
        if tier == "quick":
            return {"depth": 3, "fn_stored": 4, "fn_explicit": 2, "c_stored": 3, "c_explicit": 2,
                    "c_explicit_stored": 0, "cp_subset": 2, "uvs_depth": 2, "cmap_orders": 1}
        return {"depth": 4, "fn_stored": 5, "fn_explicit": 3, "c_stored": 4, "c_explicit": 3,
                "c_explicit_stored": 0, "cp_subset": 3, "uvs_depth": 3, "cmap_orders": 2}

    # -------------------------------------------------------------------------------- states
    def initial(self, b):
        out = []
        firsts = [None] + ALPHA
        subs = subsets(UNIVERSE)
        for m in ("ufoLib2", "defcon"):
            for names in subs:
                for f in firsts:
                    out.append([{"part": "fn", "module": m, "glyphs": names, "first": f}])
        for m in ("ufoLib2", "defcon"):
            for fl in ("TTF", "OTF"):
                for names in subs:
                    for f in firsts:
                        out.append([{"part": "order", "module": m, "flavour": fl, "glyphs": names,
                                     "first": f}])
                        out.append([{"part": "xorder", "module": m, "flavour": fl, "glyphs": names,
                                     "first": f}])
                    out.append([{"part": "skip", "module": m, "flavour": fl, "glyphs": names}])
                    out.append([{"part": "ndarg", "module": m, "flavour": fl, "glyphs": names}])
        cps = cp_subsets(b["cp_subset"])
        for m in ("ufoLib2", "defcon"):
            for fl in ("TTF", "OTF"):
                for ca in cps:
                    for cb in cps:
                        out.append([{"part": "cmap", "module": m, "flavour": fl, "a": ca, "b": cb}])
        for m in ("ufoLib2", "defcon"):
            for fl in ("TTF", "OTF"):
                for bi in range(len(UVS_BASES)):
                    out.append([{"part": "uvs", "module": m, "flavour": fl, "base": bi}])
        # several variable fonts of one designspace (discrete axis): each follows ITS default source
        for m in ("ufoLib2", "defcon"):
            for fl in ("TTF", "CFF2"):
                for ou in range(len(VF_ORDERS)):
                    for oi in range(len(VF_ORDERS)):
                        if m == "defcon" and ou != oi + 1:
                            continue
                        for nd in (True, False):
                            out.append([{"part": "vforder", "module": m, "flavour": fl, "upright": ou,
                                         "italic": oi, "notdef": nd}])
        # colour glyphs: the alternates made from colour layers are unencoded helper glyphs
        for m in ("ufoLib2", "defcon"):
            for fl in ("TTF", "OTF"):
                for mapping in ("glyph", "font"):
                    for base_cp in (None, 0xE000, 0x41):
                        for comp in (False, True):
                            out.append([{"part": "color", "module": m, "flavour": fl, "mapping": mapping,
                                         "base_cp": base_cp, "composite": comp}])
        return _interleave(out)

    def ops(self, h, b):
        c = h[0]
        if c["part"] != "uvs" or len(h) - 1 >= b["uvs_depth"]:
            return
        last = tuple(h[-1][:2]) if len(h) > 1 else (-1, -1)
        for sel in SELECTORS:
            for base in CPS:
                if (sel, base) <= last:
                    continue   # entries form a dict: only increasing keys (no permutations / overwrites)
                for g in CMAP_GLYPHS:
                    yield [sel, base, g]

    def describe(self, h, b):
        return h

    # -------------------------------------------------------------------------------- run
    def run(self, h, b):
        c = h[0]
        return getattr(self, "_run_" + c["part"])(h, b)

    # ---- function seam ------------------------------------------------------------------
    def _run_fn(self, h, b):
        from ufo2ft.util import makeOfficialGlyphOrder
        c = h[0]
        names, m = c["glyphs"], c["module"]
        expl = [None] + seqs(ALPHA, b["fn_explicit"])
        frozen = [None if e is None else tuple(e) for e in expl]
        ref_expl = [None] + [ref_order(names, None, e, False) for e in expl[1:]]
        variants = chunk(c["first"], b["fn_stored"])
        if c["first"] is None and m == "defcon":
            variants = variants + ["AUTO"]
        viols, ctrs = [], {}
        acc = 0
        calls = nontrivial = 0
        plain = sorted(names)
        for stored in variants:
            font = build(names, stored, m, bare=True)
            st = stored_list(font, stored)
            if stored == "AUTO":
                _bump(ctrs, "fn_defcon_auto_key")
                if st != [n for n in INSERTION if n in names]:
                    _bump(ctrs, "fn_defcon_auto_key_not_insertion_order")
            exp_stored = ref_order(names, st, None, False)
            if st:
                if len(set(st)) < len(st):
                    _bump(ctrs, "fn_stored_with_duplicates")
                if ".notdef" in st[1:]:
                    _bump(ctrs, "fn_stored_notdef_listed_not_first")
                if any(n not in names for n in st):
                    _bump(ctrs, "fn_stored_with_unknown_names")
            for i, e in enumerate(expl):
                got = makeOfficialGlyphOrder(font, e)
                want = exp_stored if e is None else ref_expl[i]
                calls += 1
                acc = (acc * 1000003 + hash(tuple(got))) & 0xFFFFFFFFFFFF
                if want != plain:
                    nontrivial += 1
                if got != want and len(viols) < MAX_VIOLS:
                    viols.append(violation(
                        "glyph-order", {"seam": "function", "why": classify_order(want, got),
                                        "listing": "stored" if e is None else "explicit"},
                        module=m, glyphs=names, stored=stored, explicit=e, expected=want, observed=got))
            if st is not None and stored != "AUTO" and list(font.lib.get("public.glyphOrder")) != st:
                viols.append(violation("glyph-order", {"seam": "function", "why": "stored-order-modified"},
                                       module=m, glyphs=names, stored=stored))
        if [None if e is None else tuple(e) for e in expl] != frozen:
            viols.append(violation("glyph-order", {"seam": "function", "why": "argument-modified"},
                                   module=m, glyphs=names))
        ctrs["fn_calls"] = calls
        ctrs["fn_calls_explicit"] = calls - len(variants)
        return Result(viols, ctrs, "%012x" % acc, substates=calls, nontrivial=nontrivial)

    # ---- compile seam: glyph order ---------------------------------------------------------
    def _order_case(self, names, stored, explicit, m, fl, viols, ctrs, sig, part, skip=None, notdef_arg=None):
        lib = {"public.skipExportGlyphs": list(skip)} if skip else None
        st_holder, keep_alive = [], []
        kw = {} if explicit is None else {"glyphOrder": list(explicit)}

        def make_font():
            f = build(names, stored, m, lib=lib)
            st_holder[:] = [stored_list(f, stored)]
            if notdef_arg == "own":
                kw["notdefGlyph"] = f[[n for n in names if n != ".notdef"][0]]
            elif notdef_arg is not None:
                # a glyph of ANOTHER font (a parts library), named '.notdef' or something else
                other = B.build_font({"glyphs": {notdef_arg: {"width": 620, "contours": [B.box(60, 0, 560, 640)]}}}, m)
                kw["notdefGlyph"] = other[notdef_arg]
                keep_alive.append(other)  # a defcon glyph only holds a weak reference to its font
            return f
        exported = [n for n in names if not skip or n not in skip]
        if notdef_arg is not None:
            font0 = make_font()  # (fills kw["notdefGlyph"]; the font is compiled once)
            tt = compile_reload(lambda: font0, fl, exported, ctrs, **kw)
        else:
            tt = compile_reload(make_font, fl, exported, ctrs, **kw)
        want = ref_order(exported, st_holder[0], explicit, True)
        got = tt.getGlyphOrder()
        ng = tt["maxp"].numGlyphs
        _bump(ctrs, "compiles")
        if ".notdef" not in exported:
            _bump(ctrs, "notdef_synthesised")
        listing = explicit if explicit is not None else (st_holder[0] or [])
        if ".notdef" in listing[1:]:
            _bump(ctrs, "notdef_listed_not_first")
        if len(set(listing)) < len(listing):
            _bump(ctrs, "listing_with_duplicates")
        if explicit is not None and st_holder[0]:
            _bump(ctrs, "explicit_overrides_nonempty_stored")
        feat = {"seam": "compile", "flavour": fl, "listing": "stored" if explicit is None else "explicit"}
        if skip:
            feat["skip"] = True
        if notdef_arg is not None:
            feat["notdef_arg"] = notdef_arg if notdef_arg in ("own", ".notdef") else "other-name"
            _bump(ctrs, "notdef_argument_compiles")
            if ".notdef" not in exported:
                _bump(ctrs, "notdef_argument_used")
                # the supplied glyph is the font's '.notdef': its advance is the supplied glyph's
                want_adv = 500 if notdef_arg == "own" else 620
                if ".notdef" in got and tt["hmtx"][".notdef"][0] != want_adv and len(viols) < MAX_VIOLS:
                    viols.append(violation("notdef-argument-not-used", dict(feat), module=m, glyphs=names,
                                           expected=want_adv, observed=tt["hmtx"][".notdef"][0]))
        if got != want and len(viols) < MAX_VIOLS:
            viols.append(violation("glyph-order", dict(feat, why=classify_order(want, got)), part=part,
                                   module=m, glyphs=names, stored=stored, explicit=explicit, skip=skip,
                                   expected=want, observed=got))
        if ng != len(want) and len(viols) < MAX_VIOLS:
            viols.append(violation("num-glyphs", dict(feat), module=m, glyphs=names, stored=stored,
                                   explicit=explicit, skip=skip, expected=len(want), observed=ng))
        sig.append((got, ng))
        return (".notdef" not in exported
                or want != [".notdef"] + sorted(n for n in exported if n != ".notdef"))

    def _run_order(self, h, b):
        c = h[0]
        names, m, fl = c["glyphs"], c["module"], c["flavour"]
        variants = chunk(c["first"], b["c_stored"])
        if c["first"] is None and m == "defcon":
            variants = variants + ["AUTO"]
        viols, ctrs, sig, nt = [], {}, [], 0
        for stored in variants:
            nt += self._order_case(names, stored, None, m, fl, viols, ctrs, sig, "order")
        return Result(viols, ctrs, digest(sig), substates=len(variants), nontrivial=nt)

    def _run_xorder(self, h, b):
        c = h[0]
        names, m, fl = c["glyphs"], c["module"], c["flavour"]
        if c["first"] is None:
            explicit = [[]]
        else:
            explicit = [[c["first"]] + s for s in seqs(ALPHA, b["c_explicit"] - 1)]
        # the stored order must be ignored when an order is requested; an empty request is the case
        # most easily confused with "nothing requested", so it meets every stored variant
        stored_variants = ["ABSENT", ["c", "a"]]
        if c["first"] is None or b["c_explicit_stored"]:
            stored_variants += [[x] for x in ALPHA]
        viols, ctrs, sig, nt, n = [], {}, [], 0, 0
        for e in explicit:
            for stored in stored_variants:
                nt += self._order_case(names, stored, e, m, fl, viols, ctrs, sig, "xorder")
                n += 1
        return Result(viols, ctrs, digest(sig), substates=n, nontrivial=nt)

    def _run_ndarg(self, h, b):
        """`notdefGlyph=` argument: a source with or without its own '.notdef', the argument being a glyph
        named '.notdef' of another font, a glyph with another name of another font, or a glyph of the
        font itself."""
        c = h[0]
        names, m, fl = c["glyphs"], c["module"], c["flavour"]
        viols, ctrs, sig, nt, n = [], {}, [], 0, 0
        kinds = [".notdef", "_notdef.box"] + (["own"] if [x for x in names if x != ".notdef"] else [])
        for kind in kinds:
            for stored in ("ABSENT", ["c", "a"]):
                nt += self._order_case(names, stored, None, m, fl, viols, ctrs, sig, "ndarg", notdef_arg=kind)
                n += 1
        return Result(viols, ctrs, digest(sig), substates=n, nontrivial=nt)

    def _run_vforder(self, h, b):
        import ufo2ft
        c = h[0]
        names = [n for n in UNIVERSE if c["notdef"] or n != ".notdef"]
        stored = {0: VF_ORDERS[c["upright"]], 1: VF_ORDERS[c["italic"]]}

        def master(weight, ital):
            sp = order_spec(names, stored[ital])
            for i, n in enumerate(sp["glyphs"]):
                sp["glyphs"][n] = {"width": 500 + 100 * ital + weight // 10 + i,
                                   "contours": [B.box(10, 0, 60 + weight // 10 + 20 * ital, 100 + i)]}
                if n == "a":
                    sp["glyphs"][n]["unicodes"] = [0x61]
            sp["info"] = {"styleName": ("Italic" if ital else "Regular") + str(weight)}
            return sp
        ds = B.build_designspace(
            [{"name": "Weight", "tag": "wght", "min": 400, "default": 400, "max": 700},
             {"name": "Italic", "tag": "ital", "values": [0, 1], "default": 0}],
            [{"spec": master(w, it), "location": {"Weight": w, "Italic": it}, "name": "m%d_%d" % (w, it)}
             for it in (0, 1) for w in (400, 700)], module=c["module"])
        fn = ufo2ft.compileVariableTTFs if c["flavour"] == "TTF" else ufo2ft.compileVariableCFF2s
        fonts = fn(ds, useProductionNames=False)
        viols, ctrs, sig = [], {"vf_order_fonts": 0}, []
        feat = {"seam": "compile-variable", "flavour": c["flavour"]}
        if len(fonts) != 2:
            viols.append(violation("variable-font-count", feat, observed=sorted(fonts)))
        seen = set()
        for name, tt in sorted(fonts.items()):
            buf = io.BytesIO()
            tt.save(buf)
            buf.seek(0)
            tt = TTFont(buf)
            ital = 1 if tt["hmtx"]["a"][0] >= 600 else 0
            seen.add(ital)
            st = None if stored[ital] == "ABSENT" else stored[ital]
            want = ref_order(names, st, None, True)
            got = tt.getGlyphOrder()
            ctrs["vf_order_fonts"] += 1
            if got != want:
                viols.append(violation("glyph-order", dict(feat, why=classify_order(want, got), listing="stored",
                                                           which="italic" if ital else "upright"),
                                       module=c["module"], stored=stored, expected=want, observed=got))
            sig.append((ital, got))
        if seen != {0, 1}:
            viols.append(violation("variable-font-count", feat, observed=sorted(fonts)))
        return Result(viols, ctrs, digest(sig), substates=2, nontrivial=int(stored[0] != stored[1]))

    def _run_color(self, h, b):
        """Glyph 'b' is a colour glyph whose colour-layer outline is (optionally) a composite over the
        layer's own 'a', which may declare a code point there.  The character map is that of the
        default layer, whatever the colour layers declare."""
        c = h[0]
        F_ = "com.github.googlei18n.ufo2ft."
        box = B.box(50, 0, 350, 500)
        glyphs = {".notdef": {"width": 500}, "a": {"width": 500, "unicodes": [0x41], "contours": [box]},
                  "b": {"width": 500, "unicodes": [0x42], "contours": [box]}}
        la = {"width": 500, "contours": [B.box(100, 100, 300, 400)]}
        if c["base_cp"] is not None:
            la["unicodes"] = [c["base_cp"]]
        lb = {"width": 500, "unicodes": [0x42]}
        if c["composite"]:
            lb["components"] = [("a", (1, 0, 0, 1, 10, 0))]
        else:
            lb["contours"] = [B.box(120, 100, 320, 400)]
        spec = {"glyphs": glyphs, "order": [".notdef", "a", "b"], "lib": {F_ + "colorPalettes": [[(1.0, 0.0, 0.0, 1.0)]]},
                "layers": {"color1": {"glyphs": {"a": la, "b": lb}}}}
        if c["mapping"] == "glyph":
            glyphs["b"]["lib"] = {F_ + "colorLayerMapping": [("color1", 0)]}
        else:
            spec["lib"][F_ + "colorLayerMapping"] = [("color1", 0)]
        ctrs, viols = {"color_fonts": 1}, []
        feat = {"seam": "compile", "flavour": c["flavour"], "part": "color", "mapping": c["mapping"],
                "layer_base_has_codepoint": c["base_cp"] is not None, "composite": c["composite"]}
        try:
            tt = compile_reload(lambda: B.build_font(spec, c["module"]), c["flavour"], list(glyphs), ctrs)
        except Exception as e:  # noqa: BLE001
            viols.append(violation("colour-font-rejected", dict(feat, type=type(e).__name__), module=c["module"],
                                   message=str(e)[:300]))
            return Result(viols, ctrs, "rejected", substates=1, nontrivial=1)
        want = {0x41: "a", 0x42: "b"}
        got = {}
        for st in tt["cmap"].tables:
            if st.format != 14:
                if st.cmap != want and len(viols) < MAX_VIOLS:
                    viols.append(violation("cmap-mapping", dict(feat, subtable=st.format), module=c["module"],
                                           expected=want, observed=dict(st.cmap)))
                got = dict(st.cmap)
        order = tt.getGlyphOrder()
        if order[:3] != [".notdef", "a", "b"]:
            viols.append(violation("glyph-order", dict(feat, why="sequence"), module=c["module"], observed=order))
        return Result(viols, ctrs, digest([order, sorted(got.items())]), substates=1, nontrivial=1)

    def _run_skip(self, h, b):
        c = h[0]
        names, m, fl = c["glyphs"], c["module"], c["flavour"]
        viols, ctrs, sig, nt, n = [], {}, [], 0, 0
        for sk in names:
            for stored in ("ABSENT", [sk], [x for x in reversed(UNIVERSE)]):
                self._order_case(names, stored, None, m, fl, viols, ctrs, sig, "skip", skip=[sk])
                n += 1
                nt += 1
        if n:
            ctrs["skip_compiles"] = n
        return Result(viols, ctrs, digest(sig), substates=max(n, 1), nontrivial=nt)

    # ---- compile seam: character map -------------------------------------------------------
    def _run_cmap(self, h, b):
        from ufo2ft.errors import InvalidFontData
        c = h[0]
        m, fl = c["module"], c["flavour"]
        viols, ctrs, sig, nt, n = [], {}, [], 0, 0
        orders = ["ABSENT", ["c", "b", "a"]][:b["cmap_orders"]]
        for cc in cp_subsets(b["cp_subset"]):
            assign = {"a": c["a"], "b": c["b"], "c": cc}
            ref = ref_cmap(assign)
            for stored in orders:
                n += 1
                _bump(ctrs, "cmap_assignments")
                feat = {"flavour": fl}
                try:
                    tt = compile_reload(lambda: build(CMAP_GLYPHS, stored, m, cmap=assign), fl,
                                        CMAP_GLYPHS, ctrs)
                except InvalidFontData as e:
                    sig.append("reject")
                    if ref[0] == "reject":
                        _bump(ctrs, "cmap_duplicate_rejected")
                        if any(cp > 0xFFFF for cp in ref[1]):
                            _bump(ctrs, "cmap_duplicate_supplementary_rejected")
                        nt += 1
                    elif len(viols) < MAX_VIOLS:
                        viols.append(violation("spurious-rejection", feat, module=m, assignment=_hexassign(assign),
                                               message=str(e)[:200]))
                    continue
                tables = read_cmap(tt)
                sig.append(tables)
                if ref[0] == "reject":
                    if len(viols) < MAX_VIOLS:
                        viols.append(violation(
                            "duplicate-not-rejected",
                            dict(feat, plane="supplementary" if all(cp > 0xFFFF for cp in ref[1]) else "bmp"),
                            module=m, assignment=_hexassign(assign), duplicated=["%04X" % cp for cp in ref[1]],
                            observed=[(t["platform"], t["format"], _hexmap(t["cmap"])) for t in tables]))
                    continue
                _, bmp, full = ref
                supp = any(cp > 0xFFFF for cp in full)
                if supp:
                    _bump(ctrs, "cmap_with_supplementary")
                    nt += 1
                elif 0xFFFF in full:
                    _bump(ctrs, "cmap_ffff_without_supplementary")
                    nt += 1
                if any(len(v) > 1 for v in assign.values()):
                    _bump(ctrs, "cmap_glyph_with_several_code_points")
                vs = check_cmap_tables(tables, bmp, full, feat)
                for v in vs:
                    if len(viols) < MAX_VIOLS:
                        v["detail"].update(module=m, assignment=_hexassign(assign), stored=stored)
                        viols.append(v)
                got = tt.getGlyphOrder()
                want = ref_order(CMAP_GLYPHS, None if stored == "ABSENT" else stored, None, True)
                if got != want and len(viols) < MAX_VIOLS:
                    viols.append(violation("glyph-order", {"seam": "compile", "flavour": fl, "listing": "stored",
                                                           "why": classify_order(want, got)},
                                           part="cmap", expected=want, observed=got))
        return Result(viols, ctrs, digest(sig), substates=n, nontrivial=nt)

    # ---- compile seam: variation sequences ------------------------------------------------
    def _run_uvs(self, h, b):
        c = h[0]
        m, fl = c["module"], c["flavour"]
        assign = UVS_BASES[c["base"]]
        _, bmp, full = ref_cmap(assign)
        entries = {}
        lib_uvs = {}
        for sel, base, g in h[1:]:
            entries[(sel, base)] = g
            lib_uvs.setdefault("%04X" % sel, {})["%04X" % base] = g
        lib = {UVS_KEY: lib_uvs} if lib_uvs else None
        unmapped = sorted((sel, base) for (sel, base) in entries if base not in full)
        ctrs = {"uvs_states": 1}
        feat = {"flavour": fl}
        viols = []
        for (sel, base), g in entries.items():
            if base not in full:
                _bump(ctrs, "uvs_base_unmapped")
            elif full[base] == g:
                _bump(ctrs, "uvs_default")
            else:
                _bump(ctrs, "uvs_nondefault")
                if g in full.values():
                    _bump(ctrs, "uvs_nondefault_glyph_mapped_elsewhere")
                if base > 0xFFFF:
                    _bump(ctrs, "uvs_nondefault_supplementary_base")
        try:
            tt = compile_reload(lambda: build(CMAP_GLYPHS, "ABSENT", m, cmap=assign, lib=lib), fl,
                                CMAP_GLYPHS, ctrs)
        except KeyError as e:
            if unmapped and _is_int_key(e, [base for _, base in unmapped]):
                # not defined by the statement's wording as a rejection: kept as its own kind
                viols.append(violation("uvs-unmapped-base", {"outcome": "KeyError"}, module=m, flavour=fl,
                                       assignment=_hexassign(assign), sequences=_hexuvs(entries),
                                       message="KeyError: %s" % e))
                return Result(viols, ctrs, "KeyError", substates=1, nontrivial=1)
            raise
        tables = read_cmap(tt)
        viols.extend(check_cmap_tables(tables, bmp, full, feat))
        want = ref_uvs(entries, full)
        f14 = [t for t in tables if t["format"] == 14]
        if want and not f14:
            viols.append(violation("uvs-mismatch", dict(feat, why="no-format14-subtable"),
                                   sequences=_hexuvs(entries)))
        for t in f14:
            got = {sel: lst for sel, lst in t["uvs"].items() if lst}
            if got == want:
                continue
            # classify
            flat_w = {(s, u): g for s, l in want.items() for u, g in l}
            flat_g = {(s, u): g for s, l in got.items() for u, g in l}
            if set(flat_w) != set(flat_g):
                why = "sequence-set"
            elif any(flat_g[k] is None and flat_w[k] is not None for k in flat_w):
                why = "default-but-names-other-glyph"
            elif any(flat_g[k] is not None and flat_w[k] is None for k in flat_w):
                why = "nondefault-but-names-base-glyph"
            else:
                why = "wrong-glyph"
            bad = [k for k in flat_w if flat_g.get(k, "?") != flat_w[k]]
            if unmapped and all(k in unmapped for k in bad) and why != "wrong-glyph":
                # base unmapped: anything but "non-default" is reported under the dedicated kind
                viols.append(violation("uvs-unmapped-base",
                                       {"outcome": "dropped" if why == "sequence-set" else "default"},
                                       module=m, flavour=fl, assignment=_hexassign(assign),
                                       sequences=_hexuvs(entries), observed=_hexuvsd(got)))
            else:
                viols.append(violation("uvs-mismatch", dict(feat, why=why), module=m,
                                       assignment=_hexassign(assign), sequences=_hexuvs(entries),
                                       expected=_hexuvsd(want), observed=_hexuvsd(got)))
        got_order = tt.getGlyphOrder()
        if got_order != [".notdef", "a", "b", "c"]:
            viols.append(violation("glyph-order", {"seam": "compile", "flavour": fl, "listing": "stored",
                                                   "why": "sequence"}, part="uvs", observed=got_order))
        return Result(viols[:MAX_VIOLS], ctrs, digest(tables), substates=1,
                      nontrivial=1 if entries else 0)

    # -------------------------------------------------------------------------------- finish
    def finish(self, b, summary):
        """Non-vacuity: the situations the mutants of DESIGN section 10 need must have been reached."""
        need = ["fn_calls", "fn_stored_with_duplicates", "fn_stored_notdef_listed_not_first",
                "fn_defcon_auto_key", "compiles", "notdef_synthesised", "explicit_overrides_nonempty_stored",
                "cmap_duplicate_rejected", "cmap_duplicate_supplementary_rejected",
                "cmap_with_supplementary", "cmap_ffff_without_supplementary",
                "uvs_default", "uvs_nondefault_glyph_mapped_elsewhere", "uvs_base_unmapped"]
        missing = [k for k in need if not summary["counters"].get(k)]
        if missing:
            return [violation("vacuous", {"missing": missing})]
        return []


def _interleave(hists):
    """Round-robin over (part, library, flavour) groups, keeping the small-to-large order inside
    each group: cheap and expensive states are spread evenly over the worker batches."""
    groups = {}
    for h in hists:
        c = h[0]
        groups.setdefault((c["part"], c["module"], c.get("flavour")), []).append(h)
    out = []
    iters = [iter(g) for g in groups.values()]
    while iters:
        alive = []
        for it in iters:
            x = next(it, None)
            if x is not None:
                out.append(x)
                alive.append(it)
        iters = alive
    return out


def _is_int_key(e, bases):
    return len(e.args) == 1 and e.args[0] in bases


def _hexassign(assign):
    return {g: ["%04X" % cp for cp in cps] for g, cps in assign.items()}


def _hexuvs(entries):
    return [["%04X" % s, "%04X" % u, g] for (s, u), g in sorted(entries.items())]


def _hexuvsd(d):
    return {"%04X" % s: [["%04X" % u, g] for u, g in l] for s, l in sorted(d.items())}


PROPERTY = C03()
