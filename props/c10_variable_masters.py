"""C10 — a variable font reproduces each master at that master's location.

Exhaustive product: master topology x axis map x per-master kerning presence pattern (every
assignment of {absent, v1, v2} to a class pair and to its glyph exception in every master) x
per-master anchor palette x flavour {TTF, CFF2} x variableFeatures {on, off}.  Every state builds
the variable font with the real compiler, instantiates it (fontTools instancer) at every FULL
master's location and compares: outlines / advances with the interpolatable master (+-1 unit),
kerning of every ordered glyph pair with the master UFO's kerning (mc/kern_ref.py through the
GPOS interpreter), mark attachment with the master's anchors.
"""

from __future__ import annotations

import itertools

from fontTools.pens.recordingPen import DecomposingRecordingPen

from mc import kern_ref as K
from mc import otl_ref as O
from mc import ufo_build as B
from mc.explore import Property, Result, digest, violation
from mc.outline_ref import otround

GLYPHS = ["a", "b", "c", "acutecomb", "h", "k"]
G1, G2 = "public.kern1.A", "public.kern2.B"
KV = [None, -20, -50]
TOPOLOGIES = {
    # name: (axes, [(location, kind)]) kind: "full" | "sparse"
    "2m": (["Weight"], [({"Weight": 0}, "full"), ({"Weight": 1000}, "full")]),
    "3m": (["Weight"], [({"Weight": 0}, "full"), ({"Weight": 500}, "full"), ({"Weight": 1000}, "full")]),
    "2m+sparse": (["Weight"], [({"Weight": 0}, "full"), ({"Weight": 500}, "sparse"), ({"Weight": 1000}, "full")]),
    # the sparse layer lives in the LAST master's UFO and its source is listed before that master
    "2m+sparse-of-last": (["Weight"], [({"Weight": 0}, "full"), ({"Weight": 500}, "sparse-next"),
                                       ({"Weight": 1000}, "full")]),
    "4c": (["Weight", "Width"], [({"Weight": 0, "Width": 0}, "full"), ({"Weight": 1000, "Width": 0}, "full"),
                                ({"Weight": 0, "Width": 1000}, "full"), ({"Weight": 1000, "Width": 1000}, "full")]),
}
ANCHOR_PAL = [(250, 600), (260.5, 640), (300, 700.5), (240, 590)]


W2_LIB = {"com.github.googlei18n.ufo2ft.featureWriters": [
    {"module": "ufo2ft.featureWriters.kernFeatureWriter2", "class": "KernFeatureWriter"},
    {"class": "MarkFeatureWriter"}, {"class": "GdefFeatureWriter"}, {"class": "CursFeatureWriter"}]}


def master_spec(i, kcc, kgg, anchor, khalf=None, no_base_pair=False):
    d = 20 * i
    glyphs = {
        ".notdef": {"width": 500, "contours": [B.box(50, 0, 450, 700)]},
        "a": {"width": 500 + d, "unicodes": [0x61], "anchors": [("top", anchor[0], anchor[1])],
              "contours": [[(0, 0, "line"), (100 + d, 0, "line"), (120 + d, 40, None), (60, 90 + d, None), (0, 50, "curve")]]},
        "b": {"width": 520 + d, "unicodes": [0x62], "contours": [B.box(10, 0, 90 + d, 100 + d)],
              "anchors": [("top", 200 + d, 650)]},
        "c": {"width": 540, "unicodes": [0x63], "components": [("a", (1, 0, 0, 1, 10 + d, 0))]},
        "acutecomb": {"width": 0, "unicodes": [0x301], "contours": [B.box(-20, 500, 20 + d, 560)],
                      "anchors": [("_top", 0, 500 + i)]},
        # a pure composite whose component is an identity reference in the first master and carries a
        # 2x2 in the later ones (the masters must be decomposed jointly)
        "k": {"width": 570 + d, "unicodes": [0x6B],
              "components": [("b", (1, 0, 0, 1, 30, 0) if i == 0 else (1.25, 0, 0, 1.25, 30, 0))]},
        # a node lying exactly on a horizontal edge in the first master and displaced in the others
        # and a curve that is flat in the first master only:
        # compatible point-for-point, but reducible by a per-master charstring optimiser
        "h": {"width": 560, "unicodes": [0x68],
              "contours": [[(0, 0, "line"), (50, 0 + d, "line"), (100, 0, "line"), (100, 100, "line"),
                            (0, 100 + d, "line")],
                           [(200, 0, "line"), (200, 30 * i, None), (300, 30 * i, None), (300, 0, "curve"),
                            (300, -50, "line"), (200, -50, "line")]]},
    }
    kerning = [] if no_base_pair else [("b", "a", -10 - i)]
    if kcc is not None:
        kerning.append((G1, G2, kcc))
    if kgg is not None:
        kerning.append(("a", "b", kgg))
    if khalf is not None:
        kerning.append(("c", G2, khalf))  # glyph-to-group exception of the class pair
    return {"glyphs": glyphs, "order": list(glyphs), "groups": {G1: ["a", "c"], G2: ["b"]}, "kerning": kerning,
            "info": {"styleName": f"M{i}"}}


def build_ds(c):
    axes_names, masters = TOPOLOGIES[c["topo"]]
    axes = []
    for n in axes_names:
        ax = {"name": n, "tag": "wght" if n == "Weight" else "wdth", "min": 0, "default": 0, "max": 1000}
        if c["axis_map"]:
            # user space 100..900, design space 0..1000 (non-linear in the middle)
            ax.update({"min": 100, "default": 100, "max": 900, "map": [(100, 0), (400, 500), (900, 1000)]})
        axes.append(ax)
    sources, specs = [], []
    fi = 0
    pending_sparse = None
    for mi, (loc, kind) in enumerate(masters):
        if kind == "full":
            kcc, kgg = c["kern"][fi]
            kh = c.get("half", [0] * 8)[fi]
            spec = master_spec(mi, KV[kcc], KV[kgg], ANCHOR_PAL[c["anchors"][fi] % len(ANCHOR_PAL)],
                               khalf=[None, -35][kh], no_base_pair=bool(c.get("empty_default")) and fi == 0)
            fi += 1
            if c.get("w2"):
                spec["lib"] = dict(W2_LIB)  # the alternative kern writer, selected through the UFO lib
            specs.append(spec)
            sources.append({"spec": spec, "location": loc, "name": f"m{mi}", "share": f"m{mi}"})
            if pending_sparse is not None:
                smi, sloc = pending_sparse
                g = spec["glyphs"]["a"]
                spec.setdefault("layers", {})["mid"] = {"glyphs": {"a": {
                    "width": g["width"] - 15,
                    "contours": [[(p[0] - 3, p[1], p[2]) for p in g["contours"][0]]]}}}
                sources[smi] = {"spec": spec, "share": f"m{mi}", "layerName": "mid", "location": sloc, "name": "mid"}
                pending_sparse = None
        elif kind == "sparse-next":
            pending_sparse = (mi, loc)  # attached to the next full master's font below
            specs.append(None)
            sources.append(None)
        else:
            sp0 = specs[0]
            g = sp0["glyphs"]["a"]
            sp0.setdefault("layers", {})["mid"] = {"glyphs": {"a": {
                "width": g["width"] + 5,
                "contours": [[(p[0] + 3, p[1], p[2]) for p in g["contours"][0]]]}}}
            sources.append({"spec": sp0, "share": "m0", "layerName": "mid", "location": loc, "name": "mid"})
            specs.append(None)
    if c.get("default_last"):
        # the default source need not be listed first
        order = list(range(1, len(sources))) + [0]
        sources = [sources[i] for i in order]
        specs = [specs[i] for i in order]
        masters = [masters[i] for i in order]
    ds = B.build_designspace(axes, sources)
    return ds, specs, masters, axes


def user_location(axes, loc, mapped):
    out = {}
    for ax in axes:
        v = loc[ax["name"]]
        if mapped:
            # inverse of the design map
            pts = ax["map"]
            for (u0, d0), (u1, d1) in zip(pts, pts[1:]):
                if d0 <= v <= d1:
                    v = u0 + (u1 - u0) * (v - d0) / (d1 - d0)
                    break
        out[ax["tag"]] = v
    return out


def outline(tt, name):
    gs = tt.getGlyphSet()
    pen = DecomposingRecordingPen(gs)
    gs[name].draw(pen)
    return [(op, [tuple(p) for p in args if p is not None]) for op, args in pen.value]


def close_enough(o1, o2, tol):
    if len(o1) != len(o2):
        return False
    for (op1, a1), (op2, a2) in zip(o1, o2):
        if op1 != op2 or len(a1) != len(a2):
            return False
        for p, q in zip(a1, a2):
            if abs(p[0] - q[0]) > tol or abs(p[1] - q[1]) > tol:
                return False
    return True


# ---- several variable fonts cut out of one designspace (format 5 <variable-fonts>) -----------------
MULTI_LOCS = [0, 400, 600, 1000]
MULTI_VFS = {"TextVF": (0, 0, 400, [0, 1]), "DisplayVF": (600, 600, 1000, [2, 3])}  # min, default, max, masters
MULTI_GLYPHS = ["a", "b", "c", "acutecomb", "ogonekcomb", "k"]


def build_multi(c):
    """Four masters on one axis, two variable fonts over disjoint sub-ranges with their OWN default
    masters.  c["extra"] names the variable font whose masters use an additional anchor class
    (ogonek / _ogonek) that the other cut does not have; kerning differs per master."""
    specs = []
    for mi, loc in enumerate(MULTI_LOCS):
        kcc, kgg = c["kern"][mi % len(c["kern"])]
        spec = master_spec(mi, KV[kcc], KV[kgg], ANCHOR_PAL[mi % len(ANCHOR_PAL)])
        spec["glyphs"]["ogonekcomb"] = {"width": 0, "unicodes": [0x328], "anchors": [],
                                        "contours": [B.box(-20, -150, 20 + 20 * mi, -90)]}
        spec["order"] = list(spec["glyphs"])
        in_extra = any(mi in MULTI_VFS[v][3] for v in c["extra"])
        if in_extra:
            spec["glyphs"]["a"]["anchors"].append(("ogonek", 400 + 20 * mi, -10))
            spec["glyphs"]["ogonekcomb"]["anchors"].append(("_ogonek", 5 + mi, 0))
        specs.append(spec)
    sources = [{"spec": sp, "location": {"Weight": loc}, "name": f"m{mi}", "share": f"m{mi}"}
               for mi, (sp, loc) in enumerate(zip(specs, MULTI_LOCS))]
    if c.get("reverse"):
        sources = sources[::-1]
    axes = [{"name": "Weight", "tag": "wght", "min": 0, "default": 0, "max": 1000}]
    vfs = [{"name": n, "axes": [{"name": "Weight", "min": lo, "default": df, "max": hi}]}
           for n, (lo, df, hi, _) in MULTI_VFS.items()]
    if c.get("reverse"):
        vfs = vfs[::-1]
    ds = B.build_designspace(axes, sources, variable_fonts=vfs, format_version="5.0")
    return ds, specs


def run_multi(c):
    import ufo2ft
    from fontTools.varLib import instancer
    ds, specs = build_multi(c)
    viols, sig = [], []
    ctr = {"master_instances": 0, "pair_checks": 0, "anchor_checks": 0, "outline_checks": 0,
           "multi_vf_fonts": 0, "multi_vf_extra_anchor_class_checks": 0}
    feat = {"topo": "multi-vf", "flavour": c["flavour"], "vf": c["vf"], "extra": c["extra"]}
    if c["flavour"] == "ttf":
        fonts = ufo2ft.compileVariableTTFs(ds, useProductionNames=False, variableFeatures=c["vf"])
        mds = ufo2ft.compileInterpolatableTTFsFromDS(build_multi(c)[0], useProductionNames=False)
    else:
        fonts = ufo2ft.compileVariableCFF2s(ds, useProductionNames=False, variableFeatures=c["vf"])
        mds = ufo2ft.compileInterpolatableOTFsFromDS(build_multi(c)[0], useProductionNames=False)
    master_fonts = {s.name: s.font for s in mds.sources}
    if sorted(fonts) != sorted(MULTI_VFS):
        viols.append(violation("variable-font-set", dict(feat), observed=sorted(fonts), expected=sorted(MULTI_VFS)))
    for vname, (lo, df, hi, members) in MULTI_VFS.items():
        if vname not in fonts:
            continue
        vfont = O.reload(fonts[vname])
        ctr["multi_vf_fonts"] += 1
        f2 = dict(feat, font=vname)
        for mi in members:
            spec = specs[mi]
            inst = O.reload(instancer.instantiateVariableFont(vfont, {"wght": MULTI_LOCS[mi]}, inplace=False))
            ctr["master_instances"] += 1
            mfont = master_fonts[f"m{mi}"]
            for g in MULTI_GLYPHS:
                ctr["outline_checks"] += 1
                o1, o2 = outline(inst, g), outline(mfont, g)
                if not close_enough(o1, o2, 1.0):
                    viols.append(violation("outline-differs-at-master", dict(f2), master=mi, glyph=g,
                                           instance=o1, expected=o2))
                if abs(inst["hmtx"][g][0] - spec["glyphs"][g]["width"]) > 1:
                    viols.append(violation("advance-differs-at-master", dict(f2), master=mi, glyph=g,
                                           instance=inst["hmtx"][g][0], expected=spec["glyphs"][g]["width"]))
            lay = O.Layout(inst)
            kerning = {(k[0], k[1]): k[2] for k in spec["kerning"]}
            exported = set(inst.getGlyphOrder())
            if lay.gpos is not None:
                tag = lay.select_script_tag("Latn")
                kl = lay.lookups_for(tag, {"kern"}) if tag else []
                ml = lay.lookups_of_features({"mark", "mkmk"})
            else:
                kl, ml = [], []
            for g1 in MULTI_GLYPHS:
                for g2 in MULTI_GLYPHS:
                    want, level = K.lookup(kerning, spec["groups"], g1, g2, exported)
                    adj = lay.pair_adjust(kl, g1, g2) if kl else {"xAdv1": 0, "xAdv2": 0}
                    got = adj["xAdv1"] + adj["xAdv2"]
                    ctr["pair_checks"] += 1
                    if got != K.quantise(want):
                        viols.append(violation("kerning-differs-at-master", dict(f2, level=level), master=mi,
                                               pair=(g1, g2), instance=got, expected=want))
                    sig.append((vname, mi, g1, g2, got))
            anchors = {g: {a[0]: (otround(a[1]), otround(a[2])) for a in spec["glyphs"][g].get("anchors", ())}
                       for g in MULTI_GLYPHS}
            for base, mark, cls in (("a", "acutecomb", "top"), ("b", "acutecomb", "top"),
                                    ("a", "ogonekcomb", "ogonek"), ("b", "ogonekcomb", "ogonek")):
                att = lay.mark_attachments(ml, base, mark) if ml else []
                ctr["anchor_checks"] += 1
                if cls in anchors[base] and "_" + cls in anchors[mark]:
                    if cls == "ogonek":
                        ctr["multi_vf_extra_anchor_class_checks"] += 1
                    want = (anchors[base][cls], anchors[mark]["_" + cls])
                    if not att or (att[-1]["base_anchor"], att[-1]["mark_anchor"]) != want:
                        viols.append(violation("anchor-differs-at-master", dict(f2, cls=cls), master=mi, base=base,
                                               instance=att[-1:] if att else None, expected=want))
                elif att:
                    viols.append(violation("attachment-without-anchors", dict(f2, cls=cls), master=mi, base=base,
                                           instance=att[-1:]))
                sig.append((vname, mi, base, mark, att[-1]["offset"] if att else None))
    seen, out = set(), []
    for v in viols:
        k = (v["kind"], str(sorted(v["features"].items())))
        if k not in seen:
            seen.add(k)
            out.append(v)
    return Result(out, ctr, digest(sig), substates=ctr["master_instances"], nontrivial=1)


class C10(Property):
    id = "C10"
    rule = ("state = (topology, axis map, per-master kerning presence pattern, per-master anchors, flavour, "
            "variableFeatures); every full master location of every state is instantiated and compared; "
            "non-trivial = some master lacks a pair another master has, or masters differ in an anchor")
    assumptions = [
        "fontTools.varLib.instancer is the trusted evaluator of the variable font at a location",
        "outlines are compared with the interpolatable master within 1 unit (statement); kerning and "
        "anchors exactly (integer master data; fractional anchors rounded half up)",
        "kerning groups are identical in all masters (the writer requires it)",
        "a default master without any kerning next to kerned masters is explored with variable features only: "
        "merging per-master GPOS tables requires the same feature list in every master (varLib precondition)",
    ]
    trusted_base = ["fontTools.varLib.instancer", "fontTools binary reader", "mc/otl_ref.py", "mc/kern_ref.py"]

    def bounds(self, tier):
        if tier == "quick":
            return {"depth": 0, "topos": ["2m", "3m", "2m+sparse", "2m+sparse-of-last", "4c"], "full3": False,
                    "flavours": ["ttf", "cff2"], "vf": [True, False]}
        return {"depth": 0, "topos": ["2m", "3m", "2m+sparse", "2m+sparse-of-last", "4c"], "full3": True,
                "flavours": ["ttf", "cff2"], "vf": [True, False]}

    def initial(self, b):
        out = []
        pat = list(itertools.product(range(3), repeat=2))  # (class value idx, exception value idx) per master
        for topo in b["topos"]:
            nfull = sum(1 for _, k in TOPOLOGIES[topo][1] if k == "full")
            if nfull == 2 or b["full3"] and nfull == 3:
                kerns = list(itertools.product(pat, repeat=nfull))
            elif nfull == 3:
                # quick: middle master follows the first or the last master, or is empty
                kerns = [(k0, km, k1) for k0 in pat for k1 in pat for km in {k0, k1, (0, 0)}]
            else:
                # 4 corners: two free masters, the other two copy them (and one variant with an empty corner)
                kerns = [(k0, k1, k0, k1) for k0 in pat for k1 in pat] + [(k0, k1, (0, 0), k1) for k0 in pat for k1 in pat]
            for kern in kerns:
                if topo == "2m+sparse-of-last" and b["tier"] == "quick" and kerns.index(kern) % 4:
                    continue  # quick: every fourth kerning pattern on this source order
                for fl in b["flavours"]:
                    for vf in b["vf"]:
                        if vf and kern[0] == (0, 0) and any(k != (0, 0) for k in kern[1:]) and topo in ("2m", "3m"):
                            # (variable features only: merging per-master tables needs the same feature
                            #  list in every master, which varLib states as a precondition)
                            # the default master has no kerning AT ALL, other masters are kerned
                            out.append([{"topo": topo, "kern": [list(k) for k in kern], "anchors": [0] * nfull,
                                         "flavour": fl, "vf": vf, "axis_map": False, "empty_default": True}])
                        for amap in (False, True):
                            if amap and b["tier"] == "quick" and kerns.index(kern) % 3:
                                continue  # quick: the axis map on every third kerning pattern
                            anchors = [0, 1, 2, 3][:nfull] if (kern[0][0] + kern[-1][1]) % 2 else [0] * nfull
                            out.append([{"topo": topo, "kern": [list(k) for k in kern], "anchors": anchors,
                                         "flavour": fl, "vf": vf, "axis_map": amap}])
                            if nfull == 2 and amap is False and (b["tier"] != "quick" or kerns.index(kern) % 3 == 0):
                                out.append([{"topo": topo, "kern": [list(k) for k in kern], "anchors": anchors,
                                             "flavour": fl, "vf": vf, "axis_map": amap, "w2": True}])
                                out.append([{"topo": topo, "kern": [list(k) for k in kern], "anchors": anchors,
                                             "flavour": fl, "vf": vf, "axis_map": amap, "w2": True, "half": [1, 0]}])
                            if nfull == 2 and amap is False and (b["tier"] != "quick" or all(k[1] == 0 for k in kern)):
                                # the half-class exception present in the first, the second or both masters
                                for half in ([1, 0], [0, 1], [1, 1]):
                                    out.append([{"topo": topo, "kern": [list(k) for k in kern], "anchors": anchors,
                                                 "flavour": fl, "vf": vf, "axis_map": amap, "half": half}])
                            if kern in (kerns[1], kerns[-2]) and topo in ("2m", "3m", "2m+sparse"):
                                out.append([{"topo": topo, "kern": [list(k) for k in kern], "anchors": anchors,
                                             "flavour": fl, "vf": vf, "axis_map": amap, "default_last": True}])
                            if fl == "cff2" and kern == kerns[0]:
                                out.append([{"topo": topo, "kern": [list(k) for k in kern], "anchors": anchors,
                                             "flavour": fl, "vf": vf, "axis_map": amap, "opt0": True}])
        # several variable fonts of one designspace, each with its own default master
        mk = [[(1, 2), (2, 1)], [(1, 0), (0, 1)], [(2, 2), (0, 0)]]
        for kern in (mk if b["tier"] != "quick" else mk[:2]):
            for fl in b["flavours"]:
                for vf in b["vf"]:
                    for extra in (["DisplayVF"], ["TextVF"], [], ["TextVF", "DisplayVF"]):
                        for rev in (False, True):
                            out.append([{"part": "multi", "kern": [list(k) for k in kern], "flavour": fl, "vf": vf,
                                         "extra": extra, "reverse": rev}])
        return out

    def run(self, h, b):
        import ufo2ft
        from fontTools.varLib import instancer
        c = h[0]
        if c.get("part") == "multi":
            return run_multi(c)
        ds, specs, masters, axes = build_ds(c)
        viols = []
        ctr = {"master_instances": 0, "pair_checks": 0, "pairs_absent_in_this_master_present_elsewhere": 0,
               "anchor_checks": 0, "outline_checks": 0}
        feat = {"topo": c["topo"], "flavour": c["flavour"], "vf": c["vf"], "axis_map": c["axis_map"],
                "writer2": bool(c.get("w2"))}
        if c["flavour"] == "ttf":
            vfont = ufo2ft.compileVariableTTF(ds, useProductionNames=False, variableFeatures=c["vf"])
            ds2, _, _, _ = build_ds(c)
            mds = ufo2ft.compileInterpolatableTTFsFromDS(ds2, useProductionNames=False)
        else:
            # optimizeCFF: the default (specialise the merged variable charstrings) or 0
            okw = {"optimizeCFF": 0} if c.get("opt0") else {}
            vfont = ufo2ft.compileVariableCFF2(ds, useProductionNames=False, variableFeatures=c["vf"], **okw)
            ds2, _, _, _ = build_ds(c)
            mds = ufo2ft.compileInterpolatableOTFsFromDS(ds2, useProductionNames=False)
        vfont = O.reload(vfont)
        master_fonts = [s.font for s in mds.sources]
        sig = []
        nontrivial = 0
        all_keys = set()
        for sp in specs:
            if sp:
                all_keys |= {(k[0], k[1]) for k in sp["kerning"]}
        for mi, (loc, kind) in enumerate(masters):
            if kind != "full":
                continue
            spec = specs[mi]
            uloc = user_location(axes, loc, c["axis_map"])
            inst = instancer.instantiateVariableFont(vfont, uloc, inplace=False)
            inst = O.reload(inst)
            ctr["master_instances"] += 1
            mfont = master_fonts[mi]
            # ---- outlines and advances --------------------------------------------------
            for g in GLYPHS:
                if g == "h" and c["flavour"] == "cff2" and not c.get("opt0"):
                    # the specialiser legitimately simplifies this glyph's degenerate segments in the
                    # variable font (see KF-C12-*); the build must succeed, the point structure is compared
                    # in the optimizeCFF=0 states
                    continue
                ctr["outline_checks"] += 1
                o1, o2 = outline(inst, g), outline(mfont, g)
                if not close_enough(o1, o2, 1.0):
                    viols.append(violation("outline-differs-at-master", dict(feat), master=mi, glyph=g,
                                           instance=o1, expected=o2))
                src_w = spec["glyphs"][g]["width"]
                if abs(inst["hmtx"][g][0] - src_w) > 1:
                    viols.append(violation("advance-differs-at-master", dict(feat), master=mi, glyph=g,
                                           instance=inst["hmtx"][g][0], expected=src_w))
            # ---- kerning -----------------------------------------------------------------
            lay = O.Layout(inst)
            kerning = {(k[0], k[1]): k[2] for k in spec["kerning"]}
            exported = set(inst.getGlyphOrder())
            if any(k not in kerning for k in all_keys):
                nontrivial = 1
            if lay.gpos is not None:
                tag = lay.select_script_tag("Latn")
                kl = lay.lookups_for(tag, {"kern"}) if tag else []
                ml = lay.lookups_of_features({"mark", "mkmk"})
            else:
                kl, ml = [], []
            for g1 in GLYPHS:
                for g2 in GLYPHS:
                    want, level = K.lookup(kerning, spec["groups"], g1, g2, exported)
                    adj = lay.pair_adjust(kl, g1, g2) if kl else {"xAdv1": 0, "xAdv2": 0}
                    got = adj["xAdv1"] + adj["xAdv2"]
                    ctr["pair_checks"] += 1
                    if level != "gg" and (g1, g2) in all_keys or (level in ("none",) and any(
                            K.lookup({(k[0], k[1]): k[2] for k in sp["kerning"]}, sp["groups"], g1, g2, exported)[1] != "none"
                            for sp in specs if sp)):
                        ctr["pairs_absent_in_this_master_present_elsewhere"] += 1
                    if got != K.quantise(want):
                        viols.append(violation("kerning-differs-at-master", dict(feat, level=level), master=mi,
                                               pair=(g1, g2), instance=got, expected=want,
                                               kerning_per_master=[sp["kerning"] if sp else None for sp in specs]))
                    sig.append((mi, g1, g2, got))
            # ---- mark attachment -------------------------------------------------------------
            mk = spec["glyphs"]["acutecomb"]["anchors"][0]
            for base in ("a", "b"):
                ba = spec["glyphs"][base]["anchors"][0]
                att = lay.mark_attachments(ml, base, "acutecomb") if ml else []
                ctr["anchor_checks"] += 1
                want_b = (otround(ba[1]), otround(ba[2]))
                want_m = (otround(mk[1]), otround(mk[2]))
                if not att or att[-1]["base_anchor"] != want_b or att[-1]["mark_anchor"] != want_m:
                    viols.append(violation("anchor-differs-at-master", dict(feat), master=mi, base=base,
                                           instance=att[-1:] if att else None, expected=(want_b, want_m)))
                sig.append((mi, base, att[-1]["offset"] if att else None))
        if len(set(c["anchors"])) > 1:
            nontrivial = 1
        seen, out = set(), []
        for v in viols:
            k = (v["kind"], str(sorted(v["features"].items())))
            if k not in seen:
                seen.add(k)
                out.append(v)
        return Result(out, ctr, digest(sig), substates=ctr["master_instances"], nontrivial=nontrivial)

    def describe(self, h, b):
        return h[0]


PROPERTY = C10()
