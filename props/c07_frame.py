"""C07 — compiling never modifies the caller's sources unless inplace is requested.

State = (compile function, UFO library, set of <= k ingredients) + a call history on the *same*
source objects.  In every state the real compile function is run, and the deep snapshot of every
caller-owned object (all layers of every source font, the designspace document) taken before the
first call must equal the snapshot after every call, whether the call returned or raised.
"""

from __future__ import annotations

import copy
import io
import itertools

from mc import snapshot as S
from mc import ufo_build as B
from mc.explore import Property, Result, digest, violation

STATIC = ["compileTTF", "compileOTF"]
UFOLIST = ["compileInterpolatableTTFs"]
DSFUNCS = ["compileVariableTTFs", "compileInterpolatableTTFsFromDS", "compileInterpolatableOTFsFromDS",
           "compileVariableTTF", "compileVariableCFF2", "compileVariableCFF2s"]
FUNCS = STATIC + UFOLIST + DSFUNCS
TTF_FUNCS = {"compileTTF", "compileInterpolatableTTFs", "compileVariableTTFs",
             "compileInterpolatableTTFsFromDS", "compileVariableTTF"}
VAR_FUNCS = {"compileVariableTTFs", "compileVariableTTF", "compileVariableCFF2", "compileVariableCFF2s"}

F = "com.github.googlei18n.ufo2ft."


def base_spec(m: int) -> dict:
    """Master m (0 or 1) of a small but rich family; masters are point-compatible."""
    d = 10 * m
    tri = [[(0, 0, "line"), (100.5 + d, 0, "line"), (40, 80.5 + d, "line")]]
    cubic = [[(0, 0, "line"), (30, -20, None), (70.5 + d, -20, None), (100 + d, 0, "curve"),
              (120 + d, 40, None), (60, 90.5, None), (0, 50 + d, "curve")]]
    overlap = [B.box(0, 0, 100 + d, 100), B.box(50, 50, 150 + d, 150)]
    glyphs = {
        ".notdef": {"width": 500, "contours": [B.box(50, 0, 450, 700)]},
        "space": {"width": 250 + d, "unicodes": [0x20]},
        "a": {"width": 500 + d, "unicodes": [0x61], "contours": tri,
              "anchors": [("top", 50 + d, 90), ("bottom", 50, -10)],
              "lib": {"my.glyph.key": {"nested": [1, 2, {"x": 1}]}}},
        "b": {"width": 510.5, "unicodes": [0x62], "contours": cubic, "anchors": [("top", 60, 95.5)]},
        "o": {"width": 600, "unicodes": [0x6F], "contours": overlap},
        "c": {"width": 520, "unicodes": [0x63], "components": [("a", (1, 0, 0, 1, 10.5 + d, -3))],
              "anchors": [("bottom", 10, -20)]},
        "d": {"width": 530, "unicodes": [0x64], "components": [("c", (-1, 0, 0, 1, 300, 0)),
                                                               ("b", (0.5, 0, 0, 0.5, 0, 100 + d))]},
        "e": {"width": 540, "unicodes": [0x65], "contours": [B.box(0, 0, 50, 50 + d)],
              "components": [("a", (1, 0, 0, 1, 100, 0))]},
        # a composite whose base is itself a mixed glyph (contours plus components)
        "g": {"width": 550, "unicodes": [0x67], "components": [("e", (1, 0, 0, 1, 20 + d, 0))]},
        "acutecomb": {"width": 0, "unicodes": [0x301], "contours": [B.box(-30, 600, 30 + d, 700)],
                      "anchors": [("_top", 0, 600), ("top", 0, 710 + d)]},
        "f_i": {"width": 700, "contours": [B.box(0, 0, 300, 300 + d)],
                "anchors": [("top_1", 100, 500), ("top_2", 400 + d, 500), ("caret_1", 350, 0)]},
    }
    spec = {
        "glyphs": glyphs,
        "order": list(glyphs),
        "kerning": {"a b": -50 - d, "public.kern1.A public.kern2.B": 20.5, "a public.kern2.B": -7},
        "groups": {"public.kern1.A": ["a", "c"], "public.kern2.B": ["b", "d"], "other.group": ["a", "e"]},
        "lib": {"my.font.key": {"list": [1, 2.5, "x"], "dict": {"k": [True]}}},
        "info": {"styleName": "Regular" if m == 0 else "Bold",
                 "openTypeOS2Panose": [2, 0, 0, 0, 0, 0, 0, 0, 0, 0],
                 "openTypeNameRecords": [{"nameID": 19, "platformID": 3, "encodingID": 1,
                                          "languageID": 0x409, "string": "abc"}],
                 "postscriptBlueValues": [-10, 0, 500, 510],
                 "openTypeOS2Selection": [7], "guidelines": [{"x": 10, "y": 20, "angle": 30, "name": "g"}]},
        "layers": {"background": {"glyphs": {"a": {"width": 1, "contours": [B.box(0, 0, 5, 5)]}},
                                  "lib": {"layer.key": [1, 2]}}},
    }
    return spec


# ---- ingredients: each may edit the master specs, the designspace kwargs and the call options.
# An ingredient returns False if it does not apply to the function under test (then the case is
# canonically equal to the one without it and is deduplicated).

def _libfilter(name, pre=False, **kw):
    def ing(ctx):
        for sp in ctx["specs"]:
            sp["lib"].setdefault(F + "filters", []).append(
                dict({"name": name, "pre": pre}, **({"kwargs": kw} if kw else {})))
        return True
    return ing


_COMPILER = {
    "compileTTF": "TTFCompiler", "compileOTF": "OTFCompiler",
    "compileInterpolatableTTFs": "InterpolatableTTFCompiler",
    "compileVariableTTFs": "VariableTTFsCompiler",
    "compileInterpolatableTTFsFromDS": "InterpolatableTTFCompiler",
    "compileInterpolatableOTFsFromDS": "InterpolatableOTFCompiler",
    "compileVariableTTF": "VariableTTFsCompiler", "compileVariableCFF2": "VariableCFF2sCompiler",
    "compileVariableCFF2s": "VariableCFF2sCompiler"}


def accepts(fn, name):
    import dataclasses
    import ufo2ft
    cls = getattr(ufo2ft, _COMPILER[fn])
    return name in {f.name for f in dataclasses.fields(cls)}


def _opt(name, value, only=None):
    def ing(ctx):
        if only is not None and ctx["fn"] not in only:
            return False
        if not accepts(ctx["fn"], name):
            return False
        ctx["opts"][name] = value
        return True
    return ing


def _skip_arg(ctx):
    # 'c' is a composite of 'a': a non-exported composite built from another non-exported glyph
    ctx["opts"]["skipExportGlyphs"] = ["a", "c", "acutecomb"]
    return True


def _skip_lib(ctx):
    for i, sp in enumerate(ctx["specs"]):
        # (the later masters name a glyph the first one does not: the union is built by the compiler)
        sp["lib"]["public.skipExportGlyphs"] = ["a", "c"] if i == 0 else ["c", "acutecomb"]
    return True


def _skip_dslib(ctx):
    if ctx["fn"] not in DSFUNCS:
        return False
    ctx["dslib"]["public.skipExportGlyphs"] = ["c", "b", "a"]
    return True


def _explicit_filters(ctx):
    ctx["filter_objs"].append("explicit")
    return True


def _scribble(pre):
    def ing(ctx):
        ctx["filter_objs"].append("scribble-pre" if pre else "scribble-post")
        return True
    return ing


def _color_font(ctx):
    for sp in ctx["specs"]:
        sp["lib"][F + "colorPalettes"] = [[(1, 0.3, 0.1, 1), (0, 0.4, 0.8, 1)]]
        sp["lib"][F + "colorLayerMapping"] = [("color1", 0), ("color2", 1)]
        sp["layers"]["color1"] = {"glyphs": {
            "a": {"width": 500, "unicodes": [0x61], "contours": [B.box(0, 0, 30, 30)]},
            "c": {"width": 520, "unicodes": [0x63], "components": [("a", (1, 0, 0, 1, 5, 5))]}}}
        sp["layers"]["color2"] = {"glyphs": {
            "a": {"width": 500, "contours": [B.box(10, 10, 40, 40)]}}}
    return True


def _color_glyph(ctx):
    for sp in ctx["specs"]:
        sp["lib"][F + "colorPalettes"] = [[(1, 0.3, 0.1, 1), (0, 0.4, 0.8, 1)]]
        sp["glyphs"]["b"].setdefault("lib", {})[F + "colorLayerMapping"] = [("colorB", 1)]
        sp["layers"]["colorB"] = {"glyphs": {
            "b": {"width": 510, "unicodes": [0x62], "contours": [B.box(0, 0, 30, 30)]}}}
    return True


def _math(ctx):
    for sp in ctx["specs"]:
        sp["lib"]["com.nagwa.MATHPlugin.constants"] = {
            "ScriptPercentScaleDown": 70, "MinConnectorOverlap": 20, "AxisHeight": 250}
        sp["lib"]["com.nagwa.MATHPlugin.extendedShape"] = ["o"]
        sp["glyphs"]["o"].setdefault("lib", {})["com.nagwa.MATHPlugin.variants"] = {
            "vVariants": ["o", "b"], "vAssembly": [["a", 0, 0, 20], ["b", 1, 20, 0]]}
        sp["glyphs"]["a"]["anchors"] = sp["glyphs"]["a"]["anchors"] + [("math.ic", 480, 0), ("math.tr", 400, 300)]
    return True


FEA_MARKERS = """\
languagesystem DFLT dflt;
languagesystem latn dflt;
@myclass = [a b];
feature liga { sub a b by f_i; } liga;
feature kern {
    pos a a -11;
    # Automatic Code
    pos b b 12;
} kern;
feature mark {
    # Automatic Code
} mark;
"""

FEA_PLAIN = """\
languagesystem DFLT dflt;
feature liga { sub a b by f_i; } liga;
feature kern { pos a a -11; } kern;
table GDEF { GlyphClassDef [a b], [f_i], [acutecomb], ; } GDEF;
"""


def _fea(text):
    def ing(ctx):
        for sp in ctx["specs"]:
            sp["features"] = text
        return True
    return ing


def _categories(ctx):
    for sp in ctx["specs"]:
        sp["lib"]["public.openTypeCategories"] = {"a": "base", "acutecomb": "mark", "f_i": "ligature",
                                                  "c": "base"}
    return True


def _uvs(ctx):
    for sp in ctx["specs"]:
        sp["lib"]["public.unicodeVariationSequences"] = {"FE00": {"0061": "a", "0062": "c"}}
    return True


def _instructions(ctx):
    for sp in ctx["specs"]:
        sp["lib"]["public.truetype.instructions"] = {
            "formatVersion": "1", "controlValue": {"0": 10, "2": -3},
            "controlValueProgram": "PUSHB[ ] 0\nPOP[ ]", "fontProgram": "PUSHB[ ] 0\nPOP[ ]"}
        sp["glyphs"]["a"].setdefault("lib", {})["public.truetype.instructions"] = {
            "formatVersion": "1", "assembly": "PUSHB[ ] 0\nPOP[ ]", "id": "x"}
        sp["glyphs"]["c"].setdefault("lib", {})["public.truetype.overlap"] = True
    return True


def _psnames(ctx):
    for sp in ctx["specs"]:
        sp["lib"]["public.postscriptNames"] = {"a": "uni0061", "c": "cee"}
    ctx["opts"]["useProductionNames"] = True
    return True


def _sparse(ctx):
    if ctx["fn"] not in DSFUNCS:
        return False
    ctx["sparse"] = True
    return True


def _unnamed_sources(ctx):
    if ctx["fn"] not in DSFUNCS:
        return False
    ctx["unnamed"] = True
    return True


def _ftconfig(ctx):
    if not accepts(ctx["fn"], "ftConfig"):
        return False
    # an options object owned by the caller
    from fontTools.otlLib.optimize.gpos import COMPRESSION_LEVEL
    ctx["opts"]["ftConfig"] = {COMPRESSION_LEVEL: 9}
    return True


def _rules(ctx):
    if ctx["fn"] not in DSFUNCS:
        return False
    ctx["rules"] = [{"name": "r1", "conditionSets": [[{"name": "Weight", "minimum": 500, "maximum": 1000}]],
                     "subs": [("a", "b")]}]
    return True


def _badfea(ctx):
    for sp in ctx["specs"]:
        sp["features"] = "feature liga { sub a by nonexistent; } liga;\n"
    return True


def _negadv(ctx):
    for sp in ctx["specs"]:
        sp["glyphs"]["e"]["width"] = -10
    return True


def _vertical(ctx):
    for sp in ctx["specs"]:
        sp["info"].update({"openTypeVheaVertTypoAscender": 500, "openTypeVheaVertTypoDescender": -500,
                           "openTypeVheaVertTypoLineGap": 0})
        sp["glyphs"]["a"]["height"] = 1000
        sp["glyphs"]["a"]["verticalOrigin"] = 880
    return True


def _fontinfo_dslib(ctx):
    if ctx["fn"] not in VAR_FUNCS:
        return False
    ctx["dslib"]["public.fontInfo"] = {"familyName": "Override", "openTypeOS2Panose": [1] * 10}
    return True


def _second_axis_partial(ctx):
    # a second axis on which every source sits at the (non-zero) default without saying so: partial
    # source locations are valid, the missing coordinate is the axis default
    if ctx["fn"] not in DSFUNCS:
        return False
    ctx["axis2"] = True
    return True


def _named_default_layer(ctx):
    # a <source> that names its UFO's default layer explicitly (layer="public.default")
    if ctx["fn"] not in DSFUNCS:
        return False
    ctx["named_default_layer"] = True
    return True


def _vf_fontinfo(ctx):
    # format 5: an explicit <variable-font> with its own public.fontInfo overrides
    if ctx["fn"] not in VAR_FUNCS:
        return False
    ctx["vf_lib"] = {"public.fontInfo": {"familyName": "VF Override", "styleName": "Roman",
                                         "openTypeOS2VendorID": "VRIF", "versionMajor": 3}}
    return True


def _feawriters_lib(ctx):
    for sp in ctx["specs"]:
        sp["lib"][F + "featureWriters"] = [
            {"class": "KernFeatureWriter", "options": {"quantization": 5}},
            {"class": "MarkFeatureWriter"}, {"class": "GdefFeatureWriter"}, {"class": "CursFeatureWriter"}]
    return True


def _layer_name(ctx):
    if ctx["fn"] not in STATIC:
        return False
    ctx["opts"]["layerName"] = "background"
    return True


INGREDIENTS = {
    "removeOverlaps": _opt("removeOverlaps", True),
    "removeOverlaps-pathops": lambda ctx: (_opt("removeOverlaps", True)(ctx)
                                           and _opt("overlapsBackend", "pathops")(ctx)),
    "flattenComponents": _opt("flattenComponents", True, only=TTF_FUNCS),
    "skip-arg": _skip_arg,
    "skip-ufolib": _skip_lib,
    "skip-dslib": _skip_dslib,
    "lib:propagateAnchors": _libfilter("propagateAnchors", pre=True),
    "lib:decomposeComponents": _libfilter("decomposeComponents", pre=True),
    "lib:decomposeTransformedComponents": _libfilter("decomposeTransformedComponents", pre=True),
    "lib:flattenComponents": _libfilter("flattenComponents", pre=True),
    "lib:sortContours": _libfilter("sortContours"),
    "lib:transformations": _libfilter("transformations", pre=True, OffsetX=10, ScaleX=50, Slant=15),
    "lib:dottedCircle": _libfilter("dottedCircle", pre=True),
    "lib:cubicToQuadratic": _libfilter("cubicToQuadratic", rememberCurveType=True),
    "lib:reverseContourDirection": _libfilter("reverseContourDirection"),
    "lib:removeOverlaps": _libfilter("removeOverlaps", pre=True),
    "explicit-filters": _explicit_filters,
    "scribble-pre": _scribble(True),
    "scribble-post": _scribble(False),
    "color-font": _color_font,
    "color-glyph": _color_glyph,
    "math": _math,
    "fea-markers": _fea(FEA_MARKERS),
    "fea-plain": _fea(FEA_PLAIN),
    "categories": _categories,
    "uvs": _uvs,
    "instructions": _instructions,
    "postscriptNames": _psnames,
    "variableFeatures-off": _opt("variableFeatures", False, only=VAR_FUNCS),
    "sparse-layer": _sparse,
    "rules": _rules,
    "unnamed-sources": _unnamed_sources,
    "ftConfig": _ftconfig,
    "bad-features": _badfea,
    "negative-advance": _negadv,
    "vertical": _vertical,
    "dslib-fontinfo": _fontinfo_dslib,
    "lib-featureWriters": _feawriters_lib,
    "second-axis-partial-locations": _second_axis_partial,
    "vf-fontinfo": _vf_fontinfo,
    "source-names-default-layer": _named_default_layer,
    "layerName": _layer_name,
    "cff2": _opt("cffVersion", 2, only={"compileOTF"}),
    "no-subr": _opt("optimizeCFF", 0, only={"compileOTF", "compileInterpolatableOTFsFromDS",
                                            "compileVariableCFF2", "compileVariableCFF2s"}),
    "dropImplied": _opt("dropImpliedOnCurves", True, only=TTF_FUNCS),
    "no-reverse": _opt("reverseDirection", False, only=TTF_FUNCS),
    "debugFeatureFile": lambda ctx: (ctx["opts"].__setitem__("debugFeatureFile", "STRINGIO") or True),
}
ING_NAMES = list(INGREDIENTS)

# ingredients that cannot be combined (they set the same slot)
EXCLUSIVE = [{"fea-markers", "fea-plain", "bad-features"}, {"color-font", "color-glyph"},
             {"removeOverlaps", "removeOverlaps-pathops"}]


def make_scribbler(pre):
    from ufo2ft.filters import BaseFilter

    class ScribblingFilter(BaseFilter):
        """Overwrites every mutable thing it is handed (glyph-set glyphs and the glyph-set lib),
        never `font`.  If a source changes, a copy made by ufo2ft was too shallow."""

        def __call__(self, font, glyphSet=None):
            if glyphSet is None:
                return set()
            lib = getattr(glyphSet, "lib", None)
            if lib is not None:
                _scribble_mapping(lib)
            for g in list(glyphSet.values()):
                _scribble_mapping(g.lib)
                g.lib["scribbled"] = True
                for a in g.anchors:
                    try:
                        a.x = (a.x or 0) + 1
                    except Exception:
                        a["x"] = a["x"] + 1
                g.width = g.width + 0
                for c in g.components:
                    t = tuple(c.transformation)
                    c.transformation = t[:4] + (t[4] + 0, t[5])
                for contour in g:
                    pts = contour.points if hasattr(contour, "points") else list(contour)
                    for p in pts:
                        try:
                            p.x = p.x + 1
                        except Exception:
                            pass
                if g.unicodes:
                    try:
                        g.unicodes.append(0xE000 + len(g.name))
                        g.unicodes.pop()
                    except Exception:
                        pass
            return set()

    return ScribblingFilter(pre=pre)


def _scribble_mapping(m):
    for k in list(m.keys()):
        v = m[k]
        if isinstance(v, dict):
            _scribble_mapping(v)
            v["scribbled"] = 1
        elif isinstance(v, list):
            for x in v:
                if isinstance(x, dict):
                    _scribble_mapping(x)
                    x["scribbled"] = 1
            v.append("scribbled")


def make_context(fn, ingr):
    nm = 1 if fn in STATIC else 2
    ctx = {"fn": fn, "specs": [base_spec(i) for i in range(nm)], "opts": {}, "dslib": {},
           "filter_objs": [], "sparse": False, "rules": None, "unnamed": False}
    applied = []
    for name in ingr:
        if INGREDIENTS[name](ctx):
            applied.append(name)
    ctx["applied"] = applied
    return ctx


def build_sources(ctx, module):
    fn = ctx["fn"]
    if fn in STATIC:
        return {"ufo": B.build_font(ctx["specs"][0], module)}
    if fn in UFOLIST:
        return {"ufos": [B.build_font(s, module) for s in ctx["specs"]]}
    sources = [{"spec": ctx["specs"][0], "location": {"Weight": 400}, "name": "m0", "share": "m0"},
               {"spec": ctx["specs"][1], "location": {"Weight": 700}, "name": "m1"}]
    if ctx["sparse"]:
        sp0 = ctx["specs"][0]
        sp0["layers"]["mid"] = {"glyphs": {
            "a": copy.deepcopy({k: v for k, v in sp0["glyphs"]["a"].items() if k != "unicodes"}),
            "c": copy.deepcopy({k: v for k, v in sp0["glyphs"]["c"].items() if k != "unicodes"})}}
        sources.insert(1, {"spec": sp0, "share": "m0", "layerName": "mid",
                           "location": {"Weight": 550}, "name": "mid"})
    axes = [{"name": "Weight", "tag": "wght", "min": 400, "default": 400, "max": 700}]
    if ctx.get("axis2"):
        axes.append({"name": "Width", "tag": "wdth", "min": 75, "default": 100, "max": 100})
    vfs = None
    if ctx.get("vf_lib"):
        vfs = [{"name": "VerifVF", "axes": [a["name"] for a in axes], "lib": ctx["vf_lib"]}]
    ds = B.build_designspace(axes, sources, rules=ctx["rules"], lib=ctx["dslib"], module=module,
                             variable_fonts=vfs, format_version="5.0" if vfs else None)
    if ctx.get("named_default_layer"):
        last = ds.sources[-1]
        last.layerName = last.font.layers.defaultLayer.name
    if ctx.get("unnamed"):
        for s_ in ds.sources:
            s_.name = None  # valid for a designspace built in memory
    return {"ds": ds}


def owned_snapshot(src, ctx=None):
    snap = _owned_snapshot(src)
    if ctx is not None and "ftConfig" in ctx["opts"]:
        snap["options"] = {"ftConfig": sorted((getattr(k, "name", str(k)), v)
                                              for k, v in ctx["opts"]["ftConfig"].items())}
    return snap


def _owned_snapshot(src):
    if "ufo" in src:
        return {"ufo": S.font_snapshot(src["ufo"])}
    if "ufos" in src:
        return {"ufos": [S.font_snapshot(u) for u in src["ufos"]]}
    ds = src["ds"]
    fonts, seen = [], set()
    for s in ds.sources:
        if id(s.font) not in seen:
            seen.add(id(s.font))
            fonts.append(S.font_snapshot(s.font))
    snap = S.designspace_snapshot(ds)
    # font identity must be stable, but id() values are not comparable between processes:
    # renumber by first occurrence
    ids = {}
    for s in snap["sources"]:
        if s.get("font"):
            s["font"] = ("font-index", ids.setdefault(s["font"][1], len(ids)))
    return {"ds": snap, "fonts": fonts}


def call(fn, src, ctx):
    import ufo2ft
    from ufo2ft.filters import DecomposeComponentsFilter, PropagateAnchorsFilter
    opts = dict(ctx["opts"])
    if opts.get("debugFeatureFile") == "STRINGIO":
        opts["debugFeatureFile"] = io.StringIO()
    fobjs = []
    for f in ctx["filter_objs"]:
        if f == "explicit":
            fobjs += [PropagateAnchorsFilter(pre=True), DecomposeComponentsFilter(include=["d"], pre=True)]
        elif f == "scribble-pre":
            fobjs.append(make_scribbler(True))
        elif f == "scribble-post":
            fobjs.append(make_scribbler(False))
    if fobjs:
        opts["filters"] = [...] + fobjs
    func = getattr(ufo2ft, fn)
    if "ufo" in src:
        out = func(src["ufo"], **opts)
    elif "ufos" in src:
        out = list(func(src["ufos"], **opts))
    else:
        out = func(src["ds"], **opts)
    return out


EXPECTED_EXC = ("FeatureLibError", "InvalidFontData", "NotImplementedError", "VarLibError",
                "VarLibMergeError", "InvalidDesignSpaceData", "IncompatibleFeaturesError",
                "ShouldBeConstant", "KeyError", "TypeError", "ValueError", "AttributeError",
                "AssertionError", "IncompatibleGlyphsError", "UnsupportedError", "TTLibError",
                "BooleanOperationsError", "OpenTypeLibError", "struct.error", "error", "OverflowError")


class C07(Property):
    id = "C07"
    rule = ("case = (compile function, UFO library, subset of <= k ingredients from a menu of %d, "
            "call history on the same source objects); non-trivial = the call sequence completed at "
            "least one compile (returned or raised) and at least one ingredient applied" % len(ING_NAMES))
    assumptions = [
        "snapshot (mc/snapshot.py) covers every caller-visible attribute of fonts/designspaces "
        "(all layers, libs, info, kerning, groups, features, data file names)",
        "an exception raised by a compile function is not itself a C07 violation (the property "
        "speaks of 'returns or raises'); only the frame is checked, the exception type is recorded",
    ]
    trusted_base = ["CPython", "ufoLib2/defcon as containers", "mc/snapshot.py"]

    def bounds(self, tier):
        if tier == "quick":
            return {"k": 2, "k_defcon": 1, "calls": 2, "cross": False, "depth": 0}
        return {"k": 3, "k_defcon": 2, "calls": 2, "cross": True, "depth": 0}

    def initial(self, b):
        out = []
        seen = set()
        for fn in FUNCS:
            for k in range(b["k"] + 1):
                for sub in itertools.combinations(ING_NAMES, k):
                    if any(len(ex & set(sub)) > 1 for ex in EXCLUSIVE):
                        continue
                    ctx = make_context(fn, sub)
                    key = (fn, tuple(ctx["applied"]))
                    if key in seen:
                        continue
                    seen.add(key)
                    for module in ("ufoLib2", "defcon"):
                        if module == "defcon" and k > b["k_defcon"]:
                            continue
                        hist = [fn] * b["calls"]
                        out.append([{"fn": fn, "module": module, "ingr": list(ctx["applied"])}] + hist)
                        if b["cross"] and k <= 1:
                            group = STATIC if fn in STATIC else (DSFUNCS if fn in DSFUNCS else [])
                            for g2 in group:
                                if g2 != fn:
                                    for g3 in group:
                                        out.append([{"fn": fn, "module": module, "ingr": list(ctx["applied"])},
                                                    fn, g2, g3])
        return out

    def run(self, h, b):
        setup, calls = h[0], h[1:]
        fn0, module, ingr = setup["fn"], setup["module"], list(setup["ingr"])
        outcome, n, found = execute(fn0, module, ingr, calls)
        viols = []
        for where, info in found.items():
            # minimise the ingredient set for this path: smallest subset reproducing it
            minimal = ingr
            done = False
            for k in range(len(ingr)):
                for sub in itertools.combinations(ingr, k):
                    _, _, f2 = execute(fn0, module, list(sub), calls)
                    if where in f2:
                        minimal, done = list(sub), True
                        break
                if done:
                    break
            viols.append(violation("source-modified", {"where": where, "ingredients": sorted(minimal)},
                                   fn=info["fn"], module=module, call_index=info["call_index"],
                                   result=info["result"], diff=info["diff"], all_ingredients=ingr))
        ctrs = {"calls": n, "raised": sum(1 for r in outcome if r != "ok"), "ingredient_sets": 1}
        for r in outcome:
            ctrs["result:" + r] = ctrs.get("result:" + r, 0) + 1
        return Result(viols, ctrs, digest([outcome]), substates=n,
                      nontrivial=1 if (n and ingr) else 0)


def execute(fn0, module, ingr, calls):
    ctx = make_context(fn0, ingr)
    src = build_sources(ctx, module)
    before = owned_snapshot(src, ctx)
    outcome, n, found = [], 0, {}
    for i, fn in enumerate(calls):
        c2 = ctx
        if fn != fn0:
            # options that the other function does not accept are dropped
            c2 = dict(ctx)
            c2["fn"] = fn
            c2["opts"] = {k: v for k, v in ctx["opts"].items() if accepts(fn, k)}
        try:
            call(fn, src, c2)
            res = "ok"
        except Exception as e:  # the frame must hold after a raise as well
            res = type(e).__name__
        n += 1
        outcome.append(res)
        after = owned_snapshot(src, ctx)
        if after != before:
            d = S.diff(before, after, limit=60)
            for p, x, y in d:
                w = _where(p)
                found.setdefault(w, {"fn": fn, "call_index": i, "result": res, "diff": []})
                if len(found[w]["diff"]) < 3:
                    found[w]["diff"].append((p, x, y))
            break
    return outcome, n, found


def _where(path):
    """Normalised location of a difference: keeps layer / glyph / lib-key names, drops indices."""
    parts = [p.split("[")[0] for p in path.split("/") if p]
    keep = []
    for i, p in enumerate(parts):
        if p in ("ufos", "fonts", "ufo"):
            continue
        keep.append(p)
        if p in ("info", "kerning", "groups", "features", "contours", "components",
                 "anchors", "unicodes", "width", "height"):
            break
        if p == "lib":
            if i + 1 < len(parts):
                keep.append(parts[i + 1])
            break
        if len(keep) >= 7:
            break
    return "/".join(keep)


PROPERTY = C07()
