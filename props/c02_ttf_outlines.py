"""C02 — TrueType outlines render the source shape; composites stay valid.

Seam: ufo2ft.compileTTF(ufo, **options) -> save -> reload -> glyf[g] (points, flags, endPts,
components) and maxp.  The explored space is the product

    option settings  x  { component tries in five variants | shape / cubic palette | coordinate
                          deviations | special component graphs }

Every glyph of every compiled font is one checked state (ufo2ft treats glyphs independently; the
tries are "append one component level" BFS whose every prefix is a glyph of the font).

Oracle (reference model = mc/outline_ref.resolve + the cyclic matcher below; no fontTools pen is
used to produce expectations):

* simple and mixed glyphs: the glyf contour, with implied on-curve points made explicit, must be a
  rotation of the resolved source contour (reversed iff reverseDirection): off-curve and explicit
  on-curve points equal otround(source) with the same on/off flag; an on-curve point may be
  missing only under dropImpliedOnCurves and only between two off-curves whose midpoint is within
  1/2 unit of it; every cubic is replaced by a run of >= 1 quadratic off-curves whose spline stays
  within  conversionError*UPM + 0.7072 (control-point rounding)  of the cubic — a necessary
  condition of "within the conversion error", so it cannot fire on correct output — or, when
  allQuadratic is False, is kept verbatim as two cubic-flagged off-curves (glyphDataFormat 1).
* mixed glyphs must come out as simple glyphs (decomposed), flipped members reversed.
* pure composites keep (base, otround(offset), 2x2) in order; with flattenComponents the list
  equals the independent flattening (leaf = first glyph that is not a pure composite) and no
  reference is nested; maxp.maxComponentElements / maxComponentDepth equal the values recomputed
  from the reloaded glyf; every base is in the glyph order.

Source-lib dimension: the shape palettes are also compiled (default inplace=False) from sources whose
font.lib and/or default-layer lib carry the cu2qu bookkeeping key
``com.github.googlei18n.cu2qu.curve_type`` = "quadratic" | "cubic" (left behind by the cu2qu CLI or an
earlier in-place build).  A lib key is not an option: the oracle is exactly the same (outlines
converted and reversed as the options say).  inplace=True builds, where honouring the key is the
documented behaviour, are not explored.
"""

from __future__ import annotations

import io
import itertools
import math

from fontTools.ttLib import TTFont

from mc import outline_ref as R
from mc import ufo_build as B
from mc.explore import Property, Result, digest, violation
from props.c01_cff_outlines import SMALLBOX, deviation_glyphs

MAX_F2DOT14 = 0x7FFF / (1 << 14)
CURVE_TYPE_LIB_KEY = "com.github.googlei18n.cu2qu.curve_type"  # spelled out: independent of fontTools
ROUND_SLACK = 0.7072  # every control point moves by <= sqrt(.5) when rounded; splines are convex combinations
EPS = 1e-6

NOTDEF = {"width": 500, "contours": [B.box(50, 0, 450, 700)]}

# ---- cubic palette K: one cubic + closing line per glyph ----------------------------------
K_CUBICS = {
    "nearline": ((0, 0), (100, 1), (200, -1), (300, 0)),
    "quarter100": ((100, 0), (100, 55.25), (55.25, 100), (0, 100)),
    "quarter1000": ((1000, 0), (1000, 552.25), (552.25, 1000), (0, 1000)),
    "arc16k": ((16000, 0), (16000, 8836), (8836, 16000), (0, 16000)),
    "tightS": ((0, 0), (100, 0), (0, 100), (100, 100)),
    "wideS": ((0, 0), (300, 0), (-200, 100), (100, 100)),
    "loop": ((0, 0), (100, 100), (0, 100), (100, 0)),
    "bigloop": ((0, 0), (200, 100), (-100, 100), (100, 0)),
    "semi": ((0, 0), (0, 133.5), (200, 133.5), (200, 0)),
    "halves": ((0.5, 0.5), (30.25, 80.5), (70.75, 80.5), (100.5, 0.5)),
    "longflat": ((0, 0), (5000, 10), (10000, 10), (15000, 0)),
    "zerohandle": ((0, 0), (0, 0), (50, 100), (100, 100)),
    "bigS": ((-16000, -16000), (16000, -16000), (-16000, 16000), (16000, 16000)),
    "hook": ((0, 0), (400, 0), (400, 30), (380, 40)),
    # small arcs: the single-quadratic approximation error lies between 0.1 and 1 unit, so a
    # tolerance below one unit really needs more segments
    "arc50": ((50, 0), (50, 35), (35, 50), (0, 50)),
    "arc30": ((30, 0), (30, 20), (20, 30), (0, 30)),
}

# closed quadratic "circle": every on-curve point is the midpoint of its off-curve neighbours
QCIRCLE = [(0, 50, "qcurve"), (0, 0, None), (50, 0, "qcurve"), (100, 0, None), (100, 50, "qcurve"),
           (100, 100, None), (50, 100, "qcurve"), (0, 100, None)]
# same with half-integer controls: the implied point of the rounded neighbours is off the source point
QCIRCLE_H = [(0.5, 50, "qcurve"), (0.5, 0, None), (50, 0, "qcurve"), (99.5, 0, None), (100, 50, "qcurve"),
             (100.5, 100, None), (50.5, 100, "qcurve"), (0.5, 100, None)]
# cubic circle with dyadic kappa (smooth joins: candidates for implied on-curves after conversion)
CCIRCLE = [(100, 0, "curve"), (100, 55.25, None), (55.25, 100, None), (0, 100, "curve"),
           (-55.25, 100, None), (-100, 55.25, None), (-100, 0, "curve"), (-100, -55.25, None),
           (-55.25, -100, None), (0, -100, "curve"), (55.25, -100, None), (100, -55.25, None)]
WRAPCUBIC = [(70, -20, None), (100, 0, "curve"), (100, 60, "line"), (0, 60, "line"), (0, 0, "line"),
             (30, -20, None)]
# contour without any on-curve point
ALLOFF = [(0, 0, None), (100, 0, None), (100, 100.5, None), (0, 100, None)]

TRIE_SHAPES = ["tri", "cubic", "quad", "mixed", "two", "offstart"]
CUBIC_SHAPES = {"cubic", "mixed", "offstart"}
VARIANTS = ["pure", "mixed", "shared", "three", "overmixed", "multi"]


# ---- alphabet: fonts ------------------------------------------------------------------------

def trie_glyphs(shapes, variant, palette, depth):
    """One trie per root shape.  variant:
    pure       node = [parent x T]
    mixed      node = own contour + [parent x T]                     (every node is decomposed)
    shared     node = [parent x T, root x shift]                     (two components, shared base)
    three      node = own contour + [parent x T, root x flip, root x flip]   (3 components + contour)
    overmixed  pure composites over a root that is itself a mixed glyph
    multi      node = [parent x T, parent x shift, parent x shift']  (the same sub-tree reached repeatedly)
    """
    glyphs = {".notdef": NOTDEF}
    for si, shape in enumerate(shapes):
        root = "r%d" % si
        if variant == "overmixed":
            glyphs["s%d" % si] = {"width": 400, "contours": B.SHAPES[shape]}
            glyphs[root] = {"width": 500.5, "contours": [SMALLBOX],
                            "components": [("s%d" % si, (-1, 0, 0, 1, 100.5, 0))]}
        else:
            glyphs[root] = {"width": 500.5, "contours": B.SHAPES[shape]}
        level = [(root, ())]
        for d in range(depth):
            nxt = []
            for parent, path in level:
                for i, tn in enumerate(palette):
                    p2 = path + (i,)
                    name = "n%d_" % si + "_".join(map(str, p2))
                    g = {"width": 100 + 10 * i + d + (0.5 if i % 2 else 0),
                         "components": [(parent, B.TRANSFORMS[tn])]}
                    if variant == "mixed":
                        g["contours"] = [SMALLBOX]
                    elif variant == "shared":
                        g["components"] = g["components"] + [(root, (1, 0, 0, 1, 200.5, 0.5))]
                    elif variant == "multi":
                        g["components"] = g["components"] + [(parent, (1, 0, 0, 1, 200.5, 0.5)),
                                                             (parent, (1, 0, 0, 1, -30, 40))]
                    elif variant == "three":
                        g["contours"] = [SMALLBOX]
                        g["components"] = g["components"] + [(root, (-1, 0, 0, 1, 300, 0)),
                                                             (root, (1, 0, 0, -1, 0.5, 400.5))]
                    glyphs[name] = g
                    nxt.append((name, p2))
            level = nxt
    return glyphs


def shape_glyphs(cubic):
    """Shape palette.  cubic=True: the glyphs containing cubic segments (incl. palette K);
    cubic=False: the cubic-free ones (usable with convertCubics=False + allQuadratic=True)."""
    glyphs = {".notdef": NOTDEF}
    if cubic:
        for s in sorted(CUBIC_SHAPES):
            glyphs["s_" + s] = {"width": 600, "contours": B.SHAPES[s]}
        for k, (p0, c1, c2, p3) in K_CUBICS.items():
            glyphs["k_" + k] = {"width": 600, "contours": [[p0 + ("line",), c1 + (None,), c2 + (None,),
                                                           p3 + ("curve",)]]}
        glyphs["ccircle"] = {"width": 600, "contours": [CCIRCLE]}
        # second contour stored so that one cubic segment straddles the contour start
        glyphs["wrapcubic"] = {"width": 600, "contours": [B.box(200, 200, 300, 300), WRAPCUBIC]}
        # mixed glyph with a flipped and enlarged cubic member (decomposed before conversion)
        glyphs["mixcubic"] = {"width": 600, "contours": [SMALLBOX],
                              "components": [("ccircle", (-2.5, 0, 0, 1.5, 10.5, 0)),
                                             ("k_tightS", (1, 0, 0, 1, 0, 500))]}
        glyphs["compcubic"] = {"width": 600, "components": [("ccircle", (0.5, 0, 0, 0.5, 1.5, 0))]}
    else:
        # hinted composite that precedes its bases in the glyph order: its hash is computed from the
        # compiled base glyphs, so glyf must be assembled bases-first (the stored id is stale on
        # purpose: the program is then dropped, the outline must be unaffected)
        glyphs["early"] = {"width": 600, "components": [("dA", (1, 0, 0, 1, 0, 0)), ("s_tri", (0.5, 0, 0, 0.5, 1, 1))],
                           "lib": {"public.truetype.instructions": {"formatVersion": "1", "id": "stale",
                                                                    "assembly": "PUSHB[ ] 0\nPOP[ ]"}}}
        for s in B.SHAPES:
            if s not in CUBIC_SHAPES:
                glyphs["s_" + s] = {"width": 600, "contours": B.SHAPES[s]}
        glyphs["qcircle"] = {"width": 600, "contours": [QCIRCLE]}
        glyphs["qcircle_h"] = {"width": 600, "contours": [QCIRCLE_H]}
        glyphs["alloff"] = {"width": 600, "contours": [ALLOFF, B.box(200, 200, 300, 300)]}
        # special component graphs
        glyphs["empty"] = {"width": 250}
        glyphs["e1"] = {"width": 1, "components": [("empty", (1, 0, 0, 1, 3, 4))]}
        glyphs["e2"] = {"width": 1, "components": [("e1", (0.5, 0, 0, 1, 3.5, 4))]}
        # diamond: the deepest path to dA goes through dB (listed second)
        glyphs["dA"] = {"width": 1, "components": [("s_tri", (1, 0, 0, 1, 0, 0))]}
        glyphs["dB"] = {"width": 1, "components": [("dA", (1, 0, 0, 1, 10, 0))]}
        glyphs["dX"] = {"width": 1, "components": [("dA", (1, 0, 0, 1, 0, 0)), ("dB", (-1, 0, 0, 1, 0, 0.5))]}
        # composite listed before its base in the glyph order, many components
        glyphs["many"] = {"width": 1, "components": [("s_tri", (1, 0, 0, 1, 10 * i + 0.5, -0.5)) for i in range(7)]
                          + [("dX", (0, 1, -1, 0, 0, 0))]}
        # extreme legal F2Dot14 values
        glyphs["edge"] = {"width": 1, "components": [("s_tri", (-2, 0, 0, MAX_F2DOT14, -0.5, 0.5)),
                                                     ("s_quad", (2 ** -14, -2 ** -14, 0, 1, 0, 0))]}
        # mixed glyph whose members exceed the F2Dot14 range: decomposed by ufo2ft itself, exact
        glyphs["mixbig"] = {"width": 1, "contours": [SMALLBOX],
                            "components": [("s_quad", (-2.5, 0, 0, 3, 0.5, 0)), ("dX", (4, 0, 0, 4, 0, 0))]}
        # pure composites at / beyond the F2Dot14 limit (format limit: weak check only)
        glyphs["lim2"] = {"width": 1, "components": [("s_tri", (2, 0, 0, 1, 0, 0))]}
        glyphs["over"] = {"width": 1, "components": [("s_quad", (2.5, 0, 0, 1, 0, 0)), ("s_tri", (1, 0, 0, -1, 0, 0))]}
    return glyphs


def make_glyphs(c):
    if c["part"] == "trie":
        glyphs = trie_glyphs(c["shapes"], c["variant"], c["palette"], c["d"])
        if c.get("ident"):
            for g in glyphs.values():
                if g.get("contours"):
                    g["identifiers"] = True
        return glyphs
    if c["part"] == "shapes":
        return shape_glyphs(c["cubic"])
    if c["part"] == "dev":
        return deviation_glyphs(c["shape"], c["k"])
    if c["part"] == "cycle":
        return {".notdef": NOTDEF, "r": {"width": 1, "contours": B.SHAPES["tri"]},
                "c1": {"width": 1, "components": [("c2", (1, 0, 0, 1, 0, 0)), ("r", (1, 0, 0, 1, 0, 0))]},
                "c2": {"width": 1, "components": [("c1", (1, 0, 0, 1, 5, 0))]}}
    if c["part"] == "qline":
        # a 'qcurve' point that is not preceded by off-curves (legal UFO: it denotes a straight line)
        return {".notdef": NOTDEF,
                "ql": {"width": 500, "contours": [[(0, 0, "line"), (100.5, 0, "qcurve"), (100, 50, None),
                                                   (50, 100, "qcurve")]]},
                "qc": {"width": 500, "components": [("ql", (1, 0, 0, 1, 10, 0))]}}
    raise ValueError(c["part"])


# ---- reference model --------------------------------------------------------------------------

def is_pure_composite(g):
    return bool(g.get("components")) and not g.get("contours")


def ref_flatten(glyphs, name, _stack=()):
    """Independent flattening: [(leaf, composed 6-tuple)]; a leaf is the first glyph on the way
    down that is not a pure composite."""
    if name in _stack:
        raise ValueError("cycle")
    out = []
    for base, t in glyphs[name]["components"]:
        bg = glyphs[base]
        if is_pure_composite(bg):
            for leaf, t2 in ref_flatten(glyphs, base, _stack + (name,)):
                out.append((leaf, R.compose(tuple(t), t2)))
        else:
            out.append((base, tuple(t)))
    return out


def classify_2x2(t):
    """How the 2x2 part fits the glyf component format."""
    vals = t[:4]
    if any(v > 2 or v < -2 for v in vals):
        return "overflow"  # fontTools decomposes the whole glyph
    if any(v > MAX_F2DOT14 for v in vals):
        return "clamp"  # (MAX_F2DOT14, 2] is clamped to MAX_F2DOT14
    if any(v * 16384 != int(v * 16384) for v in vals):
        return "inexact"
    return "exact"


def expected_items(segs, reverse):
    """Segment cycle -> cyclic list of expected point items:
    ('on', P) | ('off', P) | ('imp', P) implied on-curve | ('cubic', p0, c1, c2, p3)."""
    if reverse:
        segs = R.reverse_segments(segs)
    if len(segs) == 1 and segs[0][2] is None:  # contour without on-curve points
        offs = segs[0][1]
        out = []
        for i, q in enumerate(offs):
            nx = offs[(i + 1) % len(offs)]
            out.append(("off", q))
            out.append(("imp", ((q[0] + nx[0]) / 2, (q[1] + nx[1]) / 2)))
        return out
    out = []
    for i, (kind, offs, end) in enumerate(segs):
        start = segs[i - 1][2]
        if kind == "line":
            pass
        elif kind == "qcurve":
            for j, q in enumerate(offs):
                out.append(("off", q))
                if j + 1 < len(offs):
                    nx = offs[j + 1]
                    out.append(("imp", ((q[0] + nx[0]) / 2, (q[1] + nx[1]) / 2)))
        elif kind == "curve":
            if len(offs) != 2:
                raise ValueError("cubic segment with %d off-curves is outside the alphabet" % len(offs))
            out.append(("cubic", start, offs[0], offs[1], end))
        else:
            raise ValueError(kind)
        out.append(("on", end))
    return out


def expand_observed(contour):
    """glyf contour [(x, y, 'on'|'off'|'cubic')] -> list of candidate expansions, each a cyclic list of
    (x, y, kind, explicit) with implied on-curve points inserted (kind 'on', explicit False).
    More than one candidate only for contours made of cubic off-curves alone."""
    n = len(contour)
    if n < 2:
        return [[(p[0], p[1], p[2], True) for p in contour]]
    anchors = [i for i, p in enumerate(contour) if p[2] != "cubic"]
    starts = [anchors[0]] if anchors else [0, 1]
    outs = []
    for s in starts:
        rot = [contour[(s + i) % n] for i in range(n)]
        out, run = [], 0
        for i, p in enumerate(rot):
            nx = rot[(i + 1) % n]
            out.append((p[0], p[1], p[2], True))
            if p[2] == "cubic":
                run += 1
                if run % 2 == 0 and nx[2] == "cubic":
                    out.append(((p[0] + nx[0]) / 2, (p[1] + nx[1]) / 2, "on", False))
            else:
                run = 0
                if p[2] == "off" and nx[2] == "off":
                    out.append(((p[0] + nx[0]) / 2, (p[1] + nx[1]) / 2, "on", False))
        outs.append(out)
    return outs


def _sag_quad(p0, q, p1, n):
    d = math.hypot(p0[0] - 2 * q[0] + p1[0], p0[1] - 2 * q[1] + p1[1])
    return 2 * d / (8.0 * n * n)


def _sag_cubic(p0, c1, c2, p3, n):
    a = math.hypot(p0[0] - 2 * c1[0] + c2[0], p0[1] - 2 * c1[1] + c2[1])
    b = math.hypot(c1[0] - 2 * c2[0] + p3[0], c1[1] - 2 * c2[1] + p3[1])
    return 6 * max(a, b) / (8.0 * n * n)


def spline_distance(cubic, start, offs, end, allowed):
    """Necessary condition of 'the quadratic run start-[offs]-end stays within `allowed` of the
    cubic'.  Returns (ok, measured).  Fast path: equal-parameter samples (16 per piece) — if every
    sample pair is within `allowed` both sampled directed distances are.  Otherwise the sampled
    Hausdorff distance between 64-per-piece polylines, each directed distance relaxed by the
    sagitta bound of the polyline it is measured against."""
    p0, c1, c2, p3 = cubic
    pieces = []
    cur = start
    for q, e in R.split_qcurve(start, offs, end):
        pieces.append((cur, q, e))
        cur = e
    n = len(pieces)
    worst = 0.0
    S = 16
    for i, (a, q, e) in enumerate(pieces):
        for s in range(S + 1):
            u = s / S
            x, y = R.quad_at(a, q, e, u)
            cx, cy = R.cubic_at(p0, c1, c2, p3, (i + u) / n)
            d = math.hypot(x - cx, y - cy)
            if d > worst:
                worst = d
    if worst <= allowed:
        return True, worst
    S = 64
    poly_q = []
    sag_q = 0.0
    for (a, q, e) in pieces:
        poly_q.extend(R.quad_at(a, q, e, s / S) for s in range(S + 1))
        sag_q = max(sag_q, _sag_quad(a, q, e, S))
    N = S * n
    poly_c = [R.cubic_at(p0, c1, c2, p3, s / N) for s in range(N + 1)]
    sag_c = _sag_cubic(p0, c1, c2, p3, N)
    # directed distances with early exit (samples nearest the middle first: ends usually coincide)
    m = 0.0
    for poly_a, poly_b, sag in ((poly_q, poly_c, sag_c), (poly_c, poly_q, sag_q)):
        half = len(poly_a) / 2.0
        for idx in sorted(range(len(poly_a)), key=lambda k: abs(k - half)):
            d = R.dist_point_polyline(poly_a[idx], poly_b) - sag
            if d > m:
                m = d
                if m > allowed:
                    return False, m
    return True, m


class Ctx:
    __slots__ = ("drop", "allow_quad", "allow_cubic", "allowed", "note")

    def __init__(self, drop, allow_quad, allow_cubic, allowed):
        self.drop, self.allow_quad, self.allow_cubic, self.allowed = drop, allow_quad, allow_cubic, allowed
        self.note = None


def _near(o, p, tol):
    return abs(o[0] - p[0]) <= tol and abs(o[1] - p[1]) <= tol


def _rounded(o, p):
    return o[0] == R.otround(p[0]) and o[1] == R.otround(p[1])


def _match_on(p, o, ctx):
    """expected explicit on-curve point p against observed item o; returns event or None."""
    if o[2] != "on":
        return None
    if o[3]:
        return "on" if _rounded(o, p) else None
    if ctx.drop and _near(o, p, 0.5 + EPS):
        return "dropped"
    return None


def match_cycle(E, OX, ctx):
    """Is the observed expanded contour OX a rotation of the expectation E?  Returns the list of
    events of the successful walk, or None."""
    nE, nO = len(E), len(OX)

    def walk(j0, i, used):
        ev = []
        while i < nE:
            if used >= nO:
                return None
            it = E[i]
            o = OX[(j0 + used) % nO]
            k = it[0]
            if k == "on":
                e = _match_on(it[1], o, ctx)
                if e is None:
                    return None
                ev.append(e)
            elif k == "off":
                if not (o[2] == "off" and o[3] and _rounded(o, it[1])):
                    return None
            elif k == "imp":
                if not (o[2] == "on" and not o[3] and _near(o, it[1], 0.5 + EPS)):
                    return None
            else:  # cubic
                nxt_on = E[i + 1][1]
                if ctx.allow_cubic and used + 2 <= nO:
                    o2 = OX[(j0 + used + 1) % nO]
                    if (o[2] == "cubic" and o2[2] == "cubic" and o[3] and o2[3]
                            and _rounded(o, it[2]) and _rounded(o2, it[3])):
                        r = walk(j0, i + 1, used + 2)
                        if r is not None:
                            return ev + ["cubic-kept"] + r
                if ctx.allow_quad:
                    start = OX[(j0 + used - 1) % nO]
                    offs = []
                    u = used
                    while u < nO:
                        oo = OX[(j0 + u) % nO]
                        if not (oo[2] == "off" and oo[3]):
                            break
                        offs.append((oo[0], oo[1]))
                        u += 1
                        if u >= nO:
                            break
                        endo = OX[(j0 + u) % nO]
                        if endo[2] != "on":
                            break
                        if _match_on(nxt_on, endo, ctx) is not None:
                            ok, dist = spline_distance(it[1:], (start[0], start[1]), offs,
                                                       (endo[0], endo[1]), ctx.allowed)
                            if ok:
                                r = walk(j0, i + 1, u)
                                if r is not None:
                                    return ev + ["quad-run-%d" % min(len(offs), 4)] + r
                            elif ctx.note is None or dist < ctx.note["distance"]:
                                ctx.note = {"distance": dist, "allowed": ctx.allowed, "cubic": it[1:],
                                            "run": [(start[0], start[1])] + list(offs) + [(endo[0], endo[1])]}
                        if endo[3]:
                            break  # an explicit on-curve point ends the run
                        u += 1
                return None
            i += 1
            used += 1
        return ev if used == nO else None

    for j0 in range(nO):
        r = walk(j0, 0, 0)
        if r is not None:
            return r
    return None


def compare_simple(want_cycles, glyph, ctx, either_direction=False):
    """want_cycles: list of segment cycles already in output direction.  Returns (bad, events)."""
    got = R.glyf_contours(glyph)
    if len(want_cycles) != len(got):
        return {"what": "contour-count", "expected": len(want_cycles), "observed": len(got)}, []
    events = []
    for ci, (segs, oc) in enumerate(zip(want_cycles, got)):
        cands = [expected_items(segs, False)]
        if either_direction:
            cands.append(expected_items(segs, True))
        found = None
        ctx.note = None
        for E in cands:
            for OX in expand_observed(oc):
                found = match_cycle(E, OX, ctx)
                if found is not None:
                    break
            if found is not None:
                break
        if found is None:
            bad = {"what": "contour", "index": ci, "expected": _show(cands[0]), "observed": oc[:24]}
            kinds = [p[2] for p in oc]
            if ctx.note is not None:
                bad["what"] = "cubic-distance"
                bad.update(ctx.note)
            elif any(kinds[i] == "cubic" and "off" in (kinds[i - 1], kinds[(i + 1) % len(kinds)])
                     for i in range(len(kinds))):
                # a cubic-flagged off-curve next to a quadratic off-curve: no reader can draw this
                bad["what"] = "cubic-offcurve-flag-lost"
            else:
                # classification: is it the same contour in the opposite direction?
                rev = expected_items(segs, True)
                c2 = Ctx(ctx.drop, ctx.allow_quad, ctx.allow_cubic, float("inf"))
                if not either_direction and any(match_cycle(rev, OX, c2) is not None
                                                for OX in expand_observed(oc)):
                    bad["what"] = "contour-direction"
            return bad, events
        events.extend(found)
    return None, events


def _show(E):
    out = []
    for it in E[:24]:
        if it[0] == "cubic":
            out.append(("cubic",) + tuple((float(p[0]), float(p[1])) for p in it[1:]))
        else:
            out.append((it[0], float(it[1][0]), float(it[1][1])))
    return out


def glyf_depth(glyf, name, _stack=()):
    if name in _stack:
        raise ValueError("cyclic glyf reference through " + name)
    g = glyf[name]
    if not g.isComposite():
        return 0
    return 1 + max(glyf_depth(glyf, c.glyphName, _stack + (name,)) for c in g.components)


def comp_tuple(c):
    tr = getattr(c, "transform", None)
    if tr is None:
        m = (1, 0, 0, 1)
    else:
        m = (tr[0][0], tr[0][1], tr[1][0], tr[1][1])
    return (c.glyphName, getattr(c, "x", None), getattr(c, "y", None), m)


def compile_ttf(font, **opts):
    import ufo2ft
    ttf = ufo2ft.compileTTF(font, useProductionNames=False, **opts)
    buf = io.BytesIO()
    ttf.save(buf)
    buf.seek(0)
    return TTFont(buf)


def has_cubic(glyphs):
    return any(p[2] == "curve" for g in glyphs.values() for c in g.get("contours", ()) for p in c)


# ---- the property -----------------------------------------------------------------------------

OPT_KEYS = ("cc", "rev", "flat", "aq", "err", "drop", "upm")
ERRS = [None, 0.0005, 0.005]
UPMS = [1000, 2048]


def all_configs():
    return [dict(zip(OPT_KEYS, v)) for v in itertools.product(
        (True, False), (True, False), (False, True), (True, False), ERRS, (False, True), UPMS)]


class C02(Property):
    id = "C02"
    rule = ("state = one glyph of a packed font under one option setting: (root shape, component chain "
            "over the transform palette, variant) | palette shape / cubic | coordinate deviation | special "
            "component graph, x (convertCubics, reverseDirection, flattenComponents, allQuadratic, "
            "cubicConversionError, dropImpliedOnCurves, unitsPerEm) x (for the shape palettes: cu2qu curve_type "
            "key absent | 'quadratic' | 'cubic' in font.lib / default layer lib / both, rememberCurveType "
            "default | False; always inplace=False); non-trivial = glyph has components, a "
            "curve segment or a half-integer coordinate")
    assumptions = [
        "coordinates are multiples of 1/4 within +-16384 and transform entries dyadic, so reference and "
        "implementation arithmetic are exact in binary64 (cu2qu output is only bounded, never compared exactly)",
        "closed contours with >= 3 points; cubic segments have exactly two off-curve points",
        "component-keeping checks only for 2x2 entries that are F2Dot14-exact and in [-2, MAX_F2DOT14]: "
        "the glyf format cannot store others (fontTools clamps (MAX_F2DOT14, 2] and decomposes the glyph "
        "when |v| > 2 without reversing flipped members); such glyphs, which arise from flattening, get "
        "a direction-insensitive shape check without the cubic distance bound",
        "cyclic component graphs and cubic sources with convertCubics=False + allQuadratic=True are "
        "rejected by design (classified, not demanded); dangling component references are outside the alphabet",
        "the cubic distance bound is a necessary condition sampled at 16 (aligned) / 64 (Hausdorff) points per piece",
    ]
    trusted_base = ["fontTools TTFont reader (glyf/maxp decompile)", "mc/outline_ref.py",
                    "the cyclic matcher in props/c02_ttf_outlines.py (selftest/test_c02_matcher.py)"]

    def bounds(self, tier):
        if tier == "quick":
            return {"depth": 0, "tier_name": "quick", "trie_depth": 2, "palette": B.QUICK_TRANSFORMS,
                    "trie_errupm": [[e, u] for e in ERRS for u in UPMS],
                    "deep": {"d": 3, "shapes": ["tri", "cubic"], "variants": ["pure", "shared", "overmixed", "three", "multi"],
                             "errupm": [[None, 1000]]},
                    "dev_singles": ["tri", "cubic", "quad"], "dev_pairs": [], "defcon": "default-only",
                    "libkey": {"flat": [False], "drop": [False],
                               "cases": [[w, v, None, "ufoLib2"] for w in ("font", "layer", "both")
                                         for v in ("quadratic", "cubic")]
                               + [["font", "quadratic", False, "ufoLib2"], ["both", "quadratic", None, "defcon"]]}}
        return {"depth": 0, "tier_name": "thorough", "trie_depth": 3, "palette": B.QUICK_TRANSFORMS,
                "trie_errupm": [[e, u] for e in ERRS for u in UPMS],
                "deep": {"d": 3, "shapes": ["tri", "cubic", "quad"], "variants": VARIANTS,
                         "errupm": [[None, 1000]], "palette": B.ALL_TRANSFORMS},
                "deep4": {"d": 4, "shapes": ["tri"], "variants": ["pure", "shared", "mixed", "three"]},
                "dev_singles": ["tri", "cubic", "quad", "mixed", "two", "offstart"], "dev_pairs": ["tri"],
                "defcon": "all-shapes",
                "libkey": {"flat": [False, True], "drop": [False, True],
                           "cases": [[w, v, r, m] for w in ("font", "layer", "both")
                                     for v in ("quadratic", "cubic") for r in (None, False, True)
                                     for m in ("ufoLib2", "defcon")]}}

    def initial(self, b):
        out = []
        cfgs = all_configs()

        def add(c, **part):
            if not c["cc"] and c["aq"] and part.get("needs_cubic"):
                return
            part.pop("needs_cubic", None)
            out.append([dict(c, **part)])

        def trie_shapes(c, shapes):
            if not c["cc"] and c["aq"]:
                return [s for s in shapes if s not in CUBIC_SHAPES]
            return list(shapes)

        # sub-unit tolerances on the cubic palette: an explicit error of 1/10000 em at 1000 upem (0.1
        # unit) and the default error at 250 upem (0.25 unit)
        for cc_, rev_, aq_ in itertools.product((True,), (True, False), (True, False)):
            for err_, upm_ in ((0.0001, 1000), (None, 250), (0.0002, 500)):
                add(dict(zip(OPT_KEYS, (cc_, rev_, False, aq_, err_, False, upm_))), part="shapes", cubic=True,
                    module="ufoLib2")
        for c in cfgs:
            # palette shapes, cubic palette and special graphs: the full option product
            add(c, part="shapes", cubic=False, module="ufoLib2")
            add(c, part="shapes", cubic=True, module="ufoLib2")  # rejected by design when !cc and aq
            if b["defcon"] == "all-shapes" or (c["err"] is None and c["upm"] == 1000):
                add(c, part="shapes", cubic=False, module="defcon")
                add(c, part="shapes", cubic=True, module="defcon", needs_cubic=True)
            eu = [c["err"], c["upm"]]
            if eu in b["trie_errupm"]:
                shapes = trie_shapes(c, TRIE_SHAPES)
                # depth 2: all roots packed in one font; deeper: one root per font (short states)
                packs = [shapes] if b["trie_depth"] <= 2 else [[s] for s in shapes]
                for variant in VARIANTS:
                    for pack in packs:
                        add(c, part="trie", variant=variant, shapes=pack,
                            d=b["trie_depth"], palette=b["palette"], module="ufoLib2")
            for key in ("deep", "deep4"):
                dp = b.get(key)
                if not dp or eu not in dp.get("errupm", [[None, 1000]]):
                    continue
                for variant in dp["variants"]:
                    if key == "deep4" and not (c["aq"] and c["cc"]):
                        continue
                    for shape in trie_shapes(c, dp["shapes"]):  # one root per font: keeps states short
                        add(c, part="trie", variant=variant, shapes=[shape], d=dp["d"],
                            palette=dp.get("palette", B.QUICK_TRANSFORMS), module="ufoLib2")
            if c["err"] is None and c["upm"] == 1000 and not c["flat"]:
                for shape in b["dev_singles"]:
                    add(c, part="dev", shape=shape, k=1, module="ufoLib2", needs_cubic=shape in CUBIC_SHAPES)
                for shape in b["dev_pairs"]:
                    if c["aq"]:
                        add(c, part="dev", shape=shape, k=2, module="ufoLib2", needs_cubic=shape in CUBIC_SHAPES)
            if c["err"] is None and c["upm"] == 1000 and c["aq"] and c["cc"] and not c["drop"]:
                # contours and points that carry identifiers (unique within a glyph, recurring across
                # glyphs): mixed glyphs and glyphs that use one base several times are decomposed
                for variant, module in itertools.product(("mixed", "multi"), ("ufoLib2", "defcon")):
                    add(c, part="trie", variant=variant, shapes=["tri", "mixed"], d=2,
                        palette=B.QUICK_TRANSFORMS, module=module, ident=1)
            if c["err"] is None and c["upm"] == 1000 and c["aq"] and not c["drop"]:
                add(c, part="cycle", module="ufoLib2")
            if c["err"] is None and c["upm"] == 1000:
                add(c, part="qline", module="ufoLib2")
            # source-lib dimension: cu2qu curve_type key already present in the (non-inplace) source
            lk = b.get("libkey")
            if lk and c["err"] is None and c["upm"] == 1000 and c["flat"] in lk["flat"] and c["drop"] in lk["drop"]:
                for where, value, rct, module in lk["cases"]:
                    lib = {"where": where, "value": value, "rct": rct}
                    add(c, part="shapes", cubic=False, module=module, lib=lib)
                    add(c, part="shapes", cubic=True, module=module, lib=lib, needs_cubic=True)

        # heaviest fonts first (pure scheduling; the set of states is unchanged)
        def cost(h):
            c = h[0]
            if c["part"] != "trie":
                return 0
            n = len(c["shapes"]) * len(c["palette"]) ** c["d"]
            return n * {"three": 8, "mixed": 4, "shared": 2, "multi": 3}.get(c["variant"], 1)
        out.sort(key=lambda h: -cost(h))
        return out

    REQUIRED = ("quad_run_1", "quad_run_2", "quad_run_3", "quad_run_4plus", "cubic_kept", "dropped_oncurves",
                "flatten_changed", "format_limit_weak", "mixed_3plus_components", "flipped_members",
                "half_coord_glyphs", "rejected_cubic_in_glyf0", "rejected_cycle", "max_depth_seen_3",
                "libkey_fonts", "libkey_quadratic_in_font_lib", "libkey_quadratic_in_layer_lib",
                "libkey_quadratic_cubics_converted", "libkey_quadratic_contours_reversed",
                "libkey_quadratic_contours_reversed_without_conversion")

    def finish(self, b, summary):
        missing = [k for k in self.REQUIRED if not summary["counters"].get(k)]
        if missing:
            return [violation("vacuous-exploration", {"missing": missing})]
        return []

    def describe(self, h, b):
        c = dict(h[0])
        if "palette" in c:
            c["palette"] = len(c["palette"])
        return c

    # ------------------------------------------------------------------------------------------
    def run(self, h, b):
        from ufo2ft.errors import InvalidFontData
        c = h[0]
        glyphs = make_glyphs(c)
        spec = {"glyphs": glyphs, "order": list(glyphs), "info": {"unitsPerEm": c["upm"]}}
        font = B.build_font(spec, c["module"])
        opts = {"convertCubics": c["cc"], "reverseDirection": c["rev"], "flattenComponents": c["flat"],
                "allQuadratic": c["aq"], "cubicConversionError": c["err"], "dropImpliedOnCurves": c["drop"]}
        feat = {k: c[k] for k in ("cc", "rev", "flat", "aq", "drop")}
        lib = c.get("lib")
        if lib:
            # bookkeeping key of an earlier conversion in the source; the build below is NOT in place
            if lib["where"] in ("font", "both"):
                font.lib[CURVE_TYPE_LIB_KEY] = lib["value"]
            if lib["where"] in ("layer", "both"):
                font.layers.defaultLayer.lib[CURVE_TYPE_LIB_KEY] = lib["value"]
            if lib["rct"] is not None:
                opts["rememberCurveType"] = lib["rct"]
            feat = dict(feat, curve_type_lib="%s:%s" % (lib["where"], lib["value"]), rct=lib["rct"])
        try:
            tt = compile_ttf(font, **opts)
        except InvalidFontData as e:
            if c["part"] == "cycle" and "cyclical component reference" in str(e):
                return Result([], {"rejected_cycle": 1}, "rejected-cycle", substates=1, nontrivial=0)
            raise
        except ValueError as e:
            if not c["cc"] and c["aq"] and has_cubic(glyphs) and "cubic Bezier curves" in str(e):
                return Result([], {"rejected_cubic_in_glyf0": 1}, "rejected-cubic", substates=1, nontrivial=0)
            if lib and "cubic Bezier curves" in str(e):
                # convertCubics or allQuadratic=False was requested, yet a cubic reached the glyf-0 writer
                return Result([violation("compile-crash", dict(feat, part="shapes", type="ValueError"),
                                         message=str(e)[:300], module=c["module"])], {}, "crash",
                              substates=len(glyphs))
            raise
        except AssertionError as e:
            if c["part"] == "qline":
                return Result([violation("compile-crash", dict(feat, part="qline", type="AssertionError"),
                                         message=str(e)[:300], spec=glyphs["ql"])], {}, "crash", substates=1)
            raise
        res = self.check_font(c, glyphs, tt, feat)
        if lib:
            k = res.counters
            k["libkey_fonts"] = 1
            if lib["value"] == "quadratic":
                if lib["where"] in ("font", "both"):
                    k["libkey_quadratic_in_font_lib"] = 1
                if lib["where"] in ("layer", "both"):
                    k["libkey_quadratic_in_layer_lib"] = 1
                if c["cc"]:
                    k["libkey_quadratic_cubics_converted"] = sum(
                        k["quad_run_%s" % n] for n in ("1", "2", "3", "4plus"))
                if c["cc"] and c["rev"]:  # direction is reversed by the cubic-to-quadratic filter itself
                    key = "libkey_quadratic_contours_reversed"
                    if not c["cubic"]:
                        key += "_without_conversion"  # font of line / quadratic glyphs only
                    k[key] = k["contours_matched"]
        return res

    def check_font(self, c, glyphs, tt, feat):
        viols = []
        ctrs = {k: 0 for k in (
            "glyph_states", "simple_glyphs", "mixed_decomposed", "pure_composites", "flatten_changed",
            "format_limit_weak", "cubic_kept", "quad_run_1", "quad_run_2", "quad_run_3", "quad_run_4plus",
            "dropped_oncurves", "half_coord_glyphs", "flipped_members", "mixed_3plus_components",
            "contours_matched", "maxp_checked")}

        per_sig = {}

        def add(kind, f, **detail):
            k = (kind, f.get("what"), f.get("kind"))
            per_sig[k] = per_sig.get(k, 0) + 1
            if per_sig[k] <= 2 and len(viols) < 12:
                viols.append(violation(kind, f, module=c["module"], err=c["err"], upm=c["upm"], **detail))

        order = tt.getGlyphOrder()
        if order != list(glyphs):
            add("glyph-set", dict(feat), expected=list(glyphs)[:10], observed=order[:10])
            return Result(viols, ctrs, "glyph-set", substates=len(glyphs), nontrivial=0)
        glyf = tt["glyf"]
        err_abs = (c["err"] if c["err"] else 0.001) * c["upm"]
        allowed = err_abs + ROUND_SLACK + EPS
        nontrivial = 0
        sig = []
        any_cubic_flag = False
        for name, g in glyphs.items():
            if len(viols) >= 12:
                break  # enough witnesses for this font; the run fails anyway
            ctrs["glyph_states"] += 1
            og = glyf[name]
            nt = False
            if any(R.is_half(p[0]) or R.is_half(p[1]) for cc in g.get("contours", ()) for p in cc):
                ctrs["half_coord_glyphs"] += 1
                nt = True
            if is_pure_composite(g):
                nt = True
                ctrs["pure_composites"] += 1
                self.check_composite(c, glyphs, name, g, og, feat, allowed, add, ctrs)
                sig.append((name, "C", len(getattr(og, "components", ()))))
            else:
                if og.isComposite():
                    add("not-decomposed", dict(feat, what="mixed" if g.get("components") else "simple"),
                        glyph=name, spec=_short_spec(glyphs, name),
                        observed=[comp_tuple(x) for x in og.components])
                    continue
                if g.get("components"):
                    ctrs["mixed_decomposed"] += 1
                    nt = True
                    if len(g["components"]) >= 3:
                        ctrs["mixed_3plus_components"] += 1
                    if any(R.det(t) < 0 for _, t in g["components"]):
                        ctrs["flipped_members"] += 1
                else:
                    ctrs["simple_glyphs"] += 1
                want = R.resolve(glyphs, name)
                if c["rev"]:
                    want = [R.reverse_segments(s) for s in want]
                ctx = Ctx(c["drop"], c["cc"], not c["aq"], allowed)
                bad, events = compare_simple(want, og, ctx)
                if bad:
                    f = dict(feat, what=bad["what"], kind="mixed" if g.get("components") else "simple")
                    if bad["what"] == "cubic-distance":
                        f.update(err=c["err"], upm=c["upm"])
                    add("outline-mismatch", f, glyph=name, spec=_short_spec(glyphs, name), **bad)
                else:
                    ctrs["contours_matched"] += len(want)
                nt = self._count(events, ctrs) or nt
                if og.numberOfContours > 0:
                    from fontTools.ttLib.tables._g_l_y_f import flagCubic
                    if any(f & flagCubic for f in og.flags):
                        any_cubic_flag = True
                sig.append((name, "S", og.numberOfContours, len(getattr(og, "flags", ()))))
            nontrivial += nt
        # cubic off-curves need the version-1 glyf data format to be read as cubics
        if any_cubic_flag and tt["head"].glyphDataFormat != 1:
            add("cubic-in-glyf-format-0", dict(feat))
        # component graph validity and maxp
        try:
            depths = {n: glyf_depth(glyf, n) for n in order}
        except ValueError as e:
            add("composite-invalid", dict(feat, what="cycle"), message=str(e))
            depths = {}
        if depths:
            max_depth = max(depths.values())
            max_elems = max([len(glyf[n].components) for n in order if glyf[n].isComposite()] or [0])
            maxp = tt["maxp"]
            ctrs["maxp_checked"] += 1
            if (maxp.maxComponentDepth, maxp.maxComponentElements) != (max_depth, max_elems):
                add("maxp-mismatch", dict(feat), expected={"depth": max_depth, "elements": max_elems},
                    observed={"depth": maxp.maxComponentDepth, "elements": maxp.maxComponentElements})
            ctrs["max_depth_seen_%d" % min(max_depth, 4)] = 1
            if c["flat"]:
                deep = [n for n in order if depths[n] > 1]
                if deep:
                    add("flatten-nested", dict(feat), glyphs=deep[:5], depth=depths[deep[0]],
                        spec=_short_spec(glyphs, deep[0]))
        for n in order:
            og = glyf[n]
            if og.isComposite():
                for comp in og.components:
                    if comp.glyphName not in glyphs:
                        add("composite-invalid", dict(feat, what="base-not-in-font"), glyph=n,
                            base=comp.glyphName)
        return Result(viols, ctrs, digest(sig), substates=len(glyphs), nontrivial=nontrivial)

    @staticmethod
    def _count(events, ctrs):
        nt = False
        for e in events:
            if e == "cubic-kept":
                ctrs["cubic_kept"] += 1
                nt = True
            elif e == "dropped":
                ctrs["dropped_oncurves"] += 1
                nt = True
            elif e.startswith("quad-run-"):
                k = int(e[-1])
                ctrs["quad_run_%s" % ("4plus" if k >= 4 else k)] += 1
                nt = True
        return nt

    def check_composite(self, c, glyphs, name, g, og, feat, allowed, add, ctrs):
        src = [(b_, tuple(t)) for b_, t in g["components"]]
        want = ref_flatten(glyphs, name) if c["flat"] else src
        if c["flat"] and want != src:
            ctrs["flatten_changed"] += 1
        klass = [classify_2x2(t) for _, t in want]
        if all(k == "exact" for k in klass):
            exp = [(b_, R.otround(t[4]), R.otround(t[5]), tuple(float(v) for v in t[:4])) for b_, t in want]
            if not og.isComposite():
                add("composite-lost", dict(feat), glyph=name, spec=_short_spec(glyphs, name),
                    expected=exp, observed_contours=og.numberOfContours)
                return
            got = [comp_tuple(x) for x in og.components]
            got = [(n_, x, y, tuple(float(v) for v in m)) for n_, x, y, m in got]
            if got != exp:
                what = "flattening" if c["flat"] and want != src else "component-list"
                add("composite-mismatch", dict(feat, what=what), glyph=name, spec=_short_spec(glyphs, name),
                    expected=exp, observed=got)
            return
        # format limit: weak checks only
        ctrs["format_limit_weak"] += 1
        if "overflow" in klass:
            if og.isComposite():
                return  # a writer is free to keep what it can; nothing exact to demand
            # decomposed by the glyf writer: same contours, direction not demanded, cubic bound not demanded
            wantc = []
            for b_, t in want:
                for segs in R.resolve(glyphs, b_):
                    wantc.append(R.transform_segments(t, segs))
            ctx = Ctx(c["drop"], c["cc"], not c["aq"], float("inf"))
            bad, _ = compare_simple(wantc, og, ctx, either_direction=True)
            if bad:
                add("outline-mismatch", dict(feat, what=bad["what"], kind="overflow-decomposed"), glyph=name,
                    spec=_short_spec(glyphs, name), **bad)
            return
        if not og.isComposite():
            add("composite-lost", dict(feat, what="format-limit"), glyph=name, spec=_short_spec(glyphs, name))
            return
        got = [comp_tuple(x) for x in og.components]
        ok = len(got) == len(want) and all(
            gn == b_ and x == R.otround(t[4]) and y == R.otround(t[5])
            and all(abs(a - bb) <= 2 ** -13 for a, bb in zip(m, t[:4]))
            for (gn, x, y, m), (b_, t) in zip(got, want))
        if not ok:
            add("composite-mismatch", dict(feat, what="format-limit"), glyph=name,
                spec=_short_spec(glyphs, name), expected=want, observed=got)


def _short_spec(glyphs, name, depth=0):
    g = glyphs[name]
    out = {"name": name, "contours": g.get("contours", []), "components": g.get("components", [])}
    if depth < 4:
        out["bases"] = [_short_spec(glyphs, b_, depth + 1) for b_, _ in g.get("components", ())
                        if b_ in glyphs][:3]
    return out


PROPERTY = C02()
