"""C01 — CFF outlines and advances equal the source with components resolved.

The space explored is a set of *tries*: every component chain of depth <= d over a transform
palette, hung under every base shape, in three variants (pure composite, composite with an own
contour, two components sharing a base), plus every single / pair of coordinate deviations from a
value palette and a width palette.  Because ufo2ft treats glyphs independently, one trie is packed
into one font; every glyph of every font is one checked state (BFS whose op is "append a
component level"; every prefix of every chain is a glyph of the font).
"""

from __future__ import annotations

import io
import itertools

from fontTools.pens.recordingPen import RecordingPen
from fontTools.ttLib import TTFont

from mc import outline_ref as R
from mc import ufo_build as B
from mc.explore import Property, Result, digest, violation

COORD_PALETTE = [0, 1, -1, 0.5, -0.5, 1.5, -1.5, 0.25, 0.75, -0.25, 16383.5, -16383]
# -0.25 and -0.5 round (halves up) to the valid advance 0
WIDTHS = [0, 500, 499.5, 500.5, 0.25, 1000.75, 123, -0.25, -0.5]
TOLS = [None, 0, 0.25, 0.5]
SMALLBOX = [(300, 300, "line"), (310.5, 300, "line"), (310.5, 320, "line"), (300, 320, "line")]


def trie_glyphs(shape, variant, palette, depth):
    """Glyph specs of the trie.  Node name encodes the chain of palette indices."""
    glyphs = {".notdef": {"width": 500, "contours": [B.box(50, 0, 450, 700)]},
              "r": {"width": 500.5, "unicodes": [0x41], "contours": B.SHAPES[shape]}}
    level = [("r", ())]
    for d in range(depth):
        nxt = []
        for parent, path in level:
            for i, tn in enumerate(palette):
                p2 = path + (i,)
                name = "n" + "_".join(map(str, p2))
                g = {"width": 100 + 10 * i + d + (0.5 if i % 2 else 0),
                     "components": [(parent, B.TRANSFORMS[tn])]}
                if variant == "mixed":
                    g["contours"] = [SMALLBOX]
                elif variant == "shared":
                    g["components"] = g["components"] + [("r", (1, 0, 0, 1, 200.5, 0.5))]
                glyphs[name] = g
                nxt.append((name, p2))
        level = nxt
    return glyphs


def deviation_glyphs(shape, k):
    """Every way of replacing <= k coordinates of the shape by a palette value."""
    base = B.SHAPES[shape]
    coords = [(ci, pi, ax) for ci, c in enumerate(base) for pi, _ in enumerate(c) for ax in (0, 1)]
    glyphs = {".notdef": {"width": 500, "contours": [B.box(50, 0, 450, 700)]}}
    n = 0
    for kk in range(1, k + 1):
        for where in itertools.combinations(coords, kk):
            for vals in itertools.product(COORD_PALETTE, repeat=kk):
                cs = [[list(p) for p in c] for c in base]
                for (ci, pi, ax), v in zip(where, vals):
                    cs[ci][pi][ax] = v
                # zero-length segments (also after rounding) are outside the alphabet: a cubic-only
                # format may drop them, so "exactly the source outline" is undefined there
                if any(abs(c[i][0] - c[i - 1][0]) < 1 and abs(c[i][1] - c[i - 1][1]) < 1
                       for c in cs for i in range(len(c))):
                    continue
                glyphs["v%d" % n] = {"width": 600, "contours": [[tuple(p) for p in c] for c in cs]}
                n += 1
    return glyphs


def width_glyphs():
    glyphs = {".notdef": {"width": 500, "contours": [B.box(50, 0, 450, 700)]}}
    for si, shape in enumerate(B.SHAPES):
        if shape == "large":
            continue
        for wi, w in enumerate(WIDTHS):
            glyphs["w%d_%d" % (si, wi)] = {"width": w, "contours": B.SHAPES[shape]}
    # many glyphs with the same width make it the computed defaultWidthX (omitted from charstrings)
    for i in range(6):
        glyphs["same%d" % i] = {"width": 499.5, "contours": B.SHAPES["tri"]}
    return glyphs


def _pt(p):
    return (float(p[0]), float(p[1]))


def expected_cycle(segs):
    """[(kind, [exact pts])] from the reference resolver."""
    return R.cubic_expectation(segs)


def coord_ok(obs, exact, tol, eps):
    """tol None/0.5: obs == otround(exact) (either neighbour at an exact tie produced by a
    non-dyadic elevation); tol < 0.5: moved by no more than tol (+ the 16.16 encoding error eps),
    which is all the statement demands."""
    ex = float(exact)
    if tol is None or tol >= 0.5:
        if obs == R.otround(ex):
            return True
        # x.5 reached through 2/3-elevation is not exactly representable: accept both neighbours
        if not isinstance(exact, (int, float)) and R.is_half(ex, 1e-9):
            return obs in (R.otround(ex), R.otround(ex) - 1)
        return False
    return abs(obs - ex) <= tol + eps


def impl_round(v, tol):
    """The rounding rule of the implementation (fontTools roundFunc) on an exact dyadic value."""
    v = float(v)
    if tol is None or tol >= 0.5:
        return R.otround(v)
    r = R.otround(v)
    return r if abs(r - v) <= tol else v


def compare_glyph(glyphs, name, rec_value, tol):
    """Returns None or a description of the mismatch."""
    want = [expected_cycle(s) for s in R.resolve(glyphs, name)]
    got = R.recording_to_cycles(rec_value, close_eps=0.01 if (tol is not None and tol < 0.5) else 0)
    if len(want) != len(got):
        return {"what": "contour-count", "expected": len(want), "observed": len(got)}
    npts = sum(len(p) for c in want for _, p in c) + 1
    eps = npts * 2.0 ** -14

    def seg_eq(w, g):
        if w[0] != g[0] or len(w[1]) != len(g[1]):
            return False
        return all(coord_ok(gp[0], wp[0], tol, eps) and coord_ok(gp[1], wp[1], tol, eps)
                   for wp, gp in zip(w[1], g[1]))

    for ci, (w, g) in enumerate(zip(want, got)):
        if not R.cyclic_equal(w, g, seg_eq):
            exact = not any(not isinstance(c, (int, float)) for k, pts in w for p in pts for c in p)
            if exact:
                # fontTools' specialiser merges adjacent h/v lines; classify that case separately
                wr = [(k, [(impl_round(p[0], tol), impl_round(p[1], tol)) for p in pts]) for k, pts in w]
                wm, gm = R.merge_axis_collinear(wr), R.merge_axis_collinear(g)
                if len(wm) < len(wr) and (R.cyclic_equal(wm, gm, seg_eq) or max(len(wm), len(gm)) <= 2):
                    return {"what": "axis-collinear-lines-merged", "index": ci,
                            "expected": wr[:8], "observed": g[:8]}
            return {"what": "contour", "index": ci,
                    "expected": [(k, [_pt(p) for p in pts]) for k, pts in w][:8],
                    "observed": g[:8]}
    return None


def compile_otf(font, **opts):
    import ufo2ft
    otf = ufo2ft.compileOTF(font, useProductionNames=False, **opts)
    buf = io.BytesIO()
    otf.save(buf)
    buf.seek(0)
    return TTFont(buf)


class C01(Property):
    id = "C01"
    rule = ("state = one glyph of a packed trie font: (base shape, component chain over the transform "
            "palette, variant, UFO library, roundTolerance, cffVersion) or one coordinate/width deviation; "
            "non-trivial = glyph has a component chain, a half-integer coordinate or a fractional width")
    assumptions = [
        "coordinates are multiples of 1/4 within +-16384 and transform entries dyadic, so reference and "
        "implementation arithmetic are exact in binary64",
        "closed contours only (CFF closes every path); no all-off-curve quadratic contours; no "
        "zero-length segments; widths whose rounded value is >= 0",
        "fontTools' CFF/CFF2 reader and charstring interpreter (getGlyphSet().draw) are trusted",
    ]
    trusted_base = ["fontTools TTFont reader + T2 charstring interpreter", "mc/outline_ref.py"]

    def bounds(self, tier):
        if tier == "quick":
            return {"depth": 0, "trie_depth": 3, "palette": B.QUICK_TRANSFORMS, "dev_pairs": ["tri"],
                    "dev_singles": ["tri", "cubic", "quad"], "deep": []}
        return {"depth": 0, "trie_depth": 3, "palette": B.ALL_TRANSFORMS, "dev_pairs": ["tri", "quad"],
                "dev_singles": ["tri", "cubic", "quad", "mixed", "two", "offstart"],
                "deep": [("tri", 4), ("mixed", 4)]}

    def initial(self, b):
        out = []
        configs = [(m, t, v) for m in ("ufoLib2", "defcon") for t in TOLS for v in (1, 2)]
        for shape in B.SHAPES:
            for variant in ("pure", "mixed", "shared"):
                for (m, t, v) in configs:
                    if shape == "large":
                        # coordinates near the CFF limit: only rigid, non-enlarging transforms
                        pal = [p for p in b["palette"] if p in ("id", "flipx", "flipy", "rot90", "half",
                                                                "rot180", "swapxy")]
                        if variant != "pure":
                            continue
                        pal = [p for p in pal if p in ("id", "half")]
                        out.append([{"part": "trie", "shape": shape, "variant": variant, "module": m,
                                     "tol": t, "cff": v, "d": 2, "palette": pal}])
                    else:
                        out.append([{"part": "trie", "shape": shape, "variant": variant, "module": m,
                                     "tol": t, "cff": v, "d": b["trie_depth"], "palette": b["palette"]}])
        # contours and points that carry identifiers (unique within each glyph, as the UFO
        # specification demands; the same strings recur in other glyphs)
        for shape, variant, m, v in itertools.product(("tri", "mixed"), ("pure", "mixed", "shared"),
                                                      ("ufoLib2", "defcon"), (1, 2)):
            out.append([{"part": "trie", "shape": shape, "variant": variant, "module": m, "tol": None,
                         "cff": v, "d": 2, "palette": B.QUICK_TRANSFORMS, "ident": 1}])
        for shape, d in b["deep"]:
            for variant in ("pure", "mixed"):
                out.append([{"part": "trie", "shape": shape, "variant": variant, "module": "ufoLib2",
                             "tol": None, "cff": 1, "d": d, "palette": B.QUICK_TRANSFORMS}])
        for (m, t, v) in configs:
            for shape in b["dev_singles"]:
                for o in (0, 1):
                    out.append([{"part": "dev", "shape": shape, "k": 1, "module": m, "tol": t, "cff": v,
                                 "opt": o}])
            out.append([{"part": "width", "module": m, "tol": t, "cff": v}])
            # explicit (fractional) default / nominal widths in fontinfo
            out.append([{"part": "width", "module": m, "tol": t, "cff": v, "widths_info": [499.5, 600.5]}])
            out.append([{"part": "width", "module": m, "tol": t, "cff": v, "widths_info": [500, 0]}])
        for shape in b["dev_pairs"]:
            for t in TOLS:
                for v in (1, 2):
                    out.append([{"part": "dev", "shape": shape, "k": 2, "module": "ufoLib2", "tol": t, "cff": v,
                                 "opt": v - 1}])
        return out

    def make_glyphs(self, c):
        if c["part"] == "trie":
            glyphs = trie_glyphs(c["shape"], c["variant"], c["palette"], c["d"])
            if c.get("ident"):
                for g in glyphs.values():
                    if g.get("contours"):
                        g["identifiers"] = True
            return glyphs
        if c["part"] == "dev":
            return deviation_glyphs(c["shape"], c["k"])
        return width_glyphs()

    def run(self, h, b):
        c = h[0]
        glyphs = self.make_glyphs(c)
        spec = {"glyphs": glyphs, "order": list(glyphs)}
        if c.get("widths_info"):
            spec["info"] = {"postscriptDefaultWidthX": c["widths_info"][0],
                            "postscriptNominalWidthX": c["widths_info"][1]}
        font = B.build_font(spec, c["module"])
        opts = {"optimizeCFF": c.get("opt", 1), "cffVersion": c["cff"]}
        if c["tol"] is not None:
            opts["roundTolerance"] = c["tol"]
        tt = compile_otf(font, **opts)
        gs = tt.getGlyphSet()
        hmtx = tt["hmtx"]
        viols, ctrs = [], {"glyph_states": 0, "half_coords": 0, "flipped_chains": 0, "double_flips": 0,
                           "fractional_widths": 0, "composites": 0}
        feat = {"tol": c["tol"], "cff": c["cff"], "opt": opts["optimizeCFF"]}
        order = tt.getGlyphOrder()
        if order != list(glyphs):
            viols.append(violation("glyph-set", dict(feat), expected=list(glyphs)[:10], observed=order[:10]))
        nontrivial = 0
        sig = []
        for name, g in glyphs.items():
            ctrs["glyph_states"] += 1
            rec = RecordingPen()
            gs[name].draw(rec)
            bad = compare_glyph(glyphs, name, rec.value, c["tol"])
            if bad and len(viols) < 5:
                viols.append(violation("outline-mismatch", dict(feat, what=bad["what"]), glyph=name,
                                       spec=_short_spec(glyphs, name), module=c["module"], **bad))
            adv = hmtx[name][0]
            if c["cff"] == 1:
                # the advance the CFF 1 charstring itself carries (decoded by fontTools while drawing)
                cs_w = tt["CFF "].cff[0].CharStrings[name].width
                if cs_w != R.otround(g["width"]) and len(viols) < 5:
                    viols.append(violation("charstring-advance-mismatch", dict(feat), glyph=name, width=g["width"],
                                           expected=R.otround(g["width"]), observed=cs_w, module=c["module"],
                                           widths_info=c.get("widths_info")))
            if adv != R.otround(g["width"]) and len(viols) < 5:
                viols.append(violation("advance-mismatch", dict(feat), glyph=name, width=g["width"],
                                       expected=R.otround(g["width"]), observed=adv, module=c["module"]))
            nt = False
            if g.get("components"):
                ctrs["composites"] += 1
                nt = True
                flips = self._flips(glyphs, name)
                if flips % 2:
                    ctrs["flipped_chains"] += 1
                if flips >= 2:
                    ctrs["double_flips"] += 1
            if any(R.is_half(p[0]) or R.is_half(p[1]) for cc in g.get("contours", ()) for p in cc):
                ctrs["half_coords"] += 1
                nt = True
            if g["width"] != int(g["width"]):
                ctrs["fractional_widths"] += 1
                nt = True
            nontrivial += nt
            sig.append((name, len(rec.value), adv))
        return Result(viols, ctrs, digest(sig), substates=len(glyphs), nontrivial=nontrivial)

    @staticmethod
    def _flips(glyphs, name):
        n = 0
        g = glyphs[name]
        while g.get("components"):
            base, t = g["components"][0]
            if R.det(t) < 0:
                n += 1
            g = glyphs[base]
        return n

    def describe(self, h, b):
        c = dict(h[0])
        if "palette" in c:
            c["palette"] = len(c["palette"])
        return c


def _short_spec(glyphs, name, depth=0):
    g = glyphs[name]
    out = {"name": name, "width": g["width"], "contours": g.get("contours", []),
           "components": g.get("components", [])}
    if depth < 4:
        out["bases"] = [_short_spec(glyphs, b, depth + 1) for b, _ in g.get("components", ())
                        if b in glyphs][:2]
    return out


PROPERTY = C01()
