"""C08 — output is a pure function of UFO content and options.

The "scheduler" here is CPython's per-process string-hash seed (it decides the iteration order of
every set of names), plus the call history on the source objects, the UFO library, the way the
font was loaded and the inplace flag.  Level 0 computes, per input, the reference digests in a
fresh subprocess (seed 0, ufoLib2, in memory, no history, not inplace).  Level 1 has one state per
(input, seed): a FRESH subprocess started with that PYTHONHASHSEED executes every variant of the
bounded variant product and every digest (sha256 of the saved font bytes and of the emitted
feature source of the last call) must equal the reference digest of the same function.

Seeds are not sampled: a probe computes, for seeds 0..N-1, the iteration order of each tracked
4-name set, and a greedy cover picks seeds until ALL k! orders of EVERY tracked set are realised.
"""

from __future__ import annotations

import atexit
import itertools
import json
import os
import shutil
import subprocess
import sys
import tempfile

from mc.explore import Property, Result, digest, violation
from props import purity_inputs as P

HERE = os.path.dirname(os.path.dirname(os.path.abspath(__file__)))


def run_sub(seed, job=None, probe=False, timeout=1800, tz=None):
    env = dict(os.environ)
    env["PYTHONHASHSEED"] = str(seed)
    if tz:
        env["TZ"] = tz  # POSIX form, needs no zone database
    if probe:
        code = ("import json;T=%r;print(json.dumps({k:list(set(v)) for k,v in T.items()}))" % (P.TRACKED,))
        r = subprocess.run([sys.executable, "-c", code], env=env, capture_output=True, text=True, timeout=600)
        return json.loads(r.stdout)
    r = subprocess.run([sys.executable, "-W", "ignore", "-m", "props.purity_inputs"], env=env, cwd=HERE,
                       input=json.dumps(job), capture_output=True, text=True, timeout=timeout)
    if r.returncode != 0:
        raise RuntimeError("subprocess failed: " + r.stderr[-800:])
    return json.loads(r.stdout)


def seed_cover(nprobe):
    """Greedy cover of all permutations of every tracked set over seeds 0..nprobe-1."""
    from concurrent.futures import ThreadPoolExecutor
    with ThreadPoolExecutor(16) as ex:
        orders = list(ex.map(lambda s: run_sub(s, probe=True), range(nprobe)))
    need = set()
    have = {}
    for s, o in enumerate(orders):
        for k, lst in o.items():
            have.setdefault(s, set()).add((k, tuple(lst)))
    universe = set().union(*have.values())
    total = {k: len(list(itertools.permutations(v))) for k, v in P.TRACKED.items()}
    realised = {k: len({t for kk, t in universe if kk == k}) for k in P.TRACKED}
    chosen, covered = [0], set(have[0])
    while covered != universe:
        best = max(range(nprobe), key=lambda s: (len(have[s] - covered), -s))
        if not have[best] - covered:
            break
        chosen.append(best)
        covered |= have[best]
    return chosen, total, realised


def fns_of(inp):
    if "fns" in P.INPUTS[inp]:
        return P.INPUTS[inp]["fns"]
    return P.STATIC if P.INPUTS[inp]["kind"] == "static" else P.DSFN


def small_variants(inp, depth, tier="quick"):
    fns = fns_of(inp)
    out = []
    for d in range(1, depth + 1):
        for hist in itertools.product(fns, repeat=d):
            if tier == "quick" and P.INPUTS[inp]["kind"] == "ds" and d == 2 and hist[0] != hist[1] \
                    and "fns" not in P.INPUTS[inp]:
                # designspace builds are the expensive ones: per seed only f and f,f; the full
                # cross-function histories run on the seeds of the full variant product
                continue
            out.append({"lib": "ufoLib2", "load": "memory", "inplace": False, "history": list(hist), "perm": None})
    return out


TIME_ZONES = ["JST-9", "PST8"]  # east and west of UTC

FULL_PARTS = [("ufoLib2", "memory"), ("ufoLib2", "disk-lazy"), ("ufoLib2", "disk-eager"), ("defcon", "memory"),
              ("defcon", "disk-eager"), ("perm", None)]


def full_variants(inp, nperm, part):
    """One slice (UFO library x load mode, or the construction-order permutations) of the full product;
    the slices are separate states so that no single subprocess dominates the wall time."""
    fns = fns_of(inp)
    out = []
    hists = [[f] for f in fns] + [[g, f] for g in fns for f in fns]
    lib, load = FULL_PARTS[part]
    if lib != "perm":
        for inplace in (False, True):
            for h in hists:
                out.append({"lib": lib, "load": load, "inplace": inplace, "history": h, "perm": None})
    elif inp in ("rich", "rich+fea", "ds2"):
        f0 = fns[0]
        for k in range(nperm):
            for lib2 in ("ufoLib2", "defcon"):
                out.append({"lib": lib2, "load": "memory", "inplace": False, "history": [f0], "perm": k})
    return out


# ---- call history on ONE compiler object (ufo2ft.TTFCompiler, ... VariableCFF2sCompiler) -------------
# The compile functions create a compiler object per call; the classes are exported too, and an object
# that already compiled something - or failed to - must behave like a fresh one.
COMPILER_KINDS = {
    "TTFCompiler": ("static", "compile"), "OTFCompiler": ("static", "compile"),
    "InterpolatableTTFCompiler": ("ds", "compile_designspace"),
    "InterpolatableOTFCompiler": ("ds", "compile_designspace"),
    "VariableTTFsCompiler": ("ds", "compile_variable"), "VariableCFF2sCompiler": ("ds", "compile_variable"),
}
COMPILER_INPUTS = ["A", "B", "Xfea", "Xpts"]  # two good sources, bad feature code, incompatible masters


def _compiler_input(kind, key):
    from mc import ufo_build as B

    def master(i, key):
        d = 20 * i + (7 if key == "B" else 0)
        tri = [(0, 0, "line"), (100 + d, 0, "line"), (50, 90 + d, "line")]
        if key == "Xpts" and i == 1:
            tri = tri + [(20, 40, "line")]  # one more point than in the other master
        g = {".notdef": {"width": 500, "contours": [P.box(50, 0, 450, 700)]},
             "a": {"width": 500 + d, "unicodes": [0x61], "contours": [tri], "anchors": [("top", 50, 100 + d)]},
             "b": {"width": 520 + d, "unicodes": [0x62], "contours": [P.box(10, 0, 90 + d, 100)]},
             "a.alt": {"width": 510 + d, "contours": [P.box(0, 0, 80 + d, 80)]},
             "acutecomb": {"width": 0, "unicodes": [0x301], "contours": [P.box(-20, 500, 20, 560 + d)],
                           "anchors": [("_top", 0, 480)]}}
        if key == "B":
            g["c"] = {"width": 400 + d, "unicodes": [0x63], "components": [("a", (1, 0, 0, 1, 5, 0))]}
        fea = "feature ss01 { sub a by a.alt; } ss01;\n"
        if key == "Xfea":
            fea = "feature liga { sub a by nonexistent; } liga;\n"
        return {"glyphs": g, "order": list(g), "kerning": [("a", "b", -30 - d)], "features": fea,
                "info": {"styleName": "M%d" % i}}
    if kind == "static":
        sp = master(0, key)
        if key == "B":
            sp["lib"] = {"public.skipExportGlyphs": ["c"]}
        return B.build_font(sp)
    # source B carries its own designspace-level settings (a skip list): they are B's, not the compiler's
    return B.build_designspace([{"name": "Weight", "tag": "wght", "min": 0, "default": 0, "max": 1000}],
                               [{"spec": master(0, key), "location": {"Weight": 0}, "name": "m0"},
                                {"spec": master(1, key), "location": {"Weight": 1000}, "name": "m1"}],
                               lib={"public.skipExportGlyphs": ["c"]} if key == "B" else None)


def _compiler_digest(kind, result):
    import hashlib
    import io
    from fontTools.ttLib import TTFont
    if isinstance(result, TTFont):
        fonts = {"font": result}
    elif isinstance(result, dict):
        fonts = result
    else:  # a designspace whose sources carry the compiled masters
        fonts = {s.name: s.font for s in result.sources}
    out = {}
    for k, f in sorted(fonts.items()):
        buf = io.BytesIO()
        f.save(buf)
        out[k] = [f.getGlyphOrder(), hashlib.sha256(buf.getvalue()).hexdigest()]
    return out


def run_compiler_history(c):
    import ufo2ft
    cls = getattr(ufo2ft, c["cls"])
    kind, method = COMPILER_KINDS[c["cls"]]
    hist = c["hist"]

    def call(obj, key):
        try:
            return _compiler_digest(kind, getattr(obj, method)(_compiler_input(kind, key)))
        except Exception as e:  # noqa: BLE001
            return {"error": type(e).__name__}
    obj = cls(**c["opts"])
    got = [call(obj, k) for k in hist]
    want = call(cls(**c["opts"]), hist[-1])
    viols = []
    failed_before = any("error" in r for r in got[:-1])
    if got[-1] != want:
        viols.append(violation("compiler-object-history", {"cls": c["cls"], "after_failure": failed_before,
                                                           "opts": sorted(c["opts"])},
                               history=hist, expected=want, observed=got[-1], earlier=got[:-1]))
    ctr = {"compiler_object_histories": 1, "compiler_object_histories_after_failure": int(failed_before),
           "compiler_object_failures_seen": sum(1 for r in got if "error" in r)}
    return Result(viols, ctr, digest([c, got]), substates=1, nontrivial=1)


class C08(Property):
    id = "C08"
    rule = ("state = (input, PYTHONHASHSEED) executed in a fresh subprocess; sub-states = variants "
            "(call history on the same objects x UFO library x in-memory / saved-and-reopened x inplace x "
            "construction-order permutation); non-trivial = variant differs from the reference in at "
            "least one dimension")
    assumptions = [
        "SOURCE_DATE_EPOCH pins timestamps (set by ./check); the process time zone (TZ) is varied",
        "only the string-hash order is scheduled; no code path ordering by id() was found",
        "name sets larger than the tracked 4-element sets are covered by the orders actually realised",
    ]
    trusted_base = ["CPython", "fontTools save()", "sha256"]

    def bounds(self, tier):
        nprobe = 200 if tier == "quick" else 400
        seeds, total, realised = seed_cover(nprobe)
        refdir = tempfile.mkdtemp(prefix="ufo2ft-mc-c08-")
        pid = os.getpid()
        atexit.register(lambda: os.getpid() == pid and shutil.rmtree(refdir, ignore_errors=True))
        return {"depth": 2, "seeds": seeds, "orders_total": total, "orders_realised": realised,
                "refdir": refdir, "hist_depth": 2 if tier == "quick" else 3,
                "full_seeds": [0, 1] if tier == "quick" else [0, 1, 2, 3],
                "nperm": 24 if tier == "quick" else 48, "nprobe": nprobe,
                "history_input_seeds": 4 if tier == "quick" else 12,
                "compiler_hist": 2 if tier == "quick" else 3}

    def initial(self, b):
        out = [[{"input": i, "role": "ref"}] for i in P.INPUTS]
        for cls, (kind, _) in COMPILER_KINDS.items():
            keys = [k for k in COMPILER_INPUTS if not (kind == "static" and k == "Xpts")]
            for n in range(2, b["compiler_hist"] + 1):
                for hist in itertools.product(keys, repeat=n):
                    if hist[-1] not in ("A", "B"):
                        continue
                    for opts in ({}, {"useProductionNames": False}, {"useProductionNames": True}):
                        if opts and n > 2:
                            continue
                        out.append([{"part": "compiler", "cls": cls, "hist": list(hist), "opts": opts}])
        return out

    def ops(self, h, b):
        if len(h) != 1 or h[0].get("part") == "compiler":
            return
        seeds = b["seeds"]
        if "fns" in P.INPUTS[h[0]["input"]]:
            seeds = seeds[:b["history_input_seeds"]]  # inputs that exist for a call-history effect only
        for s in seeds:
            yield {"seed": s, "mode": "small"}
        # the process time zone is part of the environment too: SOURCE_DATE_EPOCH pins the timestamps
        # whatever the local zone is
        for tz in TIME_ZONES:
            yield {"seed": 0, "mode": "small", "tz": tz}
        for s in b["full_seeds"]:
            for part in range(len(FULL_PARTS)):
                if FULL_PARTS[part][0] == "perm" and h[0]["input"] not in ("rich", "rich+fea", "ds2"):
                    continue
                yield {"seed": s, "mode": "full", "part": part}

    def run(self, h, b):
        if h[0].get("part") == "compiler":
            return run_compiler_history(h[0])
        inp = h[0]["input"]
        refpath = os.path.join(b["refdir"], inp.replace("+", "_") + ".json")
        if len(h) == 1:
            variants = [{"lib": "ufoLib2", "load": "memory", "inplace": False, "history": [f], "perm": None}
                        for f in fns_of(inp)]
            out = run_sub(0, {"input": inp, "variants": variants})
            ref = {}
            viols = []
            for v in variants:
                r = out["results"][P.vkey(v)]
                ref[v["history"][0]] = r
                if "error" in r:
                    viols.append(violation("reference-compile-failed", {"input": inp, "fn": v["history"][0]}, result=r))
            with open(refpath, "w") as f:
                json.dump(ref, f)
            return Result(viols, {"reference_runs": len(variants)}, digest(ref), substates=len(variants), nontrivial=0)
        ref = json.load(open(refpath))
        seed, mode = h[1]["seed"], h[1]["mode"]
        variants = small_variants(inp, b["hist_depth"], b["tier"]) if mode == "small" else full_variants(inp, b["nperm"], h[1]["part"])
        out = run_sub(seed, {"input": inp, "variants": variants}, tz=h[1].get("tz"))
        viols, seen, failing = [], set(), []
        ctr = {"subprocesses": 1, "variants": len(variants), "compared": 0}
        for k, lst in out["orders"].items():
            ctr["order:%s:%s" % (k, ",".join(lst))] = 1
        nontrivial = 0
        for v in variants:
            r = out["results"][P.vkey(v)]
            want = ref[v["history"][-1]]
            dims = []
            if seed != 0:
                dims.append("seed")
            if h[1].get("tz"):
                dims.append("tz")
            if len(v["history"]) > 1:
                dims.append("history")
            if v["lib"] != "ufoLib2":
                dims.append("lib")
            if v["load"] != "memory":
                dims.append("load")
            if v["inplace"]:
                dims.append("inplace")
            if v["perm"] is not None:
                dims.append("construction-order")
            nontrivial += bool(dims)
            ctr["compared"] += 1
            if r == want:
                continue
            what = "error" if "error" in r else ("font+fea" if r.get("fea") != want.get("fea") else "font")
            # attribute the difference to the smallest set of dimensions: re-check simpler variants
            failing.append((dims, what, v, want, r))
        # attribute each difference to a minimal set of dimensions: a failing variant whose dimension
        # set strictly contains that of another failing variant (same function) is explained by it
        for dims, what, v, want, r in failing:
            fn = v["history"][-1]
            if any(set(d2) < set(dims) and v2["history"][-1] == fn for d2, _, v2, _, _ in failing):
                continue
            feat = {"input": inp, "fn": fn, "what": what, "dims": [d for d in dims if d != "seed"] or ["seed"]}
            key = json.dumps(feat, sort_keys=True)
            if key in seen:
                continue
            seen.add(key)
            viols.append(violation("output-differs", feat, variant=v, seed=seed, expected=want, observed=r))
        return Result(viols, ctr, digest(out["results"]), substates=len(variants), nontrivial=nontrivial)

    def finish(self, b, summary):
        out = []
        # non-vacuity of the schedule: every permutation of every tracked set was really exercised
        for k, names in P.TRACKED.items():
            seen = {c for c in summary["counters"] if c.startswith("order:%s:" % k)}
            if len(seen) < b["orders_total"][k]:
                out.append(violation("schedule-not-covered", {"set": k}, realised=len(seen), needed=b["orders_total"][k]))
        return out

    def describe(self, h, b):
        return h


PROPERTY = C08()
