"""C09 — interpolatable compilation keeps compatible masters compatible.

State = (entry point, number of masters, flattenComponents, UFO library) + a history of *structure
ops* applied to a family of point-compatible masters.  Every family always contains the complete
K x K trie of cubic shape pairs (glyph ``p<i>_<j>`` draws cubic K[i] in master 0 and K[j] in master 1;
master 2 is K[i] scaled by 5/4, master 3 is K[j] moved by per-point dyadic offsets, the sparse layer
is the midpoint), so that cu2qu run on one master alone would need a different number of quadratic
segments than on another, plus quadratic / mixed-curve / two-contour glyphs.  The structure ops

  comp        composites over five representative bases (identity, scaled, flipped 2x2, two bases)
  d2x2:<m>    composites whose 2x2 differs in exactly one entry in master m (0, 1 or the sparse layer)
  dflip       composites whose 2x2 changes the sign of its determinant in master 0 only
  nest        composites of every composite / mixed glyph present so far (twice: depth 3)
  mixed       glyphs with a contour and a component, in every master
  sparse:<v>  a sparse layer source holding only bases / only composites (bases and some
              intermediates missing) / a mix; "comps1st" lists the sparse source first
  skip:<v>    skipExportGlyphs naming bases used as components / composites used by nested glyphs
  filt:<f>:<m> decomposeTransformedComponents or flattenComponents in the lib of master m only, or
              of all masters

are explored breadth-first to depth 2 (quick) / 3 (thorough).  The real interpolatable compile
function runs in every state and the per-glyph structure of every returned master is compared:
contour count, per-contour point count and on/off/cubic flags in order, component base list and
2x2 (glyf); charstring operator sequence (CFF).

The sources are point-compatible by construction (one abstract glyph description is concretised
per master; only coordinates, component offsets and - on request - a component's 2x2 differ); this
is checked by selftest/test_c09_family.py.
"""

from __future__ import annotations

import copy

from mc import ufo_build as B
from mc.explore import Property, Result, digest, violation

F = "com.github.googlei18n.ufo2ft."

# ---- cubic palette K -----------------------------------------------------------------------
# (name, P0, C1, C2, P3): one cubic segment; the contour is closed through a fifth corner point.
# Individually (max_err = 1 unit) they need 1, 1, 2, 3, 5, 5, 5/6, 7, 7/8, 8/9, 9 and 11/12
# quadratic segments (second number: after the 5/4 scale) -- see individual_counts().
K = [
    ("gentle", (0, 0), (100, 50), (200, 50), (300, 0)),
    ("tiny", (0, 0), (3, 4), (6, 4), (9, 0)),
    ("nearline", (0, 0), (100, 1), (200, -1), (300, 0)),
    ("qc200", (0, 200), (110.5, 200), (200, 110.5), (200, 0)),
    ("qc800", (0, 800), (442, 800), (800, 442), (800, 0)),
    ("hook", (0, 0), (290, 5), (295, 100), (300, 0)),
    ("asym", (0, 0), (10, 200), (250, 260), (300, 0)),
    ("s1", (0, 0), (200, 0), (100, 300), (300, 300)),
    ("cusp", (0, 0), (300, 300), (0, 300), (300, 0)),
    ("loop", (0, 0), (400, 300), (-100, 300), (300, 0)),
    ("wide", (0, 0), (0, 500), (1000, 500), (1000, 0)),
    ("big", (0, 0), (3000, 4500), (7500, 4500), (10500, 0)),
]
NK = len(K)
# per-point dyadic offsets used for master 3
D3 = [(0.5, 0), (0, -0.25), (8, 4.5), (-3.25, 2), (1, 1)]
MAX_ERR = 1.0  # DEFAULT_MAX_ERR (0.001) * unitsPerEm (1000)


def k_points(i):
    _, p0, c1, c2, p3 = K[i]
    p4 = ((p0[0] + p3[0]) / 2 - 50, min(p0[1], p3[1]) - 300)
    return [p0, c1, c2, p3, p4]


K_TYPES = ["line", None, None, "curve", "line"]


def pair_contour(i, j, mid):
    """Contour of glyph p<i>_<j> in master `mid` (0..3 or 'S')."""
    a, b = k_points(i), k_points(j)
    if mid == 0:
        pts = a
    elif mid == 1:
        pts = b
    elif mid == 2:
        pts = [(x * 1.25, y * 1.25) for x, y in a]
    elif mid == 3:
        pts = [(x + dx, y + dy) for (x, y), (dx, dy) in zip(b, D3)]
    else:
        pts = [((x0 + x1) / 2, (y0 + y1) / 2) for (x0, y0), (x1, y1) in zip(a, b)]
    return [(x, y, t) for (x, y), t in zip(pts, K_TYPES)]


def cubic_of(i, j, mid):
    c = pair_contour(i, j, mid)
    return [(p[0], p[1]) for p in c[:4]]


_COUNTS = None


def individual_counts():
    """Number of quadratic segments cu2qu needs for each K[i] (masters 0/1), its 5/4 scale (master
    2) and the offset version (master 3) when run on that curve ALONE.  fontTools.cu2qu is used
    directly; this is the non-vacuity measure, not an oracle."""
    global _COUNTS
    if _COUNTS is None:
        from fontTools.cu2qu import curve_to_quadratic
        _COUNTS = {}
        for i in range(NK):
            for mid in (0, 2):
                _COUNTS[(i, mid)] = len(curve_to_quadratic(cubic_of(i, i, mid), MAX_ERR)) - 2
            _COUNTS[(i, 1)] = _COUNTS[(i, 0)]
            _COUNTS[(i, 3)] = len(curve_to_quadratic(cubic_of(i, i, 3), MAX_ERR)) - 2
    return _COUNTS


def pair_counts(i, j, mids):
    cnt = individual_counts()
    out = []
    for m in mids:
        if m == "S":
            from fontTools.cu2qu import curve_to_quadratic
            out.append(len(curve_to_quadratic(cubic_of(i, j, "S"), MAX_ERR)) - 2)
        else:
            out.append(cnt[(i if m in (0, 2) else j, m)])
    return out


# ---- non-cubic extras (quadratic, mixed, off-curve start, two contours, lines) ----------------
EXTRAS = {"xq": "quad", "xm": "mixed", "xo": "offstart", "x2": "two", "xt": "tri"}


def mindex(mid):
    return 0.5 if mid == "S" else mid


def extra_contours(key, mid):
    mi = mindex(mid)
    out = []
    for c in B.SHAPES[EXTRAS[key]]:
        cc = []
        for p, pt in enumerate(c):
            x, y = pt[0] + mi * (2 * p + 0.5), pt[1] - mi * (p * 1.25)
            if mid == 2:
                x, y = x * 1.25, y * 1.25
            cc.append((x, y, pt[2]))
        out.append(cc)
    return out


# ---- transforms ----------------------------------------------------------------------------
TK = {
    "id": (1, 0, 0, 1, 20, 10),
    "half": (0.5, 0, 0, 0.5, 5, 0),
    "flipx": (-1, 0, 0, 1, 400, 0),
    "shift": (1, 0, 0, 1, 10.5, -3),
    "rot": (0, 1, -1, 0, 30, 0),
}
# value a 2x2 entry is changed to in the one master that differs (entries xx, xy, yx, yy)
DIFF_VALUES = [0.5, 0.25, -0.25, 0.5]
ENTRY = ["xx", "xy", "yx", "yy"]

# representative bases carrying the composite roles: K pairs whose individual segment counts differ
# in both directions, one pair with equal counts, a quadratic and a mixed-curve glyph
REP = ["p0_11", "p10_3", "p6_6", "xq", "xm"]


def concrete_transform(tkey, diff, mid):
    t = list(TK[tkey])
    mi = mindex(mid)
    t[4] += 10.5 * mi
    t[5] -= 3 * mi
    if diff is not None and diff[1] == mid:
        t[diff[0]] = diff[2]
    return tuple(t)


# ---- structure: history -> abstract family ----------------------------------------------------
GLYPH_OPS = ["comp", "d2x2:0", "d2x2:1", "d2x2:S", "nest", "mixed", "dflip"]
# "comps1st": same layer as "comps" but the sparse source is listed before the default master
# "comps+nd": the "comps" layer additionally has its own '.notdef' glyph
SPARSE_OPS = ["sparse:bases", "sparse:comps", "sparse:mix", "sparse:comps1st", "sparse:comps+nd",
              # "+ufo": the sparse master is a UFO of its own (a full, non-default source that simply lacks
              # most glyphs) instead of a layer of the default master's UFO
              "sparse:comps+nd+ufo"]
SKIP_OPS = ["skip:base", "skip:comp"]
FILTER_OPS = ["filt:dtc:0", "filt:dtc:1", "filt:dtc:all", "filt:flat:0", "filt:flat:all"]
# depth-3 histories that are part of the quick tier as start states: a pre-filter that rewires
# components (flatten) over nested composites whose INNER 2x2 differs between masters
DEEP_SEEDS = [["d2x2:0", "nest", "filt:flat:all"], ["d2x2:1", "nest", "filt:flat:all"],
              ["comp", "nest", "filt:flat:all"], ["d2x2:1", "nest", "filt:dtc:all"]]
ALL_OPS = GLYPH_OPS + SPARSE_OPS + SKIP_OPS + FILTER_OPS


def base_family():
    """Abstract glyph descriptions present in every state, in glyph order."""
    g = {".notdef": {"role": "notdef", "rep": None, "shape": ("box",), "comps": []},
         "space": {"role": "empty", "rep": None, "shape": None, "comps": []}}
    for i in range(NK):
        for j in range(NK):
            g["p%d_%d" % (i, j)] = {"role": "pair", "rep": None, "shape": ("pair", i, j), "comps": []}
    for k in EXTRAS:
        g[k] = {"role": "extra", "rep": None, "shape": ("extra", k), "comps": []}
    for r, b in enumerate(REP):
        g[b]["rep"] = r
    return g


def _add(g, name, role, rep, shape, comps):
    if name not in g:
        g[name] = {"role": role, "rep": rep, "shape": shape, "comps": comps}


def _add_composites(g):
    for r, b in enumerate(REP):
        _add(g, "c." + b, "c", r, None, [(b, "id", None)])
        _add(g, "s." + b, "s", r, None, [(b, "half" if r % 2 == 0 else "flipx", None)])
        _add(g, "cc." + b, "cc", r, None, [(b, "id", None), (REP[(r + 1) % len(REP)], "rot", None)])
        # two bases that no other composite uses (in a sparse layer both need a placeholder)
        _add(g, "cd." + b, "cd", r, None, [("p%d_%d" % (r, r + 1), "id", None),
                                          ("p%d_%d" % (r + 1, r), "rot", None)])


def interpret(h):
    """History -> structure dict {setup, glyphs (abstract), sparse, flatten, skip, filt}."""
    setup = h[0]
    g = base_family()
    st = {"setup": setup, "glyphs": g, "sparse": None, "flatten": bool(setup.get("flatten")), "skip": [],
          "filt": None,
          "ops": list(h[1:])}
    for op in h[1:]:
        if op == "comp":
            _add_composites(g)
        elif op.startswith("d2x2:"):
            m = op[5:]
            m = "S" if m == "S" else int(m)
            targets = [(r, b) for r, b in enumerate(REP)]
            targets += [(d["rep"], n) for n, d in list(g.items()) if d["role"] == "c"]
            for r, b in targets:
                for e in range(4):
                    _add(g, "t%s%s.%s" % (m, ENTRY[e], b), "t", r, None, [(b, "id", (e, m, DIFF_VALUES[e]))])
                # the smallest difference the glyf format can store: one F2Dot14 step (2**-14)
                _add(g, "u%sxx.%s" % (m, b), "t", r, None, [(b, "id", (0, m, 1 + 2.0 ** -14))])
                _add(g, "u%syy.%s" % (m, b), "t", r, None, [(b, "id", (3, m, 1 - 2.0 ** -14))])
        elif op == "dflip":
            # the determinant of the component's 2x2 changes sign in master 0 only
            for r, b in enumerate(REP):
                _add(g, "f0." + b, "f", r, None, [(b, "id", (3, 0, -1))])
        elif op == "nest":
            _add_composites(g)  # nesting needs something to nest
            for n, d in list(g.items()):
                if d["comps"] and d["role"] != "n2":
                    role = "n2" if d["role"] in ("n", "nm") else ("nm" if d["shape"] else "n")
                    _add(g, "n." + n, role, d["rep"], None, [(n, "shift", None)])
                    if d["role"] in ("c", "s"):
                        # a second user of the same nested composite (filters memoise per base glyph)
                        _add(g, "nb." + n, role, d["rep"], None, [(n, "id", None)])
        elif op == "mixed":
            have_c = [n for n, d in g.items() if d["role"] == "c"]
            for r, b in enumerate(REP):
                _add(g, "m." + b, "m", r, ("smallbox",), [(b, "id", None)])
                _add(g, "mt." + b, "m", r, ("smallbox",), [(b, "half", None)])
            for n in have_c:
                _add(g, "mc." + n, "mc", g[n]["rep"], ("smallbox",), [(n, "shift", None)])
        elif op.startswith("sparse:"):
            st["sparse"] = op[7:]
        elif op.startswith("skip:"):
            st["skip"].append(op[5:])
        elif op.startswith("filt:"):
            st["filt"] = op[5:]
        else:
            raise ValueError(op)
    return st


def skip_list(st):
    """Glyph names of the skipExportGlyphs list."""
    g = st["glyphs"]
    out = []
    if "base" in st["skip"]:
        out += [REP[0], REP[3], "p1_2"]
    if "comp" in st["skip"]:
        out += [n for n in ("c." + REP[0], "c." + REP[1], "s." + REP[1], "m." + REP[2]) if n in g]
    return out


def sparse_names(st):
    """Which glyphs the sparse layer contains."""
    v = st["sparse"].replace("1st", "").replace("+ufo", "").replace("+nd", "")
    g = st["glyphs"]
    out = [".notdef"] if "+nd" in st["sparse"] else []
    for n, d in g.items():
        if d["role"] in ("notdef", "empty"):
            continue
        if d["role"] == "pair" and d["rep"] is None:
            i, j = d["shape"][1], d["shape"][2]
            take = (i + 2 * j) % 5 == 0
        elif d["role"] == "extra" and d["rep"] is None:
            take = n == "x2"
        elif not d["comps"]:  # representative base
            take = {"bases": d["rep"] % 2 == 0, "comps": False, "mix": d["rep"] in (0, 3)}[v]
        else:  # composite / mixed glyph
            take = {"bases": False, "comps": d["rep"] % 2 == 0, "mix": d["rep"] in (1, 3, 4)}[v]
            if v == "comps" and d["rep"] == 2 and d["role"] in ("c", "m"):
                take = False  # their nested users stay: a reference to an intermediate that is missing
        if take:
            out.append(n)
    return out


def concrete_glyph(d, mid, name):
    mi = mindex(mid)
    spec = {"width": 500 + 10 * mi}
    sh = d["shape"]
    if sh is None:
        pass
    elif sh[0] == "pair":
        spec["contours"] = [pair_contour(sh[1], sh[2], mid)]
    elif sh[0] == "extra":
        spec["contours"] = extra_contours(sh[1], mid)
    elif sh[0] == "box":
        spec["contours"] = [B.box(50, 0, 450 + 10 * mi, 700)]
    elif sh[0] == "smallbox":
        spec["contours"] = [B.box(300, 300, 310.5 + mi, 320 + 2 * mi)]
    if d["comps"]:
        spec["components"] = [(b, concrete_transform(tk, diff, mid)) for b, tk, diff in d["comps"]]
    if name == "space":
        spec["unicodes"] = [0x20]
    return spec


def master_spec(st, mid, nmasters):
    g = st["glyphs"]
    glyphs = {n: concrete_glyph(d, mid, n) for n, d in g.items()}
    spec = {"glyphs": glyphs, "order": list(glyphs), "lib": {},
            "info": {"styleName": "M%s" % mid}}
    filt = st["filt"]
    if filt:
        name, where = filt.split(":")
        fname = {"dtc": "decomposeTransformedComponents", "flat": "flattenComponents"}[name]
        if where == "all" or int(where) == mid:
            spec["lib"][F + "filters"] = [{"name": fname, "pre": True}]
    if mid == 0 and st["sparse"]:
        names = sparse_names(st)
        spec["layers"] = {"S": {"glyphs": {n: concrete_glyph(g[n], "S", n) for n in names}}}
    return spec


# ---- source graph helpers (reference model for the sparse-master rule) -------------------------

def bases_closure(g, names):
    """All glyphs reachable from `names` through component references (excluding the start set
    unless reached again)."""
    out, todo = set(), list(names)
    while todo:
        n = todo.pop()
        for b, _, _ in g[n]["comps"] if n in g else ():
            if b not in out:
                out.add(b)
                todo.append(b)
    return out


# ---- observation ---------------------------------------------------------------------------

def ttf_struct(tt, name):
    from fontTools.ttLib.tables._g_l_y_f import flagCubic, flagOnCurve
    gl = tt["glyf"][name]
    if gl.isComposite():
        comps = []
        for c in gl.components:
            tr = getattr(c, "transform", ((1, 0), (0, 1)))
            comps.append([c.glyphName, [float(tr[0][0]), float(tr[0][1]), float(tr[1][0]), float(tr[1][1])]])
        return ["composite", comps]
    if gl.numberOfContours == 0:
        return ["empty"]
    contours, start = [], 0
    for end in gl.endPtsOfContours:
        contours.append("".join(
            "1" if gl.flags[i] & flagOnCurve else ("c" if gl.flags[i] & flagCubic else "0")
            for i in range(start, end + 1)))
        start = end + 1
    return ["simple", contours]


def cff_struct(tt, name):
    cs = tt["CFF "].cff[0].CharStrings[name]
    cs.decompile()
    ops = [t for t in cs.program if isinstance(t, str)]
    if ops == ["endchar"]:
        return ["empty"]
    return ["cff", ops]


EXPECTED_INCOMPAT = ("IncompatibleFontsError", "IncompatibleGlyphsError", "IncompatibleSegmentNumberError",
                     "IncompatibleSegmentTypesError")


def compile_family(st):
    import ufo2ft
    setup = st["setup"]
    entry, n, module = setup["entry"], setup["n"], setup.get("module", "ufoLib2")
    specs = [master_spec(st, m, n) for m in range(n)]
    mids = list(range(n))
    opts = {}
    if st["flatten"]:
        opts["flattenComponents"] = True
    skip = skip_list(st)
    if entry == "ttfs":
        fonts = [B.build_font(s, module) for s in specs]
        ufos, layers = list(fonts), [None] * n
        if st["sparse"] and "+ufo" in st["sparse"]:
            pos = 1
            lay = specs[0]["layers"]["S"]["glyphs"]
            ufos.insert(pos, B.build_font({"glyphs": lay, "order": list(lay), "info": {"styleName": "Sparse"}}, module))
            layers.insert(pos, None)
            mids.insert(pos, "S")
            opts["layerNames"] = layers
        elif st["sparse"]:
            pos = 0 if st["sparse"].endswith("1st") else 1
            ufos.insert(pos, fonts[0])
            layers.insert(pos, "S")
            mids.insert(pos, "S")
            opts["layerNames"] = layers
        if skip:
            opts["skipExportGlyphs"] = skip
        out = list(ufo2ft.compileInterpolatableTTFs(ufos, **opts))
        return mids, out
    if n <= 3:
        axes = [{"name": "Weight", "tag": "wght", "min": 0, "default": 0, "max": 1000}]
        locs = [{"Weight": 0}, {"Weight": 1000}, {"Weight": 500}][:n]
        sloc = {"Weight": 250}
    else:
        axes = [{"name": "Weight", "tag": "wght", "min": 0, "default": 0, "max": 1000},
                {"name": "Width", "tag": "wdth", "min": 0, "default": 0, "max": 100}]
        locs = [{"Weight": 0, "Width": 0}, {"Weight": 1000, "Width": 0}, {"Weight": 0, "Width": 100},
                {"Weight": 1000, "Width": 100}]
        sloc = {"Weight": 250, "Width": 0}
    sources = [{"spec": specs[m], "location": locs[m], "name": "m%d" % m,
                **({"share": "m0"} if m == 0 else {})} for m in range(n)]
    if st["sparse"]:
        pos = 0 if st["sparse"].endswith("1st") else 1
        if "+ufo" in st["sparse"]:
            lay = specs[0]["layers"]["S"]["glyphs"]
            sources.insert(pos, {"spec": {"glyphs": lay, "order": list(lay), "info": {"styleName": "Sparse"}},
                                 "location": sloc, "name": "sparse"})
        else:
            sources.insert(pos, {"spec": specs[0], "share": "m0", "layerName": "S", "location": sloc,
                                 "name": "sparse"})
        mids.insert(pos, "S")
    dslib = {"public.skipExportGlyphs": skip} if skip else {}
    ds = B.build_designspace(axes, sources, lib=dslib, module=module)
    fn = ufo2ft.compileInterpolatableTTFsFromDS if entry == "ttfs_ds" else ufo2ft.compileInterpolatableOTFsFromDS
    res = fn(ds, **opts)
    return mids, [s.font for s in res.sources]


def globals_of(st):
    out = []
    if st["sparse"]:
        out.append("sparse:" + st["sparse"])
    if st["flatten"]:
        out.append("flatten")
    out += ["skip:" + s for s in st["skip"]]
    return sorted(out)


# ---- filter pipelines over a family whose sparse master holds only composites ----------------------
# "composites interpolated at their components' locations": the sparse master's composite must be built
# from the bases AS THE EARLIER FILTERS OF THE SAME RUN LEFT THEM, whatever the sequence of filters.
PIPE_FILTERS = {
    "P": ("propagateAnchors", {}),                                   # looks bases up at the sparse location
    "T": ("transformations", {"OffsetX": 40, "include": ["a"]}),     # moves a base in the full masters
    "U": ("transformations", {"OffsetY": 16, "include": ["acutecomb"]}),
    "N": ("sortContours", {"include": ["space"]}),                   # changes nothing, reports nothing
    "F": ("flattenComponents", {}),                                  # interpolatable, nothing to flatten
}


def pipeline_family(kind="composites", scale=1000):
    """kind "composites": the sparse layer holds only the composites (bases are interpolated);
    kind "bases": it holds only the base 'a' (the composites tied to it must be interpolated there).
    scale: the axis runs 0..scale, the sparse source sits half way (0.5 on a 0..1 axis)."""
    def master(right, top):
        return {"glyphs": {
            ".notdef": {"width": 500}, "space": {"width": 250, "unicodes": [0x20]},
            "a": {"width": 600, "unicodes": [0x61], "contours": [B.box(100, 0, right, top)],
                  "anchors": [("top", (100 + right) // 2, top + 20)]},
            "acutecomb": {"width": 0, "unicodes": [0x301], "contours": [B.box(-50, 550, 50, 700)],
                          "anchors": [("_top", 0, 520)]},
            "aacute": {"width": 600, "unicodes": [0xE1],
                       "components": [("a", (1, 0, 0, 1, 0, 0)),
                                      ("acutecomb", (1, 0, 0, 1, (100 + right) // 2, top - 500))]},
            "nested": {"width": 620, "components": [("aacute", (1, 0, 0, 1, 20, 0))]}},
            "order": [".notdef", "space", "a", "acutecomb", "aacute", "nested"]}
    light, bold = master(400, 500), master(500, 520)
    if kind == "none":
        return B.build_designspace(
            [{"name": "Weight", "tag": "wght", "min": 0, "default": 0, "max": scale}],
            [{"spec": light, "location": {"Weight": 0}, "name": "light"},
             {"spec": bold, "location": {"Weight": scale}, "name": "bold"}])
    if kind == "composites":
        light["layers"] = {"mid": {"glyphs": {
            "aacute": {"width": 600, "components": [("a", (1, 0, 0, 1, 0, 0)), ("acutecomb", (1, 0, 0, 1, 280, 16))]},
            "nested": {"width": 620, "components": [("aacute", (1, 0, 0, 1, 24, 0))]}}}}
    else:
        light["layers"] = {"mid": {"glyphs": {
            "a": {"width": 600, "contours": [B.box(100, 0, 470, 506)], "anchors": [("top", 286, 526)]}}}}
    return B.build_designspace(
        [{"name": "Weight", "tag": "wght", "min": 0, "default": 0, "max": scale}],
        [{"spec": light, "share": "l", "location": {"Weight": 0}, "name": "light"},
         {"spec": light, "share": "l", "layerName": "mid", "location": {"Weight": scale / 2}, "name": "mid"},
         {"spec": bold, "location": {"Weight": scale}, "name": "bold"}])


def _contours(tt, name):
    from fontTools.pens.recordingPen import DecomposingRecordingPen
    gs = tt.getGlyphSet()
    pen = DecomposingRecordingPen(gs)
    gs[name].draw(pen)
    out, cur = [], []
    for op, args in pen.value:
        if op in ("closePath", "endPath"):
            if cur:
                out.append(cur)
            cur = []
        else:
            cur += [tuple(p) for p in args]
    return out


def _canon_cycle(pts):
    return min(tuple(pts[i:] + pts[:i]) for i in range(len(pts))) if pts else ()


def run_pipeline(setup):
    import ufo2ft
    from ufo2ft.filters import getFilterClass
    seq = setup["seq"]
    filters = [getFilterClass(PIPE_FILTERS[k][0])(pre=True, **PIPE_FILTERS[k][1]) for k in seq]
    if setup.get("reuse"):
        # call history on user-supplied INTERPOLATABLE filter objects: the same objects first process a
        # family without any sparse master
        from ufo2ft.filters import DecomposeComponentsIFilter, PropagateAnchorsIFilter
        filters = filters + [PropagateAnchorsIFilter(pre=True), DecomposeComponentsIFilter(pre=True)]
        ufo2ft.compileInterpolatableOTFsFromDS(pipeline_family("none", setup.get("scale", 1000)), filters=filters,
                                               useProductionNames=False)
    kind, scale = setup.get("kind", "composites"), setup.get("scale", 1000)
    feat = {"part": "pipeline", "seq": "".join(seq), "sparse_holds": kind, "axis_max": scale,
            "reused_filter_objects": bool(setup.get("reuse"))}
    ctr = {"pipeline_states": 1, "pipeline_sparse_composites_compared": 0}
    r = ufo2ft.compileInterpolatableOTFsFromDS(pipeline_family(kind, scale), filters=filters,
                                               useProductionNames=False)
    fonts = {s.name: s.font for s in r.sources}
    viols = []

    def mid(name):
        a, b = _contours(fonts["light"], name), _contours(fonts["bold"], name)
        return [[((p[0] + q[0]) / 2, (p[1] + q[1]) / 2) for p, q in zip(c1, c2)] for c1, c2 in zip(a, b)]

    def shifted(cs, dx, dy):
        return [[(x + dx, y + dy) for x, y in c] for c in cs]
    if kind == "composites":
        want_aacute = mid("a") + shifted(mid("acutecomb"), 280, 16)
        wanted = (("aacute", want_aacute), ("nested", shifted(want_aacute, 24, 0)))
    else:
        # the layer's own 'a' (as the filters left it) + the interpolated mark at the interpolated offset
        own_a = _contours(fonts["mid"], "a") if "a" in fonts["mid"].getGlyphOrder() else []
        want_aacute = own_a + shifted(mid("acutecomb"), 275, 10)
        wanted = (("aacute", want_aacute), ("nested", shifted(want_aacute, 20, 0)))
    for name, want in wanted:
        got = _contours(fonts["mid"], name) if name in fonts["mid"].getGlyphOrder() else None
        ctr["pipeline_sparse_composites_compared"] += 1
        if got is None or sorted(map(_canon_cycle, got)) != sorted(map(_canon_cycle, want)):
            viols.append(violation("sparse-composite-not-built-from-current-bases", dict(feat, glyph=name),
                                   expected=want, observed=got))
    moved = any(k in ("T", "U") for k in seq)
    return Result(viols, ctr, digest([seq, [sorted(map(_canon_cycle, _contours(fonts["mid"], n)))
                                            for n in ("aacute", "nested") if n in fonts["mid"].getGlyphOrder()]]),
                  substates=2, nontrivial=2 if moved else 0)


class C09(Property):
    id = "C09"
    rule = ("state = (entry point, number of masters, flattenComponents, UFO library, history of structure ops over a "
            "family of point-compatible masters that always contains the full 12x12 trie of cubic shape "
            "pairs); case-state = one glyph of one family compared across all returned masters; "
            "non-trivial = the glyph's masters would individually need different numbers of quadratic "
            "segments, or the glyph has components / lives in a sparse master")
    assumptions = [
        "sources are point-compatible by construction: same contours, point types and component base "
        "lists in every master; only coordinates, offsets and (on request) a component 2x2 differ",
        "a glyph that is mixed (contour + component) is mixed in every master",
        "the plain UFO-list entry gets its sparse master through layerNames (same layer contents as the "
        "designspace entries)",
        "compatibility is compared on the returned in-memory TTFont objects (glyf flags / end points / "
        "components, CFF charstring operators), not after varLib merging",
        "'.notdef' of a sparse master (not in the layer) is a synthesised stand-in and is exempt",
    ]
    trusted_base = ["fontTools glyf/CFF object model", "fontTools.cu2qu.curve_to_quadratic for the "
                    "non-vacuity count only"]

    def bounds(self, tier):
        if tier == "quick":
            return {"depth": 3, "ops_depth": 2, "masters": [2, 3], "flatten_masters": [3], "defcon_depth": -1,
                    "entries": ["ttfs", "ttfs_ds", "otfs_ds"], "pipeline_len": 3}
        return {"depth": 4, "ops_depth": 3, "masters": [2, 3, 4], "flatten_masters": [2, 3, 4], "defcon_depth": 1,
                "entries": ["ttfs", "ttfs_ds", "otfs_ds"], "pipeline_len": 4}

    def initial(self, b):
        out = []
        for e in b["entries"]:
            for n in b["masters"]:
                for fl in ((False, True) if e != "otfs_ds" and n in b["flatten_masters"] else (False,)):
                    out.append([{"entry": e, "n": n, "module": "ufoLib2", "flatten": fl}])
                    if b["defcon_depth"] >= 0:
                        out.append([{"entry": e, "n": n, "module": "defcon", "flatten": fl}])
        import itertools
        for e in b["entries"]:
            for n in b["masters"]:
                for seed in DEEP_SEEDS:
                    out.append([{"entry": e, "n": n, "module": "ufoLib2", "flatten": False}] + list(seed))
        for n in range(1, b["pipeline_len"] + 1):
            for seq in itertools.product(sorted(PIPE_FILTERS), repeat=n):
                out.append([{"part": "pipeline", "seq": list(seq)}])
                if n <= 2:
                    for kind, scale in (("bases", 1000), ("bases", 1), ("composites", 1)):
                        out.append([{"part": "pipeline", "seq": list(seq), "kind": kind, "scale": scale}])
        for kind, scale in (("composites", 1000), ("bases", 1000), ("bases", 1), ("composites", 1)):
            out.append([{"part": "pipeline", "seq": [], "kind": kind, "scale": scale}])
            for seq in ([], ["T"], ["N"]):
                out.append([{"part": "pipeline", "seq": seq, "kind": kind, "scale": scale, "reuse": True}])
        return out

    def ops(self, h, b):
        setup, done = h[0], h[1:]
        if setup.get("part") == "pipeline":
            return []
        if len(done) >= b["ops_depth"]:
            return []
        if setup.get("module") == "defcon" and len(done) >= b["defcon_depth"]:
            return []
        out = []
        if "dflip" in done:
            return []  # terminal: see KF-C09-flip-in-one-master
        for op in ALL_OPS:
            if op in done and op != "nest":
                continue
            if op == "nest" and done.count("nest") >= 2:
                continue
            if op.startswith("sparse:") and any(o.startswith("sparse:") for o in done):
                continue
            if op == "d2x2:S" and not any(o.startswith("sparse:") for o in done):
                continue
            if op.startswith("filt:") and any(o.startswith("filt:") for o in done):
                continue
            # lib filters live in the masters' UFO libs; the sparse master that is a UFO of its own has no
            # such lib, which would make every "filter in all masters" a filter in some masters only
            if op.startswith("filt:") and "sparse:comps+nd+ufo" in done:
                continue
            if op == "sparse:comps+nd+ufo" and any(o.startswith("filt:") for o in done):
                continue
            if op in ("filt:dtc:1",) and setup["n"] < 2:
                continue
            out.append(op)
        return out

    def canon(self, h, b):
        if h[0].get("part") == "pipeline":
            return digest(h)
        st = interpret(h)
        return digest([st["setup"], sorted(st["glyphs"].items()), globals_of(st), st["filt"]])

    def describe(self, h, b):
        return h

    # ------------------------------------------------------------------------------------
    def run(self, h, b):
        if h[0].get("part") == "pipeline":
            return run_pipeline(h[0])
        st = interpret(h)
        setup = st["setup"]
        flavour = "otf" if setup["entry"] == "otfs_ds" else "ttf"
        g = st["glyphs"]
        gl = globals_of(st)
        feat0 = {"entry": setup["entry"], "sparse": st["sparse"], "filt": st["filt"],
                 "flatten": st["flatten"], "skip": "+".join(sorted(st["skip"])) or None}
        ctrs = {"families": 1}
        try:
            mids, fonts = compile_family(st)
        except Exception as e:  # noqa: BLE001
            # Compatible sources must compile.  cu2qu's incompatibility errors mean that an earlier
            # stage made the glyph sets incompatible; anything else is a crash.  Both are classified
            # here (instead of the generic unexpected-exception) to get discriminating features.
            tname = type(e).__name__
            if tname in EXPECTED_INCOMPAT:
                import re
                names = re.findall(r"'([^']+)'", str(e))
                roles = sorted({g[x]["role"] for x in names if x in g}) or ["?"]
                vs = [violation("incompatibility-error", dict(feat0, type=tname, role=r),
                                message=str(e)[:400], n=setup["n"], ops=st["ops"],
                                glyphs=[x for x in names if x in g and g[x]["role"] == r][:6])
                      for r in roles]
                ctr = {"families": 1, "raised_incompatible": 1}
            else:
                import os
                import traceback
                frame = "?"
                for fs in traceback.extract_tb(e.__traceback__):
                    if "/ufo2ft/" in fs.filename or "/fontTools/" in fs.filename:
                        frame = "%s:%s" % (os.path.basename(fs.filename), fs.name)
                vs = [violation("compile-raised", dict(feat0, type=tname, frame=frame),
                                message=str(e)[:400], n=setup["n"], ops=st["ops"],
                                traceback=traceback.format_exc(limit=-6))]
                ctr = {"families": 1, "raised_other": 1}
            return Result(vs, ctr, "exc:" + tname, substates=1, nontrivial=1)
        struct_of = ttf_struct if flavour == "ttf" else cff_struct
        skip = set(skip_list(st))
        layer = set(sparse_names(st)) if st["sparse"] else set()
        orders = [f.getGlyphOrder() for f in fonts]
        osets = [set(o) for o in orders]
        viols = []
        sig = []
        nontrivial = 0
        substates = 0

        def add(kind, feats, **detail):
            if len(viols) < 12:
                viols.append(violation(kind, dict(feat0, **feats), n=setup["n"], ops=st["ops"],
                                       module=setup.get("module"), **detail))

        # ---- sparse master: glyph set rule ---------------------------------------------------
        placeholders = set()
        if "S" in mids:
            si = mids.index("S")
            so = orders[si]
            ctrs["sparse_masters"] = 1
            if ".notdef" not in osets[si]:
                add("sparse-missing-notdef", {})
            elif ".notdef" not in layer and setup["entry"].endswith("_ds") and ".notdef" in g:
                # the stand-in must not clash with the masters' own '.notdef': an empty glyph (what
                # ufo2ft uses) or the same structure
                sn = struct_of(fonts[si], ".notdef")
                others = [struct_of(fonts[k], ".notdef") for k, m_ in enumerate(mids)
                          if m_ != "S" and ".notdef" in osets[k]]
                ctrs["sparse_notdef_standins"] = ctrs.get("sparse_notdef_standins", 0) + 1
                if sn != ["empty"] and others and sn != others[0]:
                    add("sparse-notdef-incompatible", {}, observed=sn, masters=others[0])
            want = (layer - skip)
            missing = sorted(want - osets[si])
            if missing:
                add("sparse-missing-layer-glyph", {"role": g[missing[0]]["role"]}, glyphs=missing[:8])
            down = bases_closure(g, layer)
            for x in so:
                if x == ".notdef" or x in layer:
                    continue
                tied_down = x in down
                tied_up = x in g and bool(bases_closure(g, [x]) & layer)
                if not tied_down and not tied_up:
                    add("sparse-unrelated-glyph", {"role": g[x]["role"] if x in g else "?"}, glyph=x)
                    continue
                s = struct_of(fonts[si], x)
                if tied_down and s == ["empty"] and g[x]["role"] != "empty":
                    placeholders.add(x)
                    ctrs["sparse_placeholders"] = ctrs.get("sparse_placeholders", 0) + 1
                elif tied_down and not tied_up:
                    add("sparse-placeholder-not-empty", {"role": g[x]["role"]}, glyph=x, observed=s)
                else:
                    ctrs["sparse_interpolated_composites"] = ctrs.get("sparse_interpolated_composites", 0) + 1

        # ---- structural equality across masters ----------------------------------------------
        counts = individual_counts()
        for name, d in g.items():
            present = []
            for k, mid in enumerate(mids):
                if name not in osets[k]:
                    continue
                if mid == "S" and (name in placeholders or (name == ".notdef" and name not in layer)):
                    continue
                present.append(k)
            if len(present) < 2:
                continue
            substates += 1
            structs = [struct_of(fonts[k], name) for k in present]
            sig.append((name, structs[0][0], len(structs[0][1]) if len(structs[0]) > 1 else 0, len(present)))
            # non-vacuity bookkeeping
            nt = False
            if d["role"] == "pair":
                i, j = d["shape"][1], d["shape"][2]
                pm = [mids[k] for k in present]
                pc = pair_counts(i, j, pm)
                if len(set(pc)) > 1:
                    nt = True
                    ctrs["glyphs_individual_counts_differ"] = ctrs.get("glyphs_individual_counts_differ", 0) + 1
                    if flavour == "ttf" and structs[0][0] == "simple":
                        nq = structs[0][1][0].count("0")
                        if nq > min(pc):
                            ctrs["joint_split_exceeds_min_individual"] = ctrs.get(
                                "joint_split_exceeds_min_individual", 0) + 1
            if d["comps"]:
                nt = True
                ctrs["composite_source_glyphs"] = ctrs.get("composite_source_glyphs", 0) + 1
                if any(diff for _, _, diff in d["comps"]) and any(
                        diff and diff[1] in [mids[k] for k in present] for _, _, diff in d["comps"]):
                    ctrs["glyphs_2x2_differs"] = ctrs.get("glyphs_2x2_differs", 0) + 1
                    if structs[0][0] != "composite":
                        ctrs["glyphs_2x2_differs_decomposed"] = ctrs.get("glyphs_2x2_differs_decomposed", 0) + 1
                if structs[0][0] == "composite":
                    ctrs["composites_kept"] = ctrs.get("composites_kept", 0) + 1
            if any(mids[k] == "S" for k in present):
                nt = True
                ctrs["glyphs_in_sparse_compared"] = ctrs.get("glyphs_in_sparse_compared", 0) + 1
            nontrivial += nt
            if all(s == structs[0] for s in structs[1:]):
                continue
            bad = next(i for i, s in enumerate(structs) if s != structs[0])
            a, c = structs[0], structs[bad]
            feats = {"role": d["role"], "flavour": flavour}
            det = {"glyph": name, "masters": [mids[present[0]], mids[present[bad]]],
                   "first": _short(a), "other": _short(c),
                   "source": {"comps": d["comps"], "shape": d["shape"]}}
            kinds = {a[0], c[0]}
            if "empty" in kinds:
                add("empty-in-some-masters", feats, **det)
            elif "composite" in kinds and kinds != {"composite"}:
                add("decomposed-in-some-masters", feats, **det)
            elif kinds == {"composite"}:
                what = "bases" if [x[0] for x in a[1]] != [x[0] for x in c[1]] else "2x2"
                add("component-list-mismatch", dict(feats, what=what), **det)
            elif flavour == "ttf":
                if len(a[1]) != len(c[1]):
                    what = "contour-count"
                elif [len(x) for x in a[1]] != [len(x) for x in c[1]]:
                    what = "point-count"
                else:
                    what = "point-types"
                add("point-structure-mismatch", dict(feats, what=what), **det)
            else:
                add("cff-operator-mismatch", feats, **det)

        ctrs["glyph_comparisons"] = substates
        return Result(viols, ctrs, digest([sig, orders[0][:5], [len(o) for o in orders]]),
                      substates=substates, nontrivial=nontrivial)

    def finish(self, b, summary):
        c = summary["counters"]
        out = []
        cnt = individual_counts()
        npairs = sum(1 for i in range(NK) for j in range(NK) if cnt[(i, 0)] != cnt[(j, 1)])
        if npairs < 100:
            out.append(violation("vacuous-palette", {"pairs_with_different_individual_counts": npairs}))
        for key in ("glyphs_individual_counts_differ", "joint_split_exceeds_min_individual",
                    "glyphs_2x2_differs_decomposed", "composites_kept", "sparse_placeholders",
                    "sparse_interpolated_composites", "glyphs_in_sparse_compared"):
            if not c.get(key):
                out.append(violation("vacuous-run", {"counter": key}))
        return out


def _short(s):
    if len(s) < 2:
        return s
    return [s[0], s[1][:6] if isinstance(s[1], list) else s[1]]


PROPERTY = C09()
