"""C18 — GDEF classes, ligature carets and cursive anchors mirror the UFO data.

Three exhaustive sub-spaces, each compiled with the real default feature writers and read back:
 (a) every map of 5 glyph names (base glyph, ligature glyph, mark glyph, a skipped glyph, a name
     that does not exist) to one of 7 category values, with and without a user GDEF block;
 (b) BFS over caret anchors (add one of caret_1..3 / vcaret_1 at one of 4 coordinates);
 (c) every assignment of 6 entry/exit anchor shapes to 4 glyphs (Latin, Arabic, common, unencoded),
     with and without a GSUB rule that makes the unencoded glyph Latin.
"""

from __future__ import annotations

import itertools

from mc import otl_ref as O
from mc import ufo_build as B
from mc.explore import Property, Result, digest, jdump, violation
from mc.outline_ref import otround

CAT_NAMES = ["a", "f_i", "acutecomb", "skipme", "ghost"]
CAT_VALUES = ["base", "ligature", "mark", "component", "unassigned", "bogus", None]
CLASS_OF = {"base": 1, "ligature": 2, "mark": 3, "component": 4}
USER_GDEF = {
    "none": "",
    "classes": "table GDEF { GlyphClassDef [b], [f_i], [acutecomb], [a]; } GDEF;\n",
    "carets": "table GDEF { LigatureCaretByPos f_i 123 456; } GDEF;\n",
    # two caret statements and no GlyphClassDef before them
    "carets2": "table GDEF { LigatureCaretByPos f_i 123 456; LigatureCaretByIndex a 1; } GDEF;\n",
}
CARET_NAMES = ["caret_1", "caret_2", "caret_3", "caret_4", "vcaret_1", "vcaret_2"]
CARET_COORDS = [100, 300, 300.5, 50, 0, -40]
CURS_GLYPHS = [("a", 0x61), ("beh-ar", 0x628), ("period", 0x2E), ("x.alt", None)]
# (a second unencoded alternate "y.alt" exists only in the two-rule designspace states)
# how the unencoded alternate is reached from the Latin letter: directly, or only together with a
# script-neutral glyph (ligature component / context)
GSUB_SHAPES = {"single": "feature salt { sub a by x.alt; } salt;\n",
               "lig-neutral": "feature liga { sub a period by x.alt; } liga;\n",
               "ctx-neutral": "feature calt { sub a' period by x.alt; } calt;\n"}
CURS_SHAPES = ["none", "entry", "exit", "both", "ltr", "rtl", "swsh"]  # swsh: entry.swsh + exit.swsh
ENTRY, EXIT = (0, 10.5), (500.5, -0.5)


def base_glyphs():
    glyphs = {".notdef": {"width": 500, "contours": [B.box(50, 0, 450, 700)]}}
    for n, uv in (("a", 0x61), ("b", 0x62), ("f_i", None), ("acutecomb", 0x301), ("skipme", 0x73)):
        g = {"width": 500, "contours": [B.box(10, 0, 90, 100)], "anchors": []}
        if uv:
            g["unicodes"] = [uv]
        glyphs[n] = g
    return glyphs


def compile_reload(spec, **opts):
    import ufo2ft
    return O.reload(ufo2ft.compileTTF(B.build_font(spec), useProductionNames=False, **opts))


class C18(Property):
    id = "C18"
    rule = ("state = one category map (7^5), one caret-anchor history (depth <= 3) or one entry/exit "
            "assignment (6^4), each x user-GDEF / GSUB variants; non-trivial = the source defines at least "
            "one valid category, caret or cursive anchor")
    assumptions = [
        "duplicate caret coordinates may collapse into one caret (the statement speaks of positions)",
        "cursive records are required only when the font has both an entry and an exit anchor of the "
        "same suffix family somewhere (otherwise nothing can attach)",
    ]
    trusted_base = ["fontTools binary reader", "mc/otl_ref.py (GDEF / CursivePos readers)"]

    def bounds(self, tier):
        if tier == "quick":
            return {"depth": 4, "cat_user": ["none"], "cat_user_sample": ["classes", "carets"],
                    "caret_depth": 3, "curs_gsub": [False, True]}
        return {"depth": 5, "cat_user": ["none", "classes", "carets"], "cat_user_sample": [],
                "caret_depth": 4, "curs_gsub": [False, True]}

    def initial(self, b):
        out = []
        for combo in itertools.product(range(len(CAT_VALUES)), repeat=len(CAT_NAMES)):
            for u in b["cat_user"]:
                out.append([{"part": "cat", "map": list(combo), "user": u}])
            if combo[3] == 6 and combo[4] == 6:  # quick: user GDEF variants on the 7^3 sub-cube
                for u in b["cat_user_sample"]:
                    out.append([{"part": "cat", "map": list(combo), "user": u}])
        for u in ("none", "classes", "carets", "carets2"):
            out.append([{"part": "caret", "user": u}])
        for combo in itertools.product(range(len(CAT_VALUES)), repeat=2):
            out.append([{"part": "cat", "map": [combo[0], combo[1], 2, 6, 6], "user": "carets2"}])
        for combo in itertools.product(range(len(CURS_SHAPES)), repeat=len(CURS_GLYPHS)):
            for gs in b["curs_gsub"]:
                out.append([{"part": "curs", "shapes": list(combo), "gsub": gs}])
            if combo[3] != 0 and combo[2] in (0, 3):
                for gs in ("lig-neutral", "ctx-neutral"):
                    out.append([{"part": "curs", "shapes": list(combo), "gsub": gs}])
            if combo[0] == 0:
                # a font without any left-to-right glyph at all (the Latin glyph is absent)
                out.append([{"part": "curs", "shapes": list(combo), "gsub": False, "nolatin": True}])
            if combo[1] == 0:
                # a font whose character map has only left-to-right and neutral characters (the Arabic
                # glyph is absent): an unencoded glyph outside the GSUB closure is still not left-to-right
                for gs in b["curs_gsub"]:
                    out.append([{"part": "curs", "shapes": list(combo), "gsub": gs, "noarabic": True}])
        # cursive through the per-master designspace path, where a designspace rule (a -> x.alt) makes
        # the unencoded alternate a glyph of a left-to-right script
        for combo in itertools.product(range(len(CURS_SHAPES)), repeat=len(CURS_GLYPHS)):
            if combo[3] == 0:
                continue  # x.alt must carry cursive anchors for the rule to matter
            if combo[2] != 0 and b["tier"] == "quick":
                continue
            for rule in (False, True, 2):
                out.append([{"part": "curs", "shapes": list(combo), "gsub": False, "ds_rule": rule, "ds": True}])
                out.append([{"part": "curs", "shapes": list(combo), "gsub": False, "ds_rule": rule, "ds": "var"}])
            if combo[2] == 0:
                # call history on the writer objects: the same instances first build the variable features
                # of ANOTHER family (all anchors elsewhere)
                out.append([{"part": "curs", "shapes": list(combo), "gsub": False, "ds_rule": False, "ds": "var",
                             "reuse": True}])
        return out

    def ops(self, h, b):
        if h[0]["part"] != "caret" or len(h) - 1 >= b["caret_depth"]:
            return
        used = {x[0] for x in h[1:]}
        for n in CARET_NAMES:
            if n in used:
                continue  # duplicate anchor names are outside the alphabet
            for ci in range(len(CARET_COORDS)):
                yield [n, ci]

    def canon(self, h, b):
        if h[0]["part"] == "caret":
            return jdump([h[0], sorted(h[1:])])
        return jdump(h)

    # ---- (a) categories ---------------------------------------------------------------------
    def run_cat(self, c):
        glyphs = base_glyphs()
        cats = {n: CAT_VALUES[i] for n, i in zip(CAT_NAMES, c["map"]) if CAT_VALUES[i] is not None}
        spec = {"glyphs": glyphs, "order": list(glyphs), "lib": {"public.openTypeCategories": cats}}
        if USER_GDEF[c["user"]]:
            spec["features"] = USER_GDEF[c["user"]]
        tt = compile_reload(spec, skipExportGlyphs=["skipme"])
        lay = O.Layout(tt)
        exported = set(tt.getGlyphOrder())
        if c["user"] == "classes":
            want = {"b": 1, "f_i": 2, "acutecomb": 3, "a": 4}
        else:
            want = {n: CLASS_OF[v] for n, v in cats.items() if v in CLASS_OF and n in exported}
        viols = []
        feat = {"user": c["user"]}
        if lay.classes != want:
            viols.append(violation("gdef-classes", feat, categories=cats, expected=want, observed=lay.classes))
        if c["user"] == "carets":
            if lay.lig_carets() != {"f_i": [(1, 123), (1, 456)]}:
                viols.append(violation("user-carets-changed", feat, observed=lay.lig_carets()))
        if c["user"] == "carets2":
            if lay.lig_carets() != {"f_i": [(1, 123), (1, 456)], "a": [(2, 1)]}:
                viols.append(violation("user-carets-changed", feat, observed=lay.lig_carets()))
        ctr = {"category_maps": 1, "maps_naming_unexported": int(any(n in cats for n in ("skipme", "ghost"))),
               "maps_with_invalid_value": int("bogus" in cats.values())}
        return Result(viols, ctr, digest(sorted(lay.classes.items())), nontrivial=1 if want else 0)

    # ---- (b) carets ---------------------------------------------------------------------------
    def run_caret(self, c, hist):
        glyphs = base_glyphs()
        for n, ci in hist:
            v = CARET_COORDS[ci]
            if n.startswith("v"):
                glyphs["f_i"]["anchors"].append((n, 7, v))
            else:
                glyphs["f_i"]["anchors"].append((n, v, 7))
        spec = {"glyphs": glyphs, "order": list(glyphs),
                "lib": {"public.openTypeCategories": {"f_i": "ligature", "a": "base"}}}
        if USER_GDEF[c["user"]]:
            spec["features"] = USER_GDEF[c["user"]]
        tt = compile_reload(spec)
        lay = O.Layout(tt)
        got = lay.lig_carets()
        viols = []
        feat = {"user": c["user"]}
        if c["user"] == "carets2":
            want = {"f_i": [123, 456], "a": [1]}
        elif c["user"] == "carets":
            want = {"f_i": [123, 456]}
        else:
            vals = sorted({otround(CARET_COORDS[ci]) for n, ci in hist})
            want = {"f_i": vals} if vals else {}
        obs = {g: [v for _, v in lst] for g, lst in got.items()}
        ok = set(obs) == set(want)
        if ok:
            for g in want:
                if obs[g] != sorted(obs[g]) or set(obs[g]) != set(want[g]):
                    ok = False
                if any(f != 1 for f, _ in got[g]) and c["user"] != "carets2":
                    ok = False
        if not ok:
            viols.append(violation("lig-carets", feat, anchors=hist, expected=want, observed=got))
        ctr = {"caret_states": 1, "caret_half": int(any(CARET_COORDS[ci] == 300.5 for _, ci in hist)),
               "caret_unsorted_input": int([CARET_COORDS[ci] for _, ci in hist] != sorted(CARET_COORDS[ci] for _, ci in hist))}
        return Result(viols, ctr, digest(obs), nontrivial=1 if hist else 0)

    # ---- (c) cursive --------------------------------------------------------------------------
    def run_curs(self, c):
        glyphs = {".notdef": {"width": 500, "contours": [B.box(50, 0, 450, 700)]}}
        shapes = {}
        for (n, uv), si in zip(CURS_GLYPHS, c["shapes"]):
            if n == "a" and c.get("nolatin"):
                continue
            if n == "beh-ar" and c.get("noarabic"):
                continue
            g = {"width": 500, "contours": [B.box(10, 0, 90, 100)], "anchors": []}
            if uv:
                g["unicodes"] = [uv]
            sh = CURS_SHAPES[si]
            shapes[n] = sh
            if sh in ("entry", "both"):
                g["anchors"].append(("entry", *ENTRY))
            if sh in ("exit", "both"):
                g["anchors"].append(("exit", *EXIT))
            if sh == "ltr":
                g["anchors"] += [("entry.LTR", *ENTRY), ("exit.LTR", *EXIT)]
            if sh == "rtl":
                g["anchors"] += [("entry.RTL", *ENTRY), ("exit.RTL", *EXIT)]
            if sh == "swsh":
                # an undirected suffix family that sorts AFTER .LTR / .RTL
                g["anchors"] += [("entry.swsh", *ENTRY), ("exit.swsh", *EXIT)]
            glyphs[n] = g
        spec = {"glyphs": glyphs, "order": list(glyphs)}
        if c["gsub"]:
            spec["features"] = GSUB_SHAPES[c["gsub"] if isinstance(c["gsub"], str) else "single"]
        if c.get("ds"):
            import ufo2ft
            rules = [{"name": "r", "conditionSets": [[{"name": "Weight", "minimum": 600, "maximum": 700}]],
                      "subs": [("a", "x.alt")]}] if c["ds_rule"] else None
            if c["ds_rule"] == 2:
                # two rules substitute the SAME glyph by two different alternates; y.alt copies x.alt
                glyphs["y.alt"] = {"width": 500, "contours": [B.box(10, 0, 90, 100)],
                                   "anchors": list(glyphs["x.alt"]["anchors"])}
                shapes["y.alt"] = shapes["x.alt"]
                spec["order"] = list(glyphs)
                rules = [{"name": "r1", "conditionSets": [[{"name": "Weight", "minimum": 500, "maximum": 600}]],
                          "subs": [("a", "x.alt")]},
                         {"name": "r2", "conditionSets": [[{"name": "Weight", "minimum": 600, "maximum": 700}]],
                          "subs": [("a", "y.alt")]}]
            # the second master's anchors are elsewhere (fractional too): the default values of the varying
            # anchors must still be the default master's coordinates rounded like in a static font
            spec2 = dict(spec, info={"styleName": "Bold"},
                         glyphs={n: dict(g, anchors=[(a[0], a[1] + 20.25, a[2] - 7.5) for a in g.get("anchors", ())])
                                 for n, g in glyphs.items()})
            ds = B.build_designspace([{"name": "Weight", "tag": "wght", "min": 400, "default": 400, "max": 700}],
                                     [{"spec": spec, "location": {"Weight": 400}},
                                      {"spec": spec2, "location": {"Weight": 700}}], rules=rules)
            if c["ds"] == "var" and c.get("reuse"):
                from ufo2ft.featureWriters import (CursFeatureWriter, GdefFeatureWriter, KernFeatureWriter,
                                                   MarkFeatureWriter)
                writers = [KernFeatureWriter(), MarkFeatureWriter(), GdefFeatureWriter(), CursFeatureWriter()]

                def moved(sp, d):
                    return dict(sp, glyphs={n: dict(g, anchors=[(a[0], a[1] + d, a[2] - d) for a in g.get("anchors", ())])
                                            for n, g in sp["glyphs"].items()})
                other = B.build_designspace(
                    [{"name": "Weight", "tag": "wght", "min": 400, "default": 400, "max": 700}],
                    [{"spec": moved(spec, 100), "location": {"Weight": 400}},
                     {"spec": moved(spec2, 160), "location": {"Weight": 700}}])
                # (compileVariableTTF does not hand its featureWriters argument to the variable feature
                #  compiler; the exported VariableFeatureCompiler class is the seam that takes instances)
                from ufo2ft.featureCompiler import VariableFeatureCompiler
                for doc in (other, ds):
                    vf = ufo2ft.compileVariableTTF(doc, useProductionNames=False)
                    VariableFeatureCompiler(doc.findDefault().font, doc, ttFont=vf,
                                            featureWriters=writers).compile()
                tt = O.reload(vf)
            elif c["ds"] == "var":
                tt = O.reload(ufo2ft.compileVariableTTF(ds, useProductionNames=False))
            else:
                out = ufo2ft.compileInterpolatableTTFsFromDS(ds, useProductionNames=False)
                tt = O.reload(out.sources[1].font)
        else:
            tt = compile_reload(spec)
        lay = O.Layout(tt)
        recs = lay.cursive_records()
        rE, rX = (otround(ENTRY[0]), otround(ENTRY[1])), (otround(EXIT[0]), otround(EXIT[1]))
        if c.get("ds") is True:
            # the per-master path is observed on the SECOND master, whose anchors are moved
            rE = (otround(ENTRY[0] + 20.25), otround(ENTRY[1] - 7.5))
            rX = (otround(EXIT[0] + 20.25), otround(EXIT[1] - 7.5))
        ltr_glyphs = {"a"} | ({"x.alt"} if c["gsub"] or c.get("ds_rule") else set()) | \
            ({"y.alt"} if c.get("ds_rule") == 2 else set())
        has_entry = any(s in ("entry", "both") for s in shapes.values())
        has_exit = any(s in ("exit", "both") for s in shapes.values())
        viols = []
        feat = {"gsub": c["gsub"], "nolatin": bool(c.get("nolatin")), "ds": c.get("ds") or False,
                "ds_rule": int(c.get("ds_rule") or 0)}
        if c.get("noarabic"):
            feat["noarabic"] = True
        if c.get("reuse"):
            feat["reuse"] = True
        # expected records: (glyph, entry, exit, rtl flag)
        want = set()
        for n, sh in shapes.items():
            if sh in ("entry", "exit", "both") and has_entry and has_exit:
                want.add((n, rE if sh in ("entry", "both") else None, rX if sh in ("exit", "both") else None,
                          n not in ltr_glyphs))
            elif sh == "swsh":
                want.add((n, rE, rX, n not in ltr_glyphs))
            elif sh == "ltr":
                want.add((n, rE, rX, False))
            elif sh == "rtl":
                want.add((n, rE, rX, True))
        got = {(g, en, ex, bool(flag & 1)) for _, flag, g, en, ex in recs}
        optional = set()
        if not (has_entry and has_exit):
            # one-sided fonts: records for plain anchors are neither required nor forbidden
            for n, sh in shapes.items():
                if sh in ("entry", "exit", "both"):
                    for rtl in (False, True):
                        optional.add((n, rE if sh in ("entry", "both") else None,
                                      rX if sh in ("exit", "both") else None, rtl))
        if not (want <= got and got <= (want | optional)):
            viols.append(violation("cursive-records", feat, shapes=shapes, missing=sorted(want - got, key=str),
                                   unexpected=sorted(got - want - optional, key=str)))
        if len(recs) != len({(li, g) for li, _, g, _, _ in recs}) or \
                len({g for _, _, g, _, _ in recs if shapes.get(g) in ("entry", "exit", "both")}) != \
                len([1 for _, _, g, _, _ in recs if shapes.get(g) in ("entry", "exit", "both")]):
            viols.append(violation("cursive-duplicate-record", feat, shapes=shapes, records=recs))
        ctr = {"curs_states": 1, "curs_mixed_direction": int(any(r[3] for r in want) and any(not r[3] for r in want)),
               "curs_records_expected": len(want)}
        return Result(viols, ctr, digest(sorted(got, key=str)), nontrivial=1 if want else 0)

    def run(self, h, b):
        c = h[0]
        if c["part"] == "cat":
            return self.run_cat(c)
        if c["part"] == "caret":
            return self.run_caret(c, h[1:])
        return self.run_curs(c)


PROPERTY = C18()
