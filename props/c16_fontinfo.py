"""C16 — Any valid font info compiles; explicit values win, absent ones fall back.

Three seams, one explorer run:

(a) `ps1` / `ps2`: `ufo2ft.fontInfoData.normalizeNameForPostscript` and `postscriptFontNameFallback`
    called directly for EVERY code point 0..0x10FFFF as a one-character family name (lone surrogates
    included: the functions accept them) and for all ordered pairs over the dangerous code points
    (those the single pass finds offending, united with those whose compatibility decomposition or
    own value is a forbidden ASCII character).  One state = a block of code points.
(b) `static`: deviation bounding over the fontinfo attributes around two bases (`min`: seven
    attributes set, everything else falls back; `full`: every attribute explicit): every set of <= k
    deviations (set an attribute to a menu value / unset it), compiled with compileTTF and
    compileOTF, saved, reloaded, and compared field by field with mc/info_ref.py.
(c) `vf`: compileVariableTTF of a two-master designspace whose lib carries `public.fontInfo`
    (k <= 1 overrides), compared with info_ref applied to (default source info + overrides).
"""

from __future__ import annotations

import io
import itertools
import os
import unicodedata

from fontTools.ttLib import TTFont

from mc import info_ref as IR
from mc import ufo_build as B
from mc.explore import Property, Result, digest, violation

# ------------------------------------------------------------------------------------------------
# value menus (every value is UFO3-valid: selftest/test_info_ref.py validates them with ufoLib)

S_LAT = "Vérif Ünï"          # Latin-1, non-ASCII
S_BMP = "Шрифт 字"  # BMP outside Latin-1
S_AST = "Fam \U0001F600"                    # astral

# first value of every list is the one used by the `full` base.
# Every bit-list attribute has one value in which a bit number occurs more than once and out of order
# (valid UFO3: the validators constrain the bit numbers only; a bit list is a SET of bits, and
# mc/info_ref.bitlist treats it as one).  The code-page value repeats the top bit of a 32-bit field.
MENU = {
    "familyName": ["Verif", "Explicit Fam", S_LAT, S_BMP, S_AST],
    "styleName": ["Regular", "Bold", "Bold Italic", "Condensed Light", S_LAT, S_BMP],
    "styleMapFamilyName": ["Verif Map", S_LAT],
    "styleMapStyleName": ["bold", "regular", "italic", "bold italic"],
    "versionMajor": [3, 1],
    "versionMinor": [7, 250],
    "year": [2020],
    "copyright": ["Copyright 2020 Verif", "© 2020 " + S_LAT, S_AST],
    "trademark": ["Verif is a trademark", "Verif™ (tm) " + S_BMP],
    # 1010 and 500: the UPM-derived underline fallbacks (0.05 em, -0.075 em) land exactly on a half
    "unitsPerEm": [1000, 2048, 750.5, 1010, 500],
    "descender": [-200, -250.5, 0, 30],
    "xHeight": [500, 480.5, 0],
    "capHeight": [700, 690.5],
    "ascender": [800, 750.5],
    "italicAngle": [-12, -9.5, 10, 0],
    "note": ["a note " + S_BMP],
    "openTypeGaspRangeRecords": [
        [{"rangeMaxPPEM": 8, "rangeGaspBehavior": [1]}, {"rangeMaxPPEM": 65535, "rangeGaspBehavior": [0, 1, 2, 3]}],
        [{"rangeMaxPPEM": 65535, "rangeGaspBehavior": []}],
        [{"rangeMaxPPEM": 8, "rangeGaspBehavior": [1, 1]}, {"rangeMaxPPEM": 65535, "rangeGaspBehavior": [3, 0, 2, 0, 3]}]],
    "openTypeHeadCreated": ["2010/01/02 03:04:05", "1999/12/31 23:59:59"],
    "openTypeHeadLowestRecPPEM": [9, 0],
    "openTypeHeadFlags": [[0, 3, 11, 12, 13], [], [0, 1, 2, 3, 4, 5, 6, 7, 8, 9, 10, 11, 12, 13, 14],
                          [3, 0, 3, 12, 12, 14, 14]],
    "openTypeHheaAscender": [900, -10],
    "openTypeHheaDescender": [-300, 20],
    "openTypeHheaLineGap": [100, 0],
    "openTypeHheaCaretSlopeRise": [1000, 1],
    "openTypeHheaCaretSlopeRun": [213, 0],
    "openTypeHheaCaretOffset": [-20, 15],
    "openTypeNameDesigner": ["A Designer", S_BMP],
    "openTypeNameDesignerURL": ["https://example.com/designer"],
    "openTypeNameManufacturer": ["A Foundry", S_AST],
    "openTypeNameManufacturerURL": ["https://example.com/"],
    "openTypeNameLicense": ["Licensed under terms " + S_LAT],
    "openTypeNameLicenseURL": ["https://example.com/license"],
    "openTypeNameVersion": ["Version 3.007 beta", "3.7;build"[:3], "Version r2048", "release 2.1"],
    "openTypeNameUniqueID": ["Verif:unique:1", S_BMP],
    "openTypeNameDescription": ["A description\nwith a second line", S_AST],
    "openTypeNamePreferredFamilyName": ["Verif Pref", "Verif", S_BMP],
    "openTypeNamePreferredSubfamilyName": ["Pref Sub", "Regular", "Bold", S_LAT],
    "openTypeNameCompatibleFullName": ["Verif Compatible Full"],
    "openTypeNameSampleText": ["Sample " + S_AST],
    "openTypeNameWWSFamilyName": ["Verif WWS"],
    "openTypeNameWWSSubfamilyName": ["WWS Sub"],
    "openTypeNameRecords": [
        [{"nameID": 1, "platformID": 3, "encodingID": 1, "languageID": 0x407, "string": "Verif Deutsch"}],
        [{"nameID": 1, "platformID": 1, "encodingID": 0, "languageID": 0, "string": "Verif Mac"},
         {"nameID": 256, "platformID": 3, "encodingID": 1, "languageID": 0x409, "string": "Custom " + S_BMP},
         {"nameID": 4, "platformID": 3, "encodingID": 10, "languageID": 0x411, "string": S_AST}]],
    "openTypeOS2WidthClass": [3, 9, 1],
    "openTypeOS2WeightClass": [700, 1, 1000],
    "openTypeOS2Selection": [[7], [], [1, 2, 3, 4, 7, 8, 9], [7, 1, 7, 1]],
    "openTypeOS2VendorID": ["ABCD", "AB"],
    "openTypeOS2Panose": [[2, 11, 5, 2, 4, 5, 4, 2, 2, 4], [1, 0, 0, 0, 0, 0, 0, 0, 0, 255]],
    "openTypeOS2FamilyClass": [[8, 2], [14, 15]],
    "openTypeOS2UnicodeRanges": [[0, 1, 2, 31, 32, 57, 122], [], [127], [69, 1, 38, 1, 38, 100, 100, 69, 0]],
    "openTypeOS2CodePageRanges": [[0, 1, 29, 63], [], [31, 32], [63, 0, 63, 33, 0, 31, 31]],
    "openTypeOS2TypoAscender": [750, -5],
    "openTypeOS2TypoDescender": [-250, 10],
    "openTypeOS2TypoLineGap": [90, 0],
    "openTypeOS2WinAscent": [1100, 0],
    "openTypeOS2WinDescent": [300, 0],
    "openTypeOS2Type": [[3], [], [2, 8, 9], [1], [3, 8, 3, 8]],
    "openTypeOS2SubscriptXSize": [700, 0],
    "openTypeOS2SubscriptYSize": [610],
    "openTypeOS2SubscriptXOffset": [-13, 0],
    "openTypeOS2SubscriptYOffset": [80, -80],
    "openTypeOS2SuperscriptXSize": [690],
    "openTypeOS2SuperscriptYSize": [620, 0],
    "openTypeOS2SuperscriptXOffset": [14],
    "openTypeOS2SuperscriptYOffset": [360, -5],
    "openTypeOS2StrikeoutSize": [60, 0],
    "openTypeOS2StrikeoutPosition": [310, -1],
    "openTypeVheaVertTypoAscender": [500, 0],
    "openTypeVheaVertTypoDescender": [-500],
    "openTypeVheaVertTypoLineGap": [1000],
    "openTypeVheaCaretSlopeRise": [1, 0],
    "openTypeVheaCaretSlopeRun": [0, 2],
    "openTypeVheaCaretOffset": [5],
    "postscriptFontName": ["Verif-Explicit", "VerifExplicit_1.0"],
    "postscriptFullName": ["Verif Full Explicit", S_LAT, S_BMP],
    "postscriptSlantAngle": [-12.5],
    "postscriptUniqueID": [4000001],
    "postscriptUnderlineThickness": [40, 50.5],
    "postscriptUnderlinePosition": [-100, -75.5, 20],
    "postscriptIsFixedPitch": [True, False],
    "postscriptBlueValues": [[-10, 0, 500, 510], [-10.5, 0, 480.5, 490], []],
    "postscriptOtherBlues": [[-250, -240], [-250.5, -239.5]],
    "postscriptFamilyBlues": [[-10, 0, 500, 512]],
    "postscriptFamilyOtherBlues": [[-260, -250]],
    "postscriptStemSnapH": [[80, 90], [80.5]],
    "postscriptStemSnapV": [[100, 110], [99.5, 120]],
    "postscriptBlueFuzz": [1, 0, 2.5],
    "postscriptBlueShift": [5, 8.5],
    "postscriptBlueScale": [0.0375, 0.05],
    "postscriptForceBold": [True, False],
    "postscriptDefaultWidthX": [500, 400.5],
    "postscriptNominalWidthX": [300, 0, 250.5],
    "postscriptWeightName": ["Bold", S_LAT, S_BMP],
    "postscriptDefaultCharacter": ["a"],
    "postscriptWindowsCharacterSet": [1],
    "macintoshFONDFamilyID": [20000],
    "macintoshFONDName": ["Verif"],
    "woffMajorVersion": [1],
    "woffMinorVersion": [2],
    "woffMetadataUniqueID": [{"id": "com.example.verif"}],
    "woffMetadataVendor": [{"name": "A Foundry", "url": "https://example.com"}],
}
MENU["openTypeNameVersion"][1] = "3.7"

# the `min` base (these come from mc.ufo_build.DEFAULT_INFO); a None deviation unsets one of them
MIN_BASE = dict(B.DEFAULT_INFO)
FULL_BASE = {a: vals[0] for a, vals in MENU.items()}
EMPTY_BASE = {}
# variable-font base: min + a gasp record and vertical metrics so that the tables exist
VF_BASE = dict(MIN_BASE, openTypeGaspRangeRecords=[{"rangeMaxPPEM": 65535, "rangeGaspBehavior": [0, 1]}],
               openTypeVheaVertTypoAscender=480, openTypeVheaVertTypoDescender=-520,
               openTypeVheaVertTypoLineGap=990)
VF_BASE_COND = dict(VF_BASE, styleName="Condensed")
BASES = {"min": MIN_BASE, "full": FULL_BASE, "empty": EMPTY_BASE, "vf": VF_BASE, "vfcond": VF_BASE_COND}

UNSET = "<unset>"


def deviations(base_name):
    """[(attr, value)] : every single deviation available from a base, simplest first."""
    base = BASES[base_name]
    out = []
    for a in base:
        out.append((a, UNSET))
    for a, vals in MENU.items():
        for v in vals:
            if a in base and base[a] == v and type(base[a]) is type(v):
                continue
            out.append((a, v))
    return out


def apply_devs(base_name, devs):
    info = dict(BASES[base_name])
    for a, v in devs:
        if v == UNSET:
            info.pop(a, None)
        else:
            info[a] = v
    return info


GLYPHS = {
    ".notdef": {"width": 500, "contours": [B.box(50, 0, 450, 700)]},
    "space": {"width": 250, "unicodes": [0x20]},
    "a": {"width": 600, "unicodes": [0x61], "contours": B.SHAPES["tri"]},
    "b": {"width": 620, "unicodes": [0x62], "contours": [B.box(40, -10, 560, 710)]},
}


BIT_LIST_ATTRS = ("openTypeHeadFlags", "openTypeOS2Selection", "openTypeOS2UnicodeRanges",
                  "openTypeOS2CodePageRanges", "openTypeOS2Type")


def has_repeated_bit(info):
    lists = [info[a] for a in BIT_LIST_ATTRS if info.get(a) is not None]
    lists += [r["rangeGaspBehavior"] for r in info.get("openTypeGaspRangeRecords") or ()]
    return any(len(set(x)) != len(x) for x in lists)


def make_font(info, module="ufoLib2", shift=0):
    glyphs = GLYPHS
    if shift:
        glyphs = {n: dict(g, width=g["width"] + shift) for n, g in GLYPHS.items()}
    # build_font merges DEFAULT_INFO in; pass explicit None for everything of it that is unset
    full = {k: None for k in B.DEFAULT_INFO}
    full.update(info)
    return B.build_font({"glyphs": glyphs, "order": list(glyphs), "info": full}, module)


FLAVOURS = {
    "ttf": ("ttf", lambda ufo2ft, f: ufo2ft.compileTTF(f)),
    "otf": ("otf", lambda ufo2ft, f: ufo2ft.compileOTF(f, optimizeCFF=1)),
    "otf-subr": ("otf", lambda ufo2ft, f: ufo2ft.compileOTF(f)),
    "cff2": ("cff2", lambda ufo2ft, f: ufo2ft.compileOTF(f, cffVersion=2, optimizeCFF=1)),
}

# attributes whose strings end up in CFF string storage (Name INDEX / String INDEX)
CFF_STRING_ATTRS = ("familyName", "styleName", "openTypeNamePreferredFamilyName",
                    "openTypeNamePreferredSubfamilyName", "postscriptFullName", "postscriptWeightName")


def cff_strings_encodable(ref):
    """CFF keeps FullName / FamilyName as Latin-1 and Weight as ASCII strings (Type 1 conventions, as
    implemented by the trusted fontTools writer).  False when a source string does not fit."""
    v = ref.val
    latin1 = [v("postscriptFullName"), v("openTypeNamePreferredFamilyName")]
    ascii_ = [v("postscriptWeightName") or ""]
    return (all(ord(ch) <= 0xFF for s in latin1 for ch in s)
            and all(ord(ch) <= 0x7F for s in ascii_ for ch in s))


# fields that a CFF subroutiniser (cffsubr/tx) is free to re-encode: the width-encoding parameters
# (glyph advances are unaffected; C01/C12 own them) and a one-element StemSnap array (== StdHW/StdVW)
def subr_skip(key, exp):
    if key in (("Private", "defaultWidthX"), ("Private", "nominalWidthX")):
        return True
    if key in (("Private", "StemSnapH"), ("Private", "StemSnapV")) and len(exp[1]) == 1:
        return True
    return False


def compile_and_reload(compile_fn, font):
    """(TTFont | None, stage, exception)."""
    import ufo2ft
    try:
        tt = compile_fn(ufo2ft, font)
    except Exception as e:  # classified by the caller: no exception is expected for valid info
        return None, "compile", e
    try:
        buf = io.BytesIO()
        tt.save(buf)
    except Exception as e:
        return None, "save", e
    try:
        buf.seek(0)
        tt2 = TTFont(buf)
        for tag in tt2.keys():
            tt2[tag]
    except Exception as e:
        return None, "reload", e
    return tt2, "ok", None


def compare(tt, ref, flavour_kind, ctrs, feat_extra, detail, only_tables=None, subr=False, base_ref=None):
    viols = []
    exp = ref.expected_fields(flavour_kind, vertical_possible=True)
    base_exp = base_ref.expected_fields(flavour_kind, vertical_possible=True) if base_ref else {}
    sig = []
    for key, e in exp.items():
        table = key[0]
        if only_tables is not None and table not in only_tables:
            continue
        if subr and subr_skip(key, e):
            continue
        ok, obs, want = IR.agrees(tt, key, e)
        sig.append((str(key), repr(obs)))
        attr_src = FIELD_SOURCE.get(key)
        if e[0] == "int" and not e[2] or e[0] == "near":
            ctrs["loose_comparisons"] += 1
        else:
            ctrs["exact_comparisons"] += 1
        if e[0] == "int" and e[2] and not IR.is_integral(e[1]):
            ctrs["fractional_value_rounded"] += 1
            if (e[1] * 2).denominator == 1:
                ctrs["value_at_half"] += 1
        if e[0] == "typo" and isinstance(obs, tuple) and obs[0] is IR.ABSENT:
            ctrs["typographic_name_elided"] += 1
        if not ok:
            src = "n/a"
            if attr_src:
                src = ref.src(attr_src)
            feat = dict({"table": table, "field": str(key[1]), "attr": attr_src or "", "src": src}, **feat_extra)
            if base_ref is not None:
                # the variable font still shows what the default source alone would have produced
                feat["stale"] = bool(key in base_exp and IR.agrees(tt, key, base_exp[key])[0])
                feat["astral_value"] = bool(len(e) > 1 and isinstance(e[-1], str)
                                            and any(ord(ch) > 0xFFFF for ch in e[-1]))
            viols.append(violation("field-mismatch", feat, expected=want, observed=repr(obs), **detail))
    return viols, sig


# which attribute feeds a field (for the violation signature only)
FIELD_SOURCE = {
    ("name", 0): "copyright", ("name", 1): "styleMapFamilyName", ("name", 2): "styleMapStyleName",
    ("name", 3): "openTypeNameUniqueID", ("name", 4): "openTypeNamePreferredFamilyName",
    ("name", 5): "openTypeNameVersion", ("name", 6): "postscriptFontName", ("name", 7): "trademark",
    ("name", 8): "openTypeNameManufacturer", ("name", 9): "openTypeNameDesigner",
    ("name", 10): "openTypeNameDescription", ("name", 11): "openTypeNameManufacturerURL",
    ("name", 12): "openTypeNameDesignerURL", ("name", 13): "openTypeNameLicense",
    ("name", 14): "openTypeNameLicenseURL", ("name", 16): "openTypeNamePreferredFamilyName",
    ("name", 17): "openTypeNamePreferredSubfamilyName", ("name", 18): "openTypeNameCompatibleFullName",
    ("name", 19): "openTypeNameSampleText", ("name", 21): "openTypeNameWWSFamilyName",
    ("name", 22): "openTypeNameWWSSubfamilyName",
    ("head", "unitsPerEm"): "unitsPerEm", ("head", "fontRevision"): "versionMajor",
    ("head", "created"): "openTypeHeadCreated", ("head", "macStyle"): "styleMapStyleName",
    ("head", "flags"): "openTypeHeadFlags", ("head", "lowestRecPPEM"): "openTypeHeadLowestRecPPEM",
    ("hhea", "ascent"): "openTypeHheaAscender", ("hhea", "descent"): "openTypeHheaDescender",
    ("hhea", "lineGap"): "openTypeHheaLineGap", ("hhea", "caretOffset"): "openTypeHheaCaretOffset",
    ("hhea", "caretSlopeRise"): "openTypeHheaCaretSlopeRise", ("hhea", "caretSlopeRun"): "openTypeHheaCaretSlopeRun",
    ("OS/2", "usWeightClass"): "openTypeOS2WeightClass", ("OS/2", "usWidthClass"): "openTypeOS2WidthClass",
    ("OS/2", "fsType"): "openTypeOS2Type", ("OS/2", "sFamilyClass"): "openTypeOS2FamilyClass",
    ("OS/2", "panose"): "openTypeOS2Panose", ("OS/2", "achVendID"): "openTypeOS2VendorID",
    ("OS/2", "fsSelection"): "openTypeOS2Selection", ("OS/2", "sxHeight"): "xHeight",
    ("OS/2", "sCapHeight"): "capHeight", ("OS/2", "sTypoAscender"): "openTypeOS2TypoAscender",
    ("OS/2", "sTypoDescender"): "openTypeOS2TypoDescender", ("OS/2", "sTypoLineGap"): "openTypeOS2TypoLineGap",
    ("OS/2", "usWinAscent"): "openTypeOS2WinAscent", ("OS/2", "usWinDescent"): "openTypeOS2WinDescent",
    ("OS/2", "ySubscriptXSize"): "openTypeOS2SubscriptXSize", ("OS/2", "ySubscriptYSize"): "openTypeOS2SubscriptYSize",
    ("OS/2", "ySubscriptXOffset"): "openTypeOS2SubscriptXOffset",
    ("OS/2", "ySubscriptYOffset"): "openTypeOS2SubscriptYOffset",
    ("OS/2", "ySuperscriptXSize"): "openTypeOS2SuperscriptXSize",
    ("OS/2", "ySuperscriptYSize"): "openTypeOS2SuperscriptYSize",
    ("OS/2", "ySuperscriptXOffset"): "openTypeOS2SuperscriptXOffset",
    ("OS/2", "ySuperscriptYOffset"): "openTypeOS2SuperscriptYOffset",
    ("OS/2", "yStrikeoutSize"): "openTypeOS2StrikeoutSize", ("OS/2", "yStrikeoutPosition"): "openTypeOS2StrikeoutPosition",
    ("post", "italicAngle"): "italicAngle", ("post", "underlinePosition"): "postscriptUnderlinePosition",
    ("post", "underlineThickness"): "postscriptUnderlineThickness", ("post", "isFixedPitch"): "postscriptIsFixedPitch",
    ("vhea", "ascent"): "openTypeVheaVertTypoAscender", ("vhea", "descent"): "openTypeVheaVertTypoDescender",
    ("vhea", "lineGap"): "openTypeVheaVertTypoLineGap", ("vhea", "caretSlopeRise"): "openTypeVheaCaretSlopeRise",
    ("vhea", "caretSlopeRun"): "openTypeVheaCaretSlopeRun", ("vhea", "caretOffset"): "openTypeVheaCaretOffset",
    ("gasp", "gaspRange"): "openTypeGaspRangeRecords",
    ("CFF", "FontName"): "postscriptFontName", ("CFF", "version"): "versionMajor", ("CFF", "Notice"): "trademark",
    ("CFF", "Copyright"): "copyright", ("CFF", "FullName"): "postscriptFullName",
    ("CFF", "FamilyName"): "openTypeNamePreferredFamilyName", ("CFF", "Weight"): "postscriptWeightName",
    ("CFF", "isFixedPitch"): "postscriptIsFixedPitch", ("CFF", "ItalicAngle"): "italicAngle",
    ("CFF", "UnderlinePosition"): "postscriptUnderlinePosition",
    ("CFF", "UnderlineThickness"): "postscriptUnderlineThickness", ("CFF", "FontMatrix"): "unitsPerEm",
    ("Private", "BlueValues"): "postscriptBlueValues", ("Private", "OtherBlues"): "postscriptOtherBlues",
    ("Private", "FamilyBlues"): "postscriptFamilyBlues", ("Private", "FamilyOtherBlues"): "postscriptFamilyOtherBlues",
    ("Private", "BlueFuzz"): "postscriptBlueFuzz", ("Private", "BlueShift"): "postscriptBlueShift",
    ("Private", "BlueScale"): "postscriptBlueScale", ("Private", "ForceBold"): "postscriptForceBold",
    ("Private", "StemSnapH"): "postscriptStemSnapH", ("Private", "StemSnapV"): "postscriptStemSnapV",
    ("Private", "StdHW"): "postscriptStemSnapH", ("Private", "StdVW"): "postscriptStemSnapV",
    ("Private", "defaultWidthX"): "postscriptDefaultWidthX", ("Private", "nominalWidthX"): "postscriptNominalWidthX",
}
for _i in range(1, 5):
    FIELD_SOURCE[("OS/2", "ulUnicodeRange%d" % _i)] = "openTypeOS2UnicodeRanges"
for _i in range(1, 3):
    FIELD_SOURCE[("OS/2", "ulCodePageRange%d" % _i)] = "openTypeOS2CodePageRanges"


# ------------------------------------------------------------------------------------------------
# seam (a)

FORBIDDEN_ASCII = set(chr(i) for i in range(33)) | {chr(127)} | IR.PS_EXCLUDED
_DANGEROUS = None


def dangerous_code_points():
    """Pair alphabet: code points the implementation turns into an illegal name, united with those
    that are, or compatibility-decompose to something containing, a forbidden ASCII character."""
    global _DANGEROUS
    if _DANGEROUS is None:
        from ufo2ft.fontInfoData import normalizeNameForPostscript
        out = []
        for cp in range(0x110000):
            c = chr(cp)
            if cp < 128:
                d = c
            else:
                try:
                    d = unicodedata.normalize("NFKD", c)
                except Exception:
                    d = c
            if FORBIDDEN_ASCII.intersection(d) or IR.psname_illegal(normalizeNameForPostscript(c)):
                out.append(cp)
        _DANGEROUS = out
    return _DANGEROUS


PS_BLOCK = 0x1000


def check_ps_name(family, ctrs, viols, seen_classes):
    """Run both functions of seam (a) on one family name."""
    import ufoLib2
    from ufo2ft.fontInfoData import normalizeNameForPostscript, postscriptFontNameFallback
    direct = normalizeNameForPostscript(family)
    info = ufoLib2.objects.Info(familyName=family, styleName="Regular")
    fb = postscriptFontNameFallback(info)
    bad = IR.psname_illegal(fb)
    if direct + "-Regular" != fb:
        viols.append(violation("psname-inconsistent", {}, family=[hex(ord(c)) for c in family],
                               direct=direct, fallback=fb))
    if bad:
        ctrs["psname_offending_inputs"] += 1
        for cls in sorted(bad):
            if cls not in seen_classes or len(viols) < 40:
                seen_classes.add(cls)
                viols.append(violation("psname-illegal-char", {"leaked": cls},
                                       family=[("U+%04X" % ord(c)) for c in family], generated=fb,
                                       illegal=sorted(set("U+%04X" % ord(x) for x in bad[cls]))))
    elif not IR.psname_ok(family + "-Regular", fb):
        viols.append(violation("psname-lost-legal-char", {}, family=[("U+%04X" % ord(c)) for c in family],
                               generated=fb))
    if all(IR.ps_legal_char(c) for c in family):
        ctrs["psname_legal_inputs_kept"] += 1
    return fb


# ------------------------------------------------------------------------------------------------


class C16(Property):
    id = "C16"
    rule = ("state = (a) a block of code points / of ordered pairs run through the PostScript-name "
            "normaliser, (b) a base font info plus a set of <= k attribute deviations compiled in one "
            "flavour, saved and reloaded, (c) a designspace with <= 1 public.fontInfo override compiled "
            "to a variable TTF; non-trivial = at least one explicit non-default or fallback field checked")
    assumptions = [
        "menu values are UFO3-valid (validated against fontTools.ufoLib validators in selftest)",
        "openTypeNameRecords never address the (3,1,0x409)/(3,10,0x409) records of IDs fed by attributes "
        "(the UFO specification does not say which wins)",
        "compound fallback formulas with a fractional operand or result are compared with +-1 "
        "(round-the-result and round-the-operands are both readings of the documentation); "
        "tan()-derived caret/offset values with +-(1+|tan|)",
        "CFF FullName/FamilyName/Weight may be stored as given or reduced to ASCII; Notice/Copyright likewise",
        "no field is demanded for attributes without an OpenType counterpart written by ufo2ft "
        "(year, note, postscriptUniqueID, postscriptSlantAngle, postscriptDefaultCharacter, "
        "postscriptWindowsCharacterSet, macintoshFOND*, woff*); they must only compile",
        "Private-dict hint parameters are only demanded when zones / both stem lists are present",
    ]
    trusted_base = ["fontTools TTFont reader (name, OS/2, hhea, head, post, vhea, gasp, CFF)", "mc/info_ref.py"]

    def bounds(self, tier):
        if tier == "quick":
            return {"depth": 0, "k": 1, "flavours_k1": ["ttf", "otf", "otf-subr"], "flavours_k2": [],
                    "vf_bases": ["vf", "vfcond"], "modules_k1": ["ufoLib2"]}
        return {"depth": 0, "k": 2, "flavours_k1": ["ttf", "otf", "otf-subr", "cff2"],
                "flavours_k2": ["ttf", "otf"], "vf_bases": ["vf", "vfcond"],
                "modules_k1": ["ufoLib2", "defcon"]}

    def initial(self, b):
        out = []
        for lo in range(0, 0x110000, PS_BLOCK):
            out.append([{"part": "ps1", "lo": lo, "hi": lo + PS_BLOCK}])
        n_d = 320  # upper bound on the number of dangerous code points, checked in run()
        for i in range(0, n_d, 8):
            out.append([{"part": "ps2", "lo": i, "hi": i + 8}])
        # (b) k = 0 and k = 1
        for module in b["modules_k1"]:
            for fl in b["flavours_k1"]:
                for base in ("min", "full", "empty"):
                    out.append([{"part": "static", "base": base, "flavour": fl, "module": module, "devs": []}])
                for base in ("min", "full"):
                    for d in deviations(base):
                        out.append([{"part": "static", "base": base, "flavour": fl, "module": module,
                                     "devs": [list(d)]}])
        # (c)
        for base in b["vf_bases"]:
            out.append([{"part": "vf", "base": base, "devs": []}])
            for d in deviations(base):
                if d[1] == UNSET:
                    continue
                out.append([{"part": "vf", "base": base, "devs": [list(d)]}])
        # (b) k = 2
        if b["k"] >= 2:
            for fl in b["flavours_k2"]:
                for base in ("min", "full"):
                    devs = deviations(base)
                    for d1, d2 in itertools.combinations(devs, 2):
                        if d1[0] == d2[0]:
                            continue
                        out.append([{"part": "static", "base": base, "flavour": fl, "module": "ufoLib2",
                                     "devs": [list(d1), list(d2)]}])
        return out

    def describe(self, h, b):
        return h[0]

    # ---------------------------------------------------------------------------------------
    def run(self, h, b):
        c = h[0]
        if c["part"] == "ps1":
            return self.run_ps1(c)
        if c["part"] == "ps2":
            return self.run_ps2(c)
        if c["part"] == "static":
            return self.run_static(c)
        return self.run_vf(c)

    @staticmethod
    def _ctrs():
        from collections import Counter
        return Counter()

    def run_ps1(self, c):
        ctrs, viols, seen = self._ctrs(), [], set()
        out = []
        for cp in range(c["lo"], c["hi"]):
            fb = check_ps_name(chr(cp), ctrs, viols, seen)
            out.append(fb)
            ctrs["psname_single_code_points"] += 1
            if 0xD800 <= cp <= 0xDFFF:
                ctrs["psname_lone_surrogates"] += 1
        n = c["hi"] - c["lo"]
        return Result(viols[:60], dict(ctrs), digest(out), substates=n, nontrivial=n)

    def run_ps2(self, c):
        ctrs, viols, seen = self._ctrs(), [], set()
        dang = dangerous_code_points()
        if len(dang) > 320:
            viols.append(violation("harness-bound", {"what": "dangerous code points exceed the pair bound"},
                                   count=len(dang)))
        out = []
        n = 0
        for i in range(c["lo"], min(c["hi"], len(dang))):
            for cp2 in dang:
                fb = check_ps_name(chr(dang[i]) + chr(cp2), ctrs, viols, seen)
                out.append(fb)
                n += 1
        ctrs["psname_ordered_pairs"] += n
        if c["lo"] == 0:
            ctrs["psname_dangerous_alphabet"] = len(dang)
        return Result(viols[:60], dict(ctrs), digest(out), substates=max(n, 1), nontrivial=n)

    def run_static(self, c):
        ctrs = self._ctrs()
        devs = [tuple(d) for d in c["devs"]]
        info = apply_devs(c["base"], devs)
        ref = IR.InfoRef(info, int(os.environ.get("SOURCE_DATE_EPOCH", "0")))
        kind, fn = FLAVOURS[c["flavour"]]
        font = make_font(info, c.get("module", "ufoLib2"))
        tt, stage, exc = compile_and_reload(fn, font)
        detail = {"base": c["base"], "devs": [[a, v] for a, v in devs], "flavour": c["flavour"],
                  "module": c.get("module", "ufoLib2")}
        strings = [v for v in info.values() if isinstance(v, str)]
        if any(ord(ch) > 0xFFFF for s in strings for ch in s):
            ctrs["states_with_astral_string"] += 1
        if any(ord(ch) > 0x7F for s in strings for ch in s):
            ctrs["states_with_non_ascii_string"] += 1
        ctrs["explicit_attributes"] += len(info)
        ctrs["states_with_repeated_bit_number"] += has_repeated_bit(info)
        if tt is None:
            v = violation("compile-failed",
                          {"stage": stage, "exc": type(exc).__name__, "flavour": kind,
                           "cff_strings_encodable": bool(kind == "ttf" or cff_strings_encodable(ref))},
                          message=str(exc)[:300], **detail)
            ctrs["compile_failed"] += 1
            return Result([v], dict(ctrs), "fail:" + type(exc).__name__, substates=1, nontrivial=1)
        viols, sig = compare(tt, ref, kind, ctrs, {}, detail, subr=(c["flavour"] == "otf-subr"))
        ctrs["compiled_saved_reloaded"] += 1
        return Result(viols[:12], dict(ctrs), digest(sig), substates=1, nontrivial=1)

    def run_vf(self, c):
        import ufo2ft
        ctrs = self._ctrs()
        devs = [tuple(d) for d in c["devs"]]
        base = BASES[c["base"]]
        override = {a: v for a, v in devs}
        merged = dict(base)
        merged.update(override)
        ref = IR.InfoRef(merged, int(os.environ.get("SOURCE_DATE_EPOCH", "0")))
        m0 = make_font(base)
        bold = dict(base, styleName="Bold" if base.get("styleName") == "Regular" else base["styleName"] + " Bold")
        m1 = make_font(bold, shift=40)
        ds = B.build_designspace(
            [{"name": "Weight", "tag": "wght", "min": 400, "default": 400, "max": 700}],
            [{"font": m0, "location": {"Weight": 400}}, {"font": m1, "location": {"Weight": 700}}],
            lib={"public.fontInfo": override} if override else None)
        detail = {"base": c["base"], "override": [[a, v] for a, v in devs]}

        def fn(_ufo2ft, _font):
            return ufo2ft.compileVariableTTF(ds)

        tt, stage, exc = compile_and_reload(fn, None)
        if tt is None:
            v = violation("compile-failed", {"stage": stage, "exc": type(exc).__name__, "flavour": "vf-ttf",
                                             "cff_strings_encodable": True},
                          message=str(exc)[:300], **detail)
            return Result([v], dict(ctrs), "fail:" + type(exc).__name__, substates=1, nontrivial=1)
        viols, sig = compare(tt, ref, "ttf", ctrs, {"seam": "vf"}, detail,
                             only_tables={"name", "name-record", "head", "hhea", "OS/2", "post", "vhea", "gasp"},
                             base_ref=IR.InfoRef(base, int(os.environ.get("SOURCE_DATE_EPOCH", "0"))))
        ctrs["vf_compiled"] += 1
        ctrs["states_with_repeated_bit_number"] += has_repeated_bit(merged)
        if override:
            ctrs["vf_overrides_checked"] += 1
        return Result(viols[:12], dict(ctrs), digest(sig), substates=1, nontrivial=1)

    def finish(self, b, summary):
        c = summary["counters"]
        out = []
        need = {"psname_single_code_points": 0x110000, "psname_lone_surrogates": 2048}
        for k, n in need.items():
            if c.get(k, 0) != n:
                out.append(violation("non-vacuity", {"counter": k}, expected=n, observed=c.get(k, 0)))
        for k in ("psname_ordered_pairs", "fractional_value_rounded", "value_at_half", "typographic_name_elided",
                  "states_with_astral_string", "vf_overrides_checked", "loose_comparisons",
                  "states_with_repeated_bit_number"):
            if not c.get(k):
                out.append(violation("non-vacuity", {"counter": k}, expected=">0", observed=0))
        return out


PROPERTY = C16()
