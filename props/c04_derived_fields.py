"""C04 — compiled fonts are serialisable and their derived fields are consistent.

Search: breadth-first "append glyph" histories.  h[0] is the configuration (part, flavour, vertical
metrics, .notdef variant, keepGlyphNames, op alphabet, maximum length); every later op appends one
glyph.  Every prefix is a state of its own, compiled by the real ufo2ft, saved, reloaded, re-saved.

  part "h": op = [advance, outline]     advance in {0, 500.5, 600}, outline in {none, box, neg, comp}
  part "v": op = [height, vorg, outline] height in {0, 1000.5}, outline in {none, box}, vorg from one of two
            palettes: "a" {None, 0, 900.5} (explicit origin ON the baseline: 0 is a value, not "undefined") and
            "b" {0, 800, -100.5}
  part "cp": op = code point (or None) of the next glyph, from a palette around 0xFFFF
  part "rt": op = [advance, outline] where the outlines are boxes whose extrema are fractional on the dyadic
            grid (x.25 / x.5 / x.75), negative and positive; the configuration adds roundTolerance in
            {None (=0.5), 0.25, 0.1, 0} for the CFF / CFF2 flavours (TTF: None only).  With a tolerance below
            0.5 the charstrings keep the fractional coordinates and the integer box fields (hmtx lsb, vmtx tsb,
            head bbox, hhea/vhea extents, CFF FontBBox) have to ENCLOSE the stored extrema tightly.

The oracle recomputes every derived field from the *stored glyph data of the reloaded font* (glyf
points / charstring drawing, hmtx/vmtx decoded entries, cmap) with plain arithmetic.
"""

from __future__ import annotations

import io
import struct
from collections import Counter

from fontTools.pens.recordingPen import RecordingPen
from fontTools.ttLib import TTFont

from mc import outline_ref as R
from mc import ufo_build as B
from mc.explore import Property, Result, digest, violation

ADVANCES = [0, 500.5, 600]
NAMES = ["a", "gx", "space", "gy", "B", "gz"]
BOX = B.box(50, 0, 350, 700)
NEGBOX = B.box(-40, -10, 250, 500)
COMP_OFFSET = (30, 10)
H_OPS_SMALL = [[a, k] for a in ADVANCES for k in ("none", "box")]
H_OPS_FULL = [[a, k] for a in ADVANCES for k in ("none", "box", "neg", "comp")]
VORG_PALETTES = {"a": [None, 0, 900.5], "b": [0, 800, -100.5]}
V_OPS = {p: [[ht, vo, k] for ht in (0, 1000.5) for vo in pal for k in ("none", "box")]
         for p, pal in VORG_PALETTES.items()}
# fractional extrema on the dyadic grid: negative minima, positive extrema, a glyph that lies entirely in the
# negative quadrant (negative maxima) and half-integer extrema on both sides of zero
FRAC_SHAPES = {
    "fneg": B.box(-20.75, -180.25, 210.25, 650.75),
    "fpos": B.box(40.25, 10.75, 470.75, 700.25),
    "fallneg": B.box(-380.75, -150.25, -30.25, -60.75),
    "fhalf": B.box(-30.5, -10.5, 300.5, 90.5),
}
RT_OPS = [[600, "none"], [600, "box"], [500.5, "fneg"], [600, "fpos"], [0, "fallneg"], [600, "fhalf"]]
RT_TOLERANCES = [None, 0.25, 0.1, 0]
CP_PALETTE = [None, 0x20, 0x41, 0xFFFE, 0xFFFF, 0x10000, 0x10FFFF]
VERT_INFO = {"openTypeVheaVertTypoAscender": 500, "openTypeVheaVertTypoDescender": -500,
             "openTypeVheaVertTypoLineGap": 0}
KEEP_GLYPH_NAMES = "com.github.googlei18n.ufo2ft.keepGlyphNames"
FLAVOURS = ["ttf", "otf", "cff2"]
# part "tt": TrueType programs.  Glyph programs (6 and 11 bytes), font-level data: absent, maxp values
# only, programs shorter / longer than the glyph programs
TT_KEY = "public.truetype.instructions"
TT_PROGS = {"short": "SVTCA[0]\nPUSHB[ ] 0\nMDAP[1]\nIUP[0]\nIUP[1]",
            "long": "SVTCA[0]\nPUSHB[ ] 0\nMDAP[1]\nSVTCA[1]\nPUSHB[ ] 0\nMDAP[1]\nIUP[0]\nIUP[1]\nSVTCA[0]"}
TT_MAXP = {"maxStorage": 3, "maxFunctionDefs": 2, "maxInstructionDefs": 1, "maxStackElements": 17,
           "maxZones": 2, "maxTwilightPoints": 5, "maxSizeOfInstructions": 4242}
TT_FONTDATA = {
    "none": None,
    "maxp": dict(TT_MAXP, formatVersion="1"),
    "short-programs": {"formatVersion": "1", "fontProgram": "PUSHB[ ] 0\nFDEF[ ]\nENDF[ ]",
                       "controlValueProgram": "SVTCA[0]", "controlValue": {"0": 10, "2": 30}},
    "long-programs": dict(TT_MAXP, formatVersion="1", fontProgram="\n".join(["PUSHB[ ] 0", "FDEF[ ]"] +
                          ["SVTCA[0]"] * 40 + ["ENDF[ ]"]), controlValueProgram="\n".join(["SVTCA[1]"] * 30)),
}
TT_OPS = [[600, k, pr] for k in ("box", "comp", "none") for pr in (None, "short", "long")
          if not (k == "none" and pr)]
NOTDEFS = ["explicit", "synth", "empty"]


# ------------------------------------------------------------------------------------------
# history -> font spec

def build_spec(h):
    cfg = h[0]
    glyphs, src = {}, {}
    if cfg["notdef"] == "explicit":
        glyphs[".notdef"] = {"width": 500, "height": 1000, "contours": [B.box(50, 0, 450, 700)]}
        src[".notdef"] = {"adv": 500, "height": 1000, "vorg": None, "kind": "box"}
    elif cfg["notdef"] == "empty":
        glyphs[".notdef"] = {"width": 0, "height": 0, "contours": []}
        src[".notdef"] = {"adv": 0, "height": 0, "vorg": None, "kind": "none"}
    prev_outline = None
    for i, op in enumerate(h[1:]):
        name = NAMES[i]
        g = {"unicodes": [0x61 + i]}
        if cfg["part"] == "tt":
            adv, kind, prog = op
            g["width"] = adv
            g["height"] = 1000
            s = {"adv": adv, "height": 1000, "vorg": None, "prog": prog}
        elif cfg["part"] in ("h", "rt"):
            adv, kind = op
            g["width"] = adv
            g["height"] = 1000
            s = {"adv": adv, "height": 1000, "vorg": None}
        elif cfg["part"] == "v":
            ht, vo, kind = op
            g["width"] = 600
            g["height"] = ht
            if vo is not None:
                g["verticalOrigin"] = vo
            s = {"adv": 600, "height": ht, "vorg": vo}
        else:
            kind = "box" if i % 2 == 0 else "none"
            g["width"] = 600
            g["unicodes"] = [op] if op is not None else []
            s = {"adv": 600, "height": 0, "vorg": None}
        if kind == "box":
            g["contours"] = [BOX]
        elif kind == "neg":
            g["contours"] = [NEGBOX]
        elif kind in FRAC_SHAPES:
            g["contours"] = [FRAC_SHAPES[kind]]
        elif kind == "comp":
            g["components"] = [(prev_outline, (1, 0, 0, 1) + COMP_OFFSET)]
        if kind != "none":
            prev_outline = name
        s["kind"] = kind
        glyphs[name] = g
        src[name] = s
    info = dict(VERT_INFO) if cfg["vertical"] else {}
    # explicit CFF default/nominal widths: skips fontTools' optimizeWidths search (9 ms per font, and
    # not what this property is about; C12 covers the width operands)
    info.update(postscriptDefaultWidthX=600, postscriptNominalWidthX=0)
    lib = {}
    if not cfg["keep"]:
        lib[KEEP_GLYPH_NAMES] = False
    order = list(glyphs)
    return {"glyphs": glyphs, "order": order, "info": info, "lib": lib}, src


def attach_tt_programs(spec, src, fontdata):
    """The glyph programs are only accepted with the hash of the compiled TrueType glyph as id: one
    compile without instructions supplies the hashes (the way a hinting tool obtains them)."""
    import ufo2ft
    from functools import partial
    from fontTools.misc.fixedTools import floatToFixedToFloat
    from fontTools.pens.hashPointPen import HashPointPen
    from fontTools.pens.roundingPen import RoundingPointPen
    plain = ufo2ft.compileTTF(B.build_font(spec))
    for name, s_ in src.items():
        if not s_.get("prog"):
            continue
        hp = HashPointPen(plain["hmtx"][name][0], plain.getGlyphSet())
        rp = RoundingPointPen(hp, transformRoundFunc=partial(floatToFixedToFloat, precisionBits=14))
        plain["glyf"][name].drawPoints(rp, plain["glyf"])
        spec["glyphs"][name].setdefault("lib", {})[TT_KEY] = {
            "formatVersion": "1", "id": hp.hash, "assembly": TT_PROGS[s_["prog"]]}
    if TT_FONTDATA[fontdata] is not None:
        spec["lib"][TT_KEY] = dict(TT_FONTDATA[fontdata])


def assembled(asm):
    from fontTools.ttLib.tables.ttProgram import Program
    pr = Program()
    pr.fromAssembly(asm.splitlines())
    return bytes(pr.getBytecode())


def compile_font(spec, flavour, opt=1, tol=None):
    """optimizeCFF=1 (specialise, no subroutiniser: 60 ms saved per state) except in the few
    "subr" states that run the default pipeline (optimizeCFF=2, cffsubr)."""
    import ufo2ft
    font = B.build_font(spec)
    if flavour == "ttf":
        return ufo2ft.compileTTF(font)
    kw = {} if tol is None else {"roundTolerance": tol}
    return ufo2ft.compileOTF(font, optimizeCFF=opt, cffVersion=1 if flavour == "otf" else 2, **kw)


def save(tt):
    buf = io.BytesIO()
    tt.save(buf)
    return buf.getvalue()


def decompile_everything(tt):
    for tag in tt.keys():
        if tag == "GlyphOrder":
            continue
        table = tt[tag]
        if tag == "glyf":
            for name in tt.getGlyphOrder():
                g = table[name]
                if hasattr(g, "expand"):
                    g.expand(table)
        elif tag in ("CFF ", "CFF2"):
            td = table.cff.topDictIndex[0]
            for name in tt.getGlyphOrder():
                td.CharStrings[name].decompile()


# ------------------------------------------------------------------------------------------
# independent readers of the stored glyph data

def _box_of(points):
    xs = [p[0] for p in points]
    ys = [p[1] for p in points]
    return (min(xs), min(ys), max(xs), max(ys))


def int_box(raw, tol):
    """The integer box of a stored outline box: every side is moved outwards to the next integer (floor for
    the minima, ceil for the maxima) so that the integer box ENCLOSES the outline and is tight, unless the
    value is within `tol` of its rounding (then the rounded value; with tol >= 0.5 always).  For integer
    coordinates this is the identity."""
    import math

    def side(v, outwards):
        r = R.otround(v)
        if tol >= 0.5 or abs(r - v) <= tol:
            return r
        return int(outwards(v))
    return (side(raw[0], math.floor), side(raw[1], math.floor), side(raw[2], math.ceil), side(raw[3], math.ceil))


def glyf_points(glyf, name, depth=0):
    """All points of a glyf glyph with components resolved (translation only) + statistics
    (points, contours, depth) computed without fontTools' maxp helpers."""
    g = glyf[name]
    if g.numberOfContours > 0:
        pts = [tuple(c) for c in g.coordinates]
        return pts, len(pts), len(g.endPtsOfContours), 0
    if g.numberOfContours == 0:
        return [], 0, 0, 0
    pts, npts, ncont, maxd = [], 0, 0, 0
    for comp in g.components:
        if hasattr(comp, "transform"):
            raise ValueError("transformed component outside the alphabet")
        sub, n, c, d = glyf_points(glyf, comp.glyphName, depth + 1)
        pts += [(x + comp.x, y + comp.y) for x, y in sub]
        npts += n
        ncont += c
        maxd = max(maxd, d)
    return pts, npts, ncont, maxd + 1


def read_glyph_data(tt, tol=0.5):
    """-> (order, boxes {name: integer box|None}, extra) from the stored outlines; extra["raw"] has the
    boxes of the stored coordinates (CFF charstrings may hold fractional coordinates)."""
    order = tt.getGlyphOrder()
    boxes, extra = {}, {}
    raw = extra["raw"] = {}
    if "glyf" in tt:
        glyf = tt["glyf"]
        stats = {"maxPoints": 0, "maxContours": 0, "maxCompositePoints": 0, "maxCompositeContours": 0,
                 "maxComponentElements": 0, "maxComponentDepth": 0}
        hdr = {}
        for name in order:
            g = glyf[name]
            pts, npts, ncont, d = glyf_points(glyf, name)
            boxes[name] = raw[name] = _box_of(pts) if pts else None
            if g.numberOfContours != 0:
                hdr[name] = (g.xMin, g.yMin, g.xMax, g.yMax)
            if g.numberOfContours > 0:
                stats["maxPoints"] = max(stats["maxPoints"], npts)
                stats["maxContours"] = max(stats["maxContours"], ncont)
            elif g.numberOfContours < 0:
                stats["maxCompositePoints"] = max(stats["maxCompositePoints"], npts)
                stats["maxCompositeContours"] = max(stats["maxCompositeContours"], ncont)
                stats["maxComponentElements"] = max(stats["maxComponentElements"], len(g.components))
                stats["maxComponentDepth"] = max(stats["maxComponentDepth"], d)
        extra["maxp"] = stats
        extra["glyf_header"] = hdr
    else:
        gs = tt.getGlyphSet()
        for name in order:
            pen = RecordingPen()
            gs[name].draw(pen)
            pts = [p for _, args in pen.value for p in args]
            raw[name] = _box_of(pts) if pts else None
            boxes[name] = int_box(raw[name], tol) if pts else None
    return order, boxes, extra


def minimal_long_metrics(advances):
    k = len(advances)
    while k > 1 and advances[k - 2] == advances[k - 1]:
        k -= 1
    return max(k, 1) if advances else 0


def union(boxes):
    bs = [b for b in boxes if b is not None]
    if not bs:
        return (0, 0, 0, 0)
    return (min(b[0] for b in bs), min(b[1] for b in bs), max(b[2] for b in bs), max(b[3] for b in bs))


def expected_fields(tt, order, boxes):
    """Header fields implied by the metrics tables and the outlines of `tt`."""
    exp = {}
    hm = tt["hmtx"].metrics
    advs = [hm[n][0] for n in order]
    out = [n for n in order if boxes[n] is not None]
    exp["hhea"] = {
        "advanceWidthMax": max(advs) if advs else 0,
        "minLeftSideBearing": min((hm[n][1] for n in out), default=0),
        "minRightSideBearing": min((hm[n][0] - hm[n][1] - (boxes[n][2] - boxes[n][0]) for n in out), default=0),
        "xMaxExtent": max((hm[n][1] + boxes[n][2] - boxes[n][0] for n in out), default=0),
        "numberOfHMetrics": minimal_long_metrics(advs),
    }
    u = union(boxes.values())
    exp["head"] = {"xMin": u[0], "yMin": u[1], "xMax": u[2], "yMax": u[3]}
    if "vmtx" in tt:
        vm = tt["vmtx"].metrics
        hts = [vm[n][0] for n in order]
        exp["vhea"] = {
            "advanceHeightMax": max(hts) if hts else 0,
            "minTopSideBearing": min((vm[n][1] for n in out), default=0),
            "minBottomSideBearing": min((vm[n][0] - vm[n][1] - (boxes[n][3] - boxes[n][1]) for n in out),
                                        default=0),
            "yMaxExtent": max((vm[n][1] + boxes[n][3] - boxes[n][1] for n in out), default=0),
            "numberOfVMetrics": minimal_long_metrics(hts),
        }
    cps = set()
    for t in tt["cmap"].tables:
        if t.isUnicode():
            cps.update(t.cmap.keys())
    if cps:
        exp["OS/2"] = {"usFirstCharIndex": min(min(cps), 0xFFFF), "usLastCharIndex": min(max(cps), 0xFFFF)}
    else:
        exp["OS/2"] = {"usFirstCharIndex": 0xFFFF, "usLastCharIndex": 0xFFFF}
    return exp


# ------------------------------------------------------------------------------------------

class C04(Property):
    id = "C04"
    rule = ("state = (configuration, sequence of appended glyphs); configuration = part x flavour "
            "{TTF, CFF, CFF2} x vertical metrics x .notdef {explicit, synthesised, empty} x keepGlyphNames "
            "(x roundTolerance {default, 0.25, 0.1, 0} in the fractional-outline part); "
            "non-trivial = the sequence has a trailing run of equal advances, an empty glyph, a composite, a "
            "negative bearing, an explicit vertical origin of 0 or a stored fractional extremum outside the tolerance")
    assumptions = [
        "outlines are axis-parallel boxes (on-curve extrema), components are translations",
        "fractional coordinates are dyadic (x.25/x.5/x.75), exactly representable in floats and in 16.16 "
        "charstring operands; integer box fields of a fractional outline are the enclosing integers (floor of "
        "the minima, ceil of the maxima) unless the value is within roundTolerance of its rounding",
        "fontTools' sfnt/glyf/CFF/hmtx/cmap readers are the trusted decoder of the stored glyph data; "
        "fontTools recalculates hhea/vhea/maxp/head(TTF) when an in-memory font is saved, so ufo2ft's own "
        "values are additionally checked on the returned TTFont object before saving",
        "SOURCE_DATE_EPOCH is pinned (./check), so head.modified is stable between saves",
    ]
    trusted_base = ["fontTools TTFont reader/writer", "RecordingPen drawing of CFF charstrings"]

    def bounds(self, tier):
        # per configuration family: the full 12-op alphabet is explored to `full`, histories made of
        # the 6-op sub-alphabet (advance x {none, box}) are continued to `small`
        if tier == "quick":
            return {"depth": 6, "base": {"full": 3, "small": 5}, "vertical": {"full": 3, "small": 3},
                    "all": {"full": 2, "small": 2}, "v_maxlen": 3, "vb_maxlen": 2, "cp_maxlen": 3, "subr_len": 1,
                    "rt_maxlen": 2, "tt_maxlen": 3}
        return {"depth": 6, "base": {"full": 5, "small": 5}, "vertical": {"full": 4, "small": 4},
                "all": {"full": 3, "small": 3}, "v_maxlen": 4, "vb_maxlen": 3, "cp_maxlen": 4, "subr_len": 2,
                "rt_maxlen": 3, "tt_maxlen": 4}

    def initial(self, b):
        out = []
        # variable fonts: the derived fields of the font that comes back (after varLib merged the
        # masters, possibly dropped implied points, and the post-processor reloaded the font)
        for fl in ("ttf", "cff2"):
            for drop in ((False, True) if fl == "ttf" else (False,)):
                for names in (True, False):
                    out.append([{"part": "vf", "flavour": fl, "drop": drop, "production_names": names}])
        for fl in FLAVOURS:
            for v in (False, True):
                for nd in NOTDEFS:
                    for k in (True, False):
                        fam = "all"
                        if nd == "explicit" and k:
                            fam = "vertical" if v else "base"
                        out.append([{"part": "h", "flavour": fl, "vertical": v, "notdef": nd, "keep": k,
                                     "full": b[fam]["full"], "small": b[fam]["small"]}])
        # the default CFF pipeline (subroutinised with cffsubr) on the shortest fonts
        for fl in ("otf", "cff2"):
            for nd in NOTDEFS:
                out.append([{"part": "h", "flavour": fl, "vertical": False, "notdef": nd, "keep": True,
                             "full": 0, "small": b["subr_len"], "opt": 2}])
        for fl in FLAVOURS:
            for nd in ("explicit", "synth"):
                out.append([{"part": "v", "flavour": fl, "vertical": True, "notdef": nd, "keep": True,
                             "maxlen": b["v_maxlen"] if nd == "explicit" else b["v_maxlen"] - 1}])
            out.append([{"part": "v", "flavour": fl, "vertical": True, "notdef": "explicit", "keep": True,
                         "vpal": "b", "maxlen": b["vb_maxlen"]}])
            out.append([{"part": "cp", "flavour": fl, "vertical": False, "notdef": "explicit", "keep": True,
                         "maxlen": b["cp_maxlen"]}])
        # TrueType programs: every font-level variant x glyph programs
        for fd in TT_FONTDATA:
            out.append([{"part": "tt", "flavour": "ttf", "vertical": False, "notdef": "explicit", "keep": True,
                         "fontdata": fd, "maxlen": b["tt_maxlen"]}])
        # fractional outlines x roundTolerance (the tolerance is a CFF option; TTF always rounds)
        for fl in FLAVOURS:
            for tol in (RT_TOLERANCES if fl != "ttf" else [None]):
                for v in (False, True):
                    if v and tol not in (None, 0.1):
                        continue
                    out.append([{"part": "rt", "flavour": fl, "vertical": v, "notdef": "explicit", "keep": True,
                                 "tol": tol, "maxlen": b["rt_maxlen"]}])
        return out

    def ops(self, h, b):
        cfg = h[0]
        if cfg["part"] == "vf":
            return ()
        n = len(h) - 1
        if cfg["part"] == "h":
            if n < cfg["full"]:
                alpha = H_OPS_FULL
            elif n < cfg["small"] and all(op in H_OPS_SMALL for op in h[1:]):
                alpha = H_OPS_SMALL
            else:
                return ()
            # a component refers to the nearest earlier glyph that has an outline
            has_outline = any(op[1] != "none" for op in h[1:])
            return [op for op in alpha if op[1] != "comp" or has_outline]
        if n >= cfg["maxlen"]:
            return ()
        if cfg["part"] == "v":
            return V_OPS[cfg.get("vpal", "a")]
        if cfg["part"] == "rt":
            return RT_OPS
        if cfg["part"] == "tt":
            has_outline = any(op[1] != "none" for op in h[1:])
            return [op for op in TT_OPS if op[1] != "comp" or has_outline]
        used = set(op for op in h[1:] if op is not None)
        return [cp for cp in CP_PALETTE if cp is None or cp not in used]

    # -- one state ---------------------------------------------------------------------------
    def run_vf(self, cfg):
        import ufo2ft
        # a circle of four cubics whose on-curve points are implied by their neighbours after conversion
        # to quadratics (dropImpliedOnCurves removes them in the merged variable font), a box, a composite
        k = 55.25

        def circle(r):
            q = r * k / 100
            return [(r, 0, "curve"), (r, q, None), (q, r, None), (0, r, "curve"), (-q, r, None), (-r, q, None),
                    (-r, 0, "curve"), (-r, -q, None), (-q, -r, None), (0, -r, "curve"), (q, -r, None), (r, -q, None)]

        def master(i):
            r = 100 + 40 * i
            g = {".notdef": {"width": 500, "contours": [B.box(50, 0, 450, 700)]},
                 "o": {"width": 400 + 20 * i, "unicodes": [0x6F], "contours": [circle(r)]},
                 "b": {"width": 500, "unicodes": [0x62], "contours": [B.box(10, 0, 90 + 20 * i, 100)]},
                 "c": {"width": 520, "unicodes": [0x63], "components": [("o", (1, 0, 0, 1, 30 + i, 0)),
                                                                         ("b", (1, 0, 0, 1, 300, 0))]}}
            return {"glyphs": g, "order": list(g), "info": {"styleName": "M%d" % i}}
        ds = B.build_designspace([{"name": "Weight", "tag": "wght", "min": 0, "default": 0, "max": 1000}],
                                 [{"spec": master(0), "location": {"Weight": 0}},
                                  {"spec": master(1), "location": {"Weight": 1000}}])
        kw = {"useProductionNames": cfg["production_names"]}
        if cfg["flavour"] == "ttf":
            otf = ufo2ft.compileVariableTTF(ds, dropImpliedOnCurves=cfg["drop"], **kw)
        else:
            otf = ufo2ft.compileVariableCFF2(ds, **kw)
        viols, ctrs = [], {"variable_fonts": 1}
        feat = {"flavour": cfg["flavour"], "part": "vf", "drop": cfg["drop"], "production_names": cfg["production_names"]}
        # (in memory only the fields ufo2ft sets itself are compared, as in the static parts: fontTools
        #  recalculates the point / contour maxima when the font is compiled)
        mem_maxp = {f: getattr(otf["maxp"], f) for f in ("numGlyphs", "maxComponentElements", "maxComponentDepth")
                    if hasattr(otf["maxp"], f)}
        b1 = save(otf)
        tt = TTFont(io.BytesIO(b1))
        b2 = save(tt)
        if b2 != b1:
            viols.append(violation("resave-differs", dict(feat, mode="lazy"), tables=_diff_tables(b1, b2)))
        tt3 = TTFont(io.BytesIO(b1), lazy=False)
        decompile_everything(tt3)
        b3 = save(tt3)
        if b3 != b1:
            viols.append(violation("resave-differs", dict(feat, mode="decompiled"), tables=_diff_tables(b1, b3)))
        tt = TTFont(io.BytesIO(b1))
        order, boxes, extra = read_glyph_data(tt)
        mp = tt["maxp"]
        if mp.numGlyphs != len(order):
            viols.append(violation("derived-field", dict(feat, table="maxp", field="numGlyphs", where="reloaded"),
                                   expected=len(order), observed=mp.numGlyphs))
        for f, want in extra.get("maxp", {}).items():
            for where, val in (("reloaded", getattr(mp, f)), ("compiled-object", mem_maxp.get(f, want))):
                if val != want:
                    viols.append(violation("derived-field", dict(feat, table="maxp", field=f, where=where),
                                           expected=want, observed=val))
        if cfg["flavour"] == "ttf":
            npts = len(tt["glyf"]["o" if "o" in order else order[1]].coordinates)
            ctrs["vf_implied_points_dropped"] = int(cfg["drop"] and npts < 16)
            ctrs["vf_circle_points"] = npts
        # hhea / head derived from the default master's stored outlines
        hm = tt["hmtx"].metrics
        adv = max(a for a, _ in hm.values())
        if tt["hhea"].advanceWidthMax != adv:
            viols.append(violation("derived-field", dict(feat, table="hhea", field="advanceWidthMax", where="reloaded"),
                                   expected=adv, observed=tt["hhea"].advanceWidthMax))
        for n in order:
            bx = boxes.get(n)
            if bx is not None and hm[n][1] != bx[0]:
                viols.append(violation("derived-field", dict(feat, table="hmtx", field="lsb", where="reloaded"),
                                       glyph=n, expected=bx[0], observed=hm[n][1]))
        seen, out = set(), []
        for v in viols:
            kx = (v["kind"], str(sorted(v["features"].items())))
            if kx not in seen:
                seen.add(kx)
                out.append(v)
        return Result(out, ctrs, digest([order, len(b1), [v["kind"] for v in out]]), substates=1, nontrivial=1)

    def run(self, h, b):
        cfg = h[0]
        if cfg["part"] == "vf":
            return self.run_vf(cfg)
        spec, src = build_spec(h)
        flavour = cfg["flavour"]
        viols, ctrs = [], {}
        feat0 = {"flavour": flavour, "part": cfg["part"]}

        def bad(kind, feats=None, **detail):
            if len(viols) < 10:
                viols.append(violation(kind, dict(feat0, **(feats or {})), config=cfg, **detail))

        tol = cfg.get("tol")
        eff_tol = 0.5 if tol is None else float(tol)
        if cfg["part"] == "rt":
            feat0["tol"] = tol
        opt = cfg.get("opt", 1)
        if opt != 1:
            feat0["opt"] = opt
            ctrs["default_subroutinised_pipeline"] = 1
        efeat = {"glyphs": len(spec["glyphs"]) + (0 if ".notdef" in spec["glyphs"] else 1),
                 "notdef": cfg["notdef"],
                 "outlines": cfg["notdef"] != "empty" or any(x["kind"] != "none" for x in src.values())}
        try:
            if cfg["part"] == "tt":
                attach_tt_programs(spec, src, cfg["fontdata"])
                feat0["fontdata"] = cfg["fontdata"]
            otf = compile_font(spec, flavour, opt, tol)
        except Exception as e:  # "can be compiled and saved" is the property: classify, do not crash
            bad("cannot-compile", dict(efeat, type=type(e).__name__), message=str(e)[:300])
            return Result(viols, ctrs, "cannot-compile", 1, False, 0)
        want_order = ([] if ".notdef" in spec["glyphs"] else [".notdef"]) + list(spec["glyphs"])

        # ---- values computed by ufo2ft itself (fontTools recalculates several of them on save)
        mem = {}
        for tag, fields in (("hhea", ("advanceWidthMax", "minLeftSideBearing", "minRightSideBearing",
                                      "xMaxExtent", "numberOfHMetrics")),
                            ("vhea", ("advanceHeightMax", "minTopSideBearing", "minBottomSideBearing",
                                      "yMaxExtent", "numberOfVMetrics")),
                            ("head", ("xMin", "yMin", "xMax", "yMax")),
                            ("OS/2", ("usFirstCharIndex", "usLastCharIndex")),
                            ("maxp", ("numGlyphs", "maxComponentElements", "maxComponentDepth",
                                      "maxSizeOfInstructions") + tuple(k for k in TT_MAXP if k != "maxSizeOfInstructions"))):
            if tag in otf:
                t = otf[tag]
                mem[tag] = {f: getattr(t, f) for f in fields if hasattr(t, f)}
        mem_vorg = None
        if "VORG" in otf:
            vt = otf["VORG"]
            mem_vorg = (vt.defaultVertOriginY, dict(vt.VOriginRecords))
        mem_order = otf.getGlyphOrder()
        mem_fbb = None
        if flavour == "otf":
            mem_fbb = tuple(otf["CFF "].cff.topDictIndex[0].FontBBox)

        # ---- serialisation round trips ---------------------------------------------------------
        try:
            b1 = save(otf)
        except Exception as e:
            bad("cannot-save", dict(efeat, type=type(e).__name__), message=str(e)[:300])
            return Result(viols, ctrs, "cannot-save", 1, False, 0)
        tt = TTFont(io.BytesIO(b1))
        b2 = save(tt)
        if b2 != b1:
            bad("resave-differs", {"mode": "lazy"}, tables=_diff_tables(b1, b2))
        tt3 = TTFont(io.BytesIO(b1), lazy=False)
        decompile_everything(tt3)
        b3 = save(tt3)
        if b3 != b1:
            bad("resave-differs", {"mode": "decompiled"}, tables=_diff_tables(b1, b3))
        ctrs["bytes_compared"] = 2

        # ---- stored glyph data ------------------------------------------------------------------
        tt = TTFont(io.BytesIO(b1))
        order, boxes, extra = read_glyph_data(tt, eff_tol)
        stored = extra["raw"]
        names_kept = cfg["keep"] or flavour == "otf"
        if names_kept:
            if order != want_order:
                bad("glyph-names-differ", {"post": float(tt["post"].formatType)}, expected=want_order, observed=order)
        else:
            ctrs["post_format_3"] = 1
            if tt["post"].formatType != 3.0 or len(order) != len(want_order):
                bad("post-format", {"post": float(tt["post"].formatType)}, expected=3.0, n=len(order))
        if flavour != "otf":
            want_fmt = 2.0 if cfg["keep"] else 3.0
            if tt["post"].formatType != want_fmt:
                bad("post-format", {"post": float(tt["post"].formatType)}, expected=want_fmt)
        if len(order) != len(want_order):
            return Result(viols, ctrs, "glyph-count", 1, False, 0)
        by_src = dict(zip(want_order, order))  # source name -> name in the reloaded font

        hm = tt["hmtx"].metrics
        vm = tt["vmtx"].metrics if "vmtx" in tt else None
        if cfg["vertical"] != (vm is not None):
            bad("vertical-tables", {}, expected=cfg["vertical"], observed=vm is not None)
        typo_asc = tt["OS/2"].sTypoAscender
        for sname, name in by_src.items():
            s = src.get(sname)
            adv, lsb = hm[name]
            box = boxes[name]
            if s is not None and adv != R.otround(s["adv"]):
                bad("advance-not-source", {"table": "hmtx"}, glyph=sname, expected=R.otround(s["adv"]), observed=adv)
            if box is not None and lsb != box[0]:
                bad("bearing-not-extremum", {"table": "hmtx"}, glyph=sname, lsb=lsb, box=box, stored=stored[name])
            if s is not None and (box is None) != (s["kind"] == "none"):
                bad("outline-presence", {}, glyph=sname, box=box, kind=s["kind"])
            if vm is not None:
                ht, tsb = vm[name]
                vorg = R.otround(s["vorg"]) if (s is not None and s["vorg"] is not None) else typo_asc
                if s is not None and ht != R.otround(s["height"]):
                    bad("advance-not-source", {"table": "vmtx"}, glyph=sname, expected=R.otround(s["height"]),
                        observed=ht)
                if box is not None and s is not None and tsb != vorg - box[3]:
                    bad("bearing-not-extremum", {"table": "vmtx"}, glyph=sname, tsb=tsb, vorg=vorg, box=box,
                        stored=stored[name])
        for name, hb in extra.get("glyf_header", {}).items():
            if boxes[name] is not None and tuple(hb) != tuple(boxes[name]):
                bad("glyf-header-bbox", {}, glyph=name, header=hb, points=boxes[name])

        # ---- header fields, reloaded and as returned ---------------------------------------------
        exp = expected_fields(tt, order, boxes)
        for tag, fields in exp.items():
            t = tt[tag]
            for f, want in fields.items():
                got = getattr(t, f)
                if got != want:
                    bad("derived-field", {"table": tag, "field": f, "where": "reloaded"}, expected=want, observed=got,
                        advances=[hm[n][0] for n in order], boxes=[boxes[n] for n in order])
                if tag in mem and f in mem[tag] and mem[tag][f] != want:
                    bad("derived-field", {"table": tag, "field": f, "where": "compiled-object"}, expected=want,
                        observed=mem[tag][f], advances=[hm[n][0] for n in order], boxes=[boxes[n] for n in order])
        # CFF 1 FontBBox (CFF2 has none): the union of the integer glyph boxes, as returned and as reloaded
        if flavour == "otf":
            want_fbb = tuple(exp["head"][f] for f in ("xMin", "yMin", "xMax", "yMax"))
            for where, got in (("reloaded", tuple(tt["CFF "].cff.topDictIndex[0].FontBBox)),
                               ("compiled-object", mem_fbb)):
                if tuple(got) != want_fbb:
                    bad("derived-field", {"table": "CFF", "field": "FontBBox", "where": where}, expected=want_fbb,
                        observed=got, stored=[stored[n] for n in order])
            ctrs["cff_fontbbox_checked"] = 1
        # raw metrics tables: 4 bytes per long metric + 2 per remaining glyph
        for mtx, hea, f in (("hmtx", "hhea", "numberOfHMetrics"), ("vmtx", "vhea", "numberOfVMetrics")):
            if mtx in tt:
                k = getattr(tt[hea], f)
                raw = tt.getTableData(mtx)
                if len(raw) != 4 * k + 2 * (len(order) - k):
                    bad("metrics-table-length", {"table": mtx}, length=len(raw), long=k, glyphs=len(order))
                else:
                    dec = [struct.unpack(">H", raw[4 * i:4 * i + 2])[0] for i in range(k)]
                    dec += [dec[-1]] * (len(order) - k)
                    table = tt[mtx].metrics
                    if dec != [table[n][0] for n in order]:
                        bad("metrics-table-decoding", {"table": mtx}, raw=dec)
        # maxp
        mp = tt["maxp"]
        if mp.numGlyphs != len(order) or mem.get("maxp", {}).get("numGlyphs") != len(order):
            bad("derived-field", {"table": "maxp", "field": "numGlyphs", "where": "reloaded"}, expected=len(order),
                observed=mp.numGlyphs)
        for f, want in extra.get("maxp", {}).items():
            if getattr(mp, f) != want:
                bad("derived-field", {"table": "maxp", "field": f, "where": "reloaded"}, expected=want,
                    observed=getattr(mp, f))
            if f in mem.get("maxp", {}) and mem["maxp"][f] != want:
                bad("derived-field", {"table": "maxp", "field": f, "where": "compiled-object"}, expected=want,
                    observed=mem["maxp"][f])
        if cfg["part"] == "tt":
            # stored programs = the source programs; maxp.maxSizeOfInstructions = the longest stored glyph
            # program (ufo2ft's definition; one that also counts fpgm/prep would be accepted too)
            sizes = []
            for sname, name in by_src.items():
                g = tt["glyf"][name]
                got = bytes(g.program.getBytecode()) if hasattr(g, "program") and g.program else b""
                want = assembled(TT_PROGS[src[sname]["prog"]]) if src.get(sname, {}).get("prog") else b""
                if got != want:
                    bad("glyph-program", {"kind": src[sname]["kind"]}, glyph=sname, expected=want.hex(),
                        observed=got.hex())
                sizes.append(len(got))
                if got:
                    ctrs["glyph_programs_compared"] = ctrs.get("glyph_programs_compared", 0) + 1
            longest = max(sizes, default=0)
            other = [len(bytes(tt[t].program.getBytecode())) for t in ("fpgm", "prep") if t in tt]
            accept = {longest, max([longest] + other)}
            fd = TT_FONTDATA[cfg["fontdata"]] or {}
            for t, key in (("fpgm", "fontProgram"), ("prep", "controlValueProgram")):
                want = assembled(fd[key]) if fd.get(key) else None
                got = bytes(tt[t].program.getBytecode()) if t in tt else None
                if got != want:
                    bad("font-program", {"table": t}, expected=want and want.hex(), observed=got and got.hex())
            for where, val in (("reloaded", mp.maxSizeOfInstructions),
                               ("compiled-object", mem.get("maxp", {}).get("maxSizeOfInstructions"))):
                if val not in accept:
                    bad("derived-field", {"table": "maxp", "field": "maxSizeOfInstructions", "where": where},
                        expected=sorted(accept), observed=val)
            if longest:
                ctrs["maxp_instruction_size_from_glyph_programs"] = 1
                if other and max(other) > longest:
                    ctrs["font_programs_longer_than_glyph_programs"] = 1
            for f, want in TT_MAXP.items():
                if f == "maxSizeOfInstructions" or f not in fd:
                    continue
                for where, val in (("reloaded", getattr(mp, f)), ("compiled-object", mem.get("maxp", {}).get(f))):
                    if val != want:
                        bad("derived-field", {"table": "maxp", "field": f, "where": where}, expected=want,
                            observed=val)
                ctrs["explicit_maxp_values_compared"] = 1
        # VORG
        want_vorg = cfg["vertical"] and flavour != "ttf"
        if ("VORG" in tt) != want_vorg:
            bad("vertical-tables", {"table": "VORG"}, expected=want_vorg, observed="VORG" in tt)
        if "VORG" in tt:
            vt = tt["VORG"]
            for where, (dflt, recs) in (("reloaded", (vt.defaultVertOriginY, dict(vt.VOriginRecords))),
                                        ("compiled-object", mem_vorg)):
                origins = {}
                for gi, (sname, name) in enumerate(by_src.items()):
                    s = src.get(sname)
                    key = name if where == "reloaded" else mem_order[gi]
                    eff = recs.get(key, dflt)
                    want = R.otround(s["vorg"]) if (s is not None and s["vorg"] is not None) else typo_asc
                    origins[sname] = want
                    if eff != want:
                        bad("vorg-origin", {"where": where}, glyph=sname, expected=want, observed=eff,
                            default=dflt, records=recs)
                cnt = Counter(origins.values())
                if cnt and cnt[dflt] != max(cnt.values()):
                    bad("vorg-default-not-most-common", {"where": where}, default=dflt, origins=origins)
                if any(v == dflt for v in recs.values()):
                    bad("vorg-record-repeats-default", {"where": where}, default=dflt, records=recs)
                if where == "reloaded" and vt.numVertOriginYMetrics != len(recs):
                    bad("derived-field", {"table": "VORG", "field": "numVertOriginYMetrics", "where": where},
                        expected=len(recs), observed=vt.numVertOriginYMetrics)
                if len(cnt) > 1:
                    ctrs["vorg_mixed_origins"] = 1
                    if sorted(cnt.values())[-1] == sorted(cnt.values())[-2]:
                        ctrs["vorg_tied_majority"] = 1
                    first = origins[want_order[0]]
                    if cnt[first] != max(cnt.values()):
                        ctrs["vorg_first_glyph_in_minority"] = 1

        # ---- non-vacuity ---------------------------------------------------------------------------
        advs = [hm[n][0] for n in order]
        k = exp["hhea"]["numberOfHMetrics"]
        nt = bool(ctrs.get("glyph_programs_compared"))
        if k < len(order):
            ctrs["trailing_equal_advances"] = 1
            nt = True
        if k == 1 and len(order) > 1:
            ctrs["all_advances_equal"] = 1
        if any(advs[i] > advs[i + 1] for i in range(len(advs) - 1)):
            ctrs["descending_advances"] = 1
        if any(boxes[n] is None for n in order):
            ctrs["has_empty_glyph"] = 1
            nt = True
            if boxes[order[-1]] is None:
                ctrs["last_glyph_empty"] = 1
            if boxes[order[0]] is None:
                ctrs["first_glyph_empty"] = 1
        if all(boxes[n] is None for n in order):
            ctrs["no_outlines_at_all"] = 1
        if exp["hhea"]["minLeftSideBearing"] < 0:
            ctrs["negative_lsb"] = 1
            nt = True
        if exp["hhea"]["minRightSideBearing"] < 0:
            ctrs["negative_rsb"] = 1
            nt = True
        if any(s["kind"] == "comp" for s in src.values()):
            ctrs["has_composite"] = 1
            nt = True
            if extra.get("maxp", {}).get("maxComponentDepth", 0) > 1:
                ctrs["nested_composite"] = 1
        if any(s["adv"] != int(s["adv"]) for s in src.values()):
            ctrs["half_integer_advance"] = 1
        if vm is not None and any(s["height"] != int(s["height"]) for s in src.values()):
            ctrs["half_integer_height"] = 1
        if "VORG" in tt and any(s["vorg"] is not None and s["vorg"] != int(s["vorg"]) for s in src.values()):
            ctrs["half_integer_vertical_origin"] = 1
        if "vmtx" in tt and any(s["vorg"] == 0 and s["vorg"] is not None for s in src.values()):
            ctrs["explicit_vertical_origin_zero"] = 1
            nt = True
            if any(s["vorg"] == 0 and s["kind"] != "none" for s in src.values()):
                ctrs["explicit_vertical_origin_zero_with_outline"] = 1
        if "vmtx" in tt and any(s["vorg"] is not None and s["vorg"] < 0 for s in src.values()):
            ctrs["negative_vertical_origin"] = 1
        if tol is not None:
            ctrs["custom_round_tolerance"] = 1
        for n in order:
            rb = stored[n]
            if rb is None:
                continue
            for i, v in enumerate(rb):
                if v == int(v):
                    continue
                ctrs["stored_fractional_extremum"] = 1
                if abs(R.otround(v) - v) <= eff_tol:  # unreachable with a pen that rounds with the same tolerance
                    ctrs["stored_fractional_extremum_within_tolerance"] = 1
                    continue
                nt = True
                side = "min" if i < 2 else "max"
                ctrs["fractional_%s_%s_outside_tolerance" % ("negative" if v < 0 else "positive", side)] = 1
                if v < 0 and i == 0 and hm[n][1] == exp["hhea"]["minLeftSideBearing"]:
                    ctrs["fractional_negative_xmin_is_min_lsb"] = 1
        if exp["OS/2"]["usLastCharIndex"] == 0xFFFF:
            ctrs["last_char_index_clamped_or_ffff"] = 1
        if "vhea" in exp and exp["vhea"]["numberOfVMetrics"] < len(order):
            ctrs["trailing_equal_heights"] = 1
        sig = [order if names_kept else len(order), advs, [boxes[n] for n in order],
               {t: sorted(f.items()) for t, f in exp.items()}, len(b1), [v["kind"] for v in viols]]
        return Result(viols, ctrs, digest(sig), substates=1, nontrivial=1 if nt else 0)

    def describe(self, h, b):
        return {"config": {k: v for k, v in h[0].items()}, "glyphs": h[1:]}

    def finish(self, b, summary):
        c = summary["counters"]
        need = ["trailing_equal_advances", "all_advances_equal", "descending_advances", "last_glyph_empty",
                "first_glyph_empty", "no_outlines_at_all", "negative_lsb", "negative_rsb", "has_composite",
                "nested_composite", "half_integer_advance", "post_format_3", "vorg_mixed_origins",
                "vorg_first_glyph_in_minority", "vorg_tied_majority", "trailing_equal_heights",
                "half_integer_height", "half_integer_vertical_origin", "explicit_vertical_origin_zero",
                "explicit_vertical_origin_zero_with_outline", "negative_vertical_origin",
                "custom_round_tolerance", "cff_fontbbox_checked", "stored_fractional_extremum",
                "fractional_negative_min_outside_tolerance", "fractional_negative_max_outside_tolerance",
                "fractional_positive_min_outside_tolerance", "fractional_positive_max_outside_tolerance",
                "fractional_negative_xmin_is_min_lsb",
                "last_char_index_clamped_or_ffff"]
        return [violation("vacuous", {"counter": k}) for k in need if not c.get(k)]


def _diff_tables(a, b):
    try:
        ta, tb = TTFont(io.BytesIO(a)), TTFont(io.BytesIO(b))
        tags = sorted(set(ta.keys()) | set(tb.keys()))
        return [t for t in tags if t != "GlyphOrder" and
                (t not in ta or t not in tb or ta.getTableData(t) != tb.getTableData(t))]
    except Exception as e:  # pragma: no cover
        return ["<unreadable: %s>" % e]


PROPERTY = C04()
