"""C13 — non-exported glyphs vanish without altering the remaining glyphs.

State = (component graph over 4 outline glyphs + 1 mark glyph, flavour / seam); inside a state ALL
skip subsets (2^5 = 32, minus "skip everything") are compiled and compared differentially with
the same font compiled with nothing skipped: glyph order, cmap, hmtx, per-glyph resolved contour
multisets, component lists of glyphs that do not reference a skipped glyph, GDEF classes, and the
kerning / mark attachment of every ordered pair of remaining glyphs (through mc/otl_ref.py).
"""

from __future__ import annotations

import itertools

from fontTools.pens.recordingPen import DecomposingRecordingPen

from mc import otl_ref as O
from mc import outline_ref as R
from mc import ufo_build as B
from mc.explore import Property, Result, digest, violation

NAMES = ["g0", "g1", "g2", "g3", "m"]
# Coordinates are multiples of 16 and the transforms map them to integers at every nesting depth
# used here: a TrueType composite stores the rounded base outline plus a rounded offset, so with
# fractional data "kept as component" and "decomposed" legitimately differ by rounding.
SHAPE = {
    "g0": [[(0, 0, "line"), (96, 0, "line"), (48, 80, "line")]],
    "g1": [B.box(0, 0, 64, 64)],
    "g2": [B.box(16, 16, 48, 80)],
    "g3": [[(0, 0, "line"), (32, 0, "line"), (32, 96, "line")]],
}
T = {"id": (1, 0, 0, 1, 0, 0), "shift": (1, 0, 0, 1, 12, -4), "flipx": (-1, 0, 0, 1, 100, 0),
     "half": (0.5, 0, 0, 0.5, 8, 0), "shear": (1, 0, 0.5, 1, 0, 0)}


def glyph_options(i, transforms, mixed_transforms):
    """All definitions of glyph g<i> (i >= 1) over lower-indexed bases."""
    lower = [f"g{j}" for j in range(i)]
    opts = [("simple",)]
    for b in lower:
        for t in transforms:
            opts.append(("comp", [(b, t)]))
        for t in mixed_transforms:
            opts.append(("mixed", [(b, t)]))
    for b1, b2 in itertools.combinations_with_replacement(lower, 2):
        opts.append(("comp", [(b1, "id"), (b2, "flipx")]))
    return opts


def make_spec(graph):
    glyphs = {".notdef": {"width": 500, "contours": [B.box(50, 0, 450, 700)]}}
    for i, name in enumerate(NAMES[:4]):
        g = {"width": 500 + 10 * i + (0.5 if i == 1 else 0), "unicodes": [0x61 + i],  # advances may be fractional
             "anchors": [("top", 250 + i, 600)]}
        d = graph[i - 1] if i else ("simple",)
        if d[0] in ("simple", "mixed"):
            g["contours"] = SHAPE[name]
        if d[0] in ("comp", "mixed"):
            g["components"] = [(b, T[t]) for b, t in d[1]]
        glyphs[name] = g
    glyphs["m"] = {"width": 0, "unicodes": [0x301], "contours": [B.box(-16, 496, 16, 560)],
                   "anchors": [("_top", 0, 500), ("top", 0, 620)]}
    return {
        "glyphs": glyphs, "order": list(glyphs),
        "groups": {"public.kern1.A": ["g0", "g1"], "public.kern2.B": ["g2", "g3"], "public.kern1.M": ["m", "g3"]},
        "kerning": [("g0", "g2", -40), ("public.kern1.A", "public.kern2.B", -20), ("g1", "g3", 15),
                    ("g3", "g0", -5), ("public.kern1.M", "g1", 7), ("g2", "m", -9)],
        "lib": {"public.openTypeCategories": {"g0": "base", "g1": "base", "g2": "base", "g3": "base", "m": "mark"}},
    }


def canon_contour(segs, directed=False):
    """Rotation- and direction-independent canonical form of a recorded straight-line contour (a
    mirrored component kept as a TrueType reference is not reversed by the decoding pen, while a
    decomposed one is: the statement speaks of the set of contours rendered)."""
    pts = [tuple(float(c) for c in pts[-1]) for k, pts in segs]
    if not pts:
        return ()
    rots = [tuple(pts[i:] + pts[:i]) for i in range(len(pts))]
    if not directed:
        rev = pts[::-1]
        rots += [tuple(rev[i:] + rev[:i]) for i in range(len(rev))]
    return min(rots)


def render(tt, name):
    gs = tt.getGlyphSet()
    pen = DecomposingRecordingPen(gs)
    gs[name].draw(pen)
    # CFF outlines are fully decomposed by ufo2ft itself (mirrored members reversed), so contour
    # direction is well defined there and must not depend on the skip list
    directed = "glyf" not in tt
    return sorted(canon_contour(c, directed) for c in R.recording_to_cycles(pen.value))


def components(tt, name):
    if "glyf" not in tt:
        return None
    g = tt["glyf"][name]
    if not g.isComposite():
        return []
    out = []
    for c in g.components:
        tr = getattr(c, "transform", ((1, 0), (0, 1)))
        out.append((c.glyphName, c.x, c.y, tuple(map(tuple, tr))))
    return out


def observe(tt):
    lay = O.Layout(tt)
    order = tt.getGlyphOrder()
    names = [n for n in order if n in NAMES]
    obs = {"order": order, "cmap": dict(tt.getBestCmap()), "hmtx": {n: tt["hmtx"][n][0] for n in order},
           "render": {n: render(tt, n) for n in names}, "components": {n: components(tt, n) for n in names},
           "classes": dict(lay.classes), "kern": {}, "mark": {}}
    if lay.gpos is not None:
        kl = lay.lookups_of_features({"kern"})
        ml = lay.lookups_of_features({"mark", "mkmk"})
        for a in names:
            for b in names:
                adj = lay.pair_adjust(kl, a, b)
                obs["kern"][(a, b)] = adj["xAdv1"] + adj["xAdv2"]
                att = lay.mark_attachments(ml, a, b)
                obs["mark"][(a, b)] = att[-1]["offset"] if att else None
    else:
        for a in names:
            for b in names:
                obs["kern"][(a, b)] = 0
                obs["mark"][(a, b)] = None
    return obs


def refs_skipped(spec, name, skipped, _seen=None):
    """Does `name` (transitively) reference a skipped glyph?"""
    for b, _ in spec["glyphs"][name].get("components", ()):
        if b in skipped or refs_skipped(spec, b, skipped):
            return True
    return False


def expected_components(spec, name, skipped):
    """TrueType component list of `name` after references to skipped glyphs are replaced by their
    direct content; None when the glyph ends up with contours of its own (then it is decomposed)."""
    g = spec["glyphs"][name]
    if g.get("contours"):
        return None if g.get("components") else []
    out = []
    for base, t in g.get("components", ()):
        if base not in skipped:
            out.append((base, tuple(t)))
            continue
        sub = spec["glyphs"][base]
        if sub.get("contours"):
            return None
        inner = expected_components(spec, base, skipped)
        if inner is None:
            return None
        for b2, t2 in inner:
            out.append((b2, R.compose(tuple(t), t2)))
    return out


def compile_static(spec, flavour, skip, seam, module="ufoLib2"):
    import ufo2ft
    sp = dict(spec)
    opts = {}
    if seam == "arg-empty-vs-lib":
        # an explicit (empty) argument overrides whatever the UFO lib lists: nothing may be skipped
        opts["skipExportGlyphs"] = []
        if skip:
            sp = dict(spec, lib=dict(spec["lib"], **{"public.skipExportGlyphs": list(skip)}))
    elif skip:
        if seam == "arg":
            opts["skipExportGlyphs"] = list(skip)
        else:
            sp = dict(spec, lib=dict(spec["lib"], **{"public.skipExportGlyphs": list(skip)}))
    font = B.build_font(sp, module)
    fn = ufo2ft.compileTTF if flavour == "ttf" else ufo2ft.compileOTF
    return O.reload(fn(font, useProductionNames=False, **opts))


def compile_var(spec, flavour, skip, seam):
    """Two masters (second = same structure, coordinates perturbed by width only)."""
    import ufo2ft
    sp2 = {**spec, "glyphs": {n: dict(g, width=g["width"] + 20) for n, g in spec["glyphs"].items()},
           "info": {"styleName": "Bold"}}
    dslib = {}
    specs = [dict(spec), sp2]
    opts = {}
    if skip:
        if seam == "arg":
            opts["skipExportGlyphs"] = list(skip)
        elif seam == "dslib":
            dslib["public.skipExportGlyphs"] = list(skip)
        elif seam == "ufolibs-ignored-by-ds":
            # designspace functions read the designspace lib only (documented): keys in the UFO libs
            # must not skip anything
            specs[0] = dict(spec, lib=dict(spec["lib"], **{"public.skipExportGlyphs": list(skip)}))
            specs[1] = dict(sp2, lib=dict(spec["lib"], **{"public.skipExportGlyphs": list(skip)}))
        else:  # split over the two UFO libs: the union counts
            sk = sorted(skip)
            specs[0] = dict(spec, lib=dict(spec["lib"], **{"public.skipExportGlyphs": sk[:1]}))
            specs[1] = dict(sp2, lib=dict(spec["lib"], **{"public.skipExportGlyphs": sk[1:] or sk[:1]}))
    ds = B.build_designspace([{"name": "Weight", "tag": "wght", "min": 400, "default": 400, "max": 700}],
                             [{"spec": specs[0], "location": {"Weight": 400}}, {"spec": specs[1], "location": {"Weight": 700}}],
                             lib=dslib)
    if flavour == "var-ttf":
        return O.reload(ufo2ft.compileVariableTTF(ds, useProductionNames=False, **opts))
    if flavour == "interp-ttf":
        fonts = list(ufo2ft.compileInterpolatableTTFs([s.font for s in ds.sources], useProductionNames=False, **opts))
        return O.reload(fonts[1])
    return O.reload(ufo2ft.compileVariableCFF2(ds, useProductionNames=False, **opts))


# ---- skipped component with an intermediate (sparse) master the composite lacks --------------------

def sparse_family(c, skip):
    """Weight x (optional) Width designspace; 'Abar' = [A, _bar]; '_bar' has an extra sparse master."""
    def master(stem, width, bar):
        m = {"glyphs": {
            ".notdef": {"width": 500},
            "A": {"width": width, "unicodes": [0x41], "contours": [B.box(48, 0, 48 + stem, 704)]},
            "_bar": {"width": width, "contours": [B.box(0, 304, width, 304 + bar)]},
            "Abar": {"width": width, "unicodes": [0x23A], "components": [("A", (1, 0, 0, 1, 0, 0)),
                                                                         ("_bar", (1, 0, 0, 1, 0, 0))]},
        }, "order": [".notdef", "A", "Abar", "_bar"]}
        if c.get("nested"):
            # remaining composite -> skipped composite -> skipped glyph (only the innermost one has the
            # extra sparse master)
            m["glyphs"]["_wrap"] = {"width": width, "components": [("_bar", (1, 0, 0, 1, 16, 0))]}
            m["glyphs"]["Abar"]["components"] = [("A", (1, 0, 0, 1, 0, 0)), ("_wrap", (1, 0, 0, 1, 0, 0))]
            m["order"].append("_wrap")
        return m
    reg = master(96, 608, 48)
    if c.get("sparse_glyph", "_bar") == "_bar":
        reg["layers"] = {"medium": {"glyphs": {"_bar": {"width": 656, "contours": [B.box(0, 304, 656, 304 + 160)]}}}}
    else:
        # the sparse layer holds 'A' only: this source does NOT contain the skipped glyph
        reg["layers"] = {"medium": {"glyphs": {"A": {"width": 656, "contours": [B.box(48, 0, 48 + 176, 704)]}}}}
    two = c["axes"] == 2
    axes = [{"name": "Weight", "tag": "wght", "min": 400, "default": 400, "max": 700}]
    if two:
        axes.append({"name": "Width", "tag": "wdth", "min": 75, "default": 100, "max": 100})

    def loc(w=None, wd=None):
        d = {}
        full = c["locations"] == "full"
        if w is not None or full:
            d["Weight"] = 400 if w is None else w
        if two and (wd is not None or full):
            d["Width"] = 100 if wd is None else wd
        return d
    sources = [{"spec": reg, "share": "reg", "location": {"Weight": 400, **({"Width": 100} if two else {})},
                "name": "Regular"},
               {"spec": master(208, 704, 96), "location": loc(w=700), "name": "Bold"}]
    if two:
        sources.append({"spec": master(80, 448, 48), "location": loc(wd=75), "name": "Condensed"})
    sparse = {"spec": reg, "share": "reg", "layerName": "medium", "location": loc(w=550), "name": "Medium"}
    sources.insert({"first": 0, "second": 1}.get(c["sparse_pos"], len(sources)), sparse)
    lib = {"public.skipExportGlyphs": list(skip)} if skip else {}
    return B.build_designspace(axes, sources, lib=lib)


def sparse_render(vf, name, location):
    gs = vf.getGlyphSet(location=location)
    pen = DecomposingRecordingPen(gs)
    gs[name].draw(pen)
    return sorted(canon_contour([(k, [tuple(round(v) for v in p) for p in pts]) for k, pts in cyc])
                  for cyc in R.recording_to_cycles(pen.value)), round(gs[name].width)


def run_sparse(c):
    import ufo2ft
    from fontTools import varLib
    fn = ufo2ft.compileInterpolatableTTFsFromDS

    def build(skip):
        return O.reload(varLib.build(fn(sparse_family(c, skip), useProductionNames=False))[0])
    skipped = ("_bar", "_wrap") if c.get("nested") else ("_bar",)
    ref, got = build(()), build(skipped)
    viols = []
    feat = {"flavour": "interp-ttf+varLib", "seam": "dslib", "family": "sparse-skipped-component",
            "locations": c["locations"], "axes": c["axes"], "sparse_holds": c.get("sparse_glyph", "_bar"),
            "sparse_pos": c["sparse_pos"], "nested": bool(c.get("nested"))}
    if set(skipped) & set(got.getGlyphOrder()) or \
            [g for g in ref.getGlyphOrder() if g not in skipped] != got.getGlyphOrder():
        viols.append(violation("glyph-order", feat, observed=got.getGlyphOrder()))
    locs = [{"wght": 400}, {"wght": 550}, {"wght": 625}, {"wght": 700}]
    if c["axes"] == 2:
        locs = [dict(l, wdth=100) for l in locs] + [{"wght": 400, "wdth": 75}, {"wght": 550, "wdth": 87.5}]
    n = 0
    for l in locs:
        for g in ("A", "Abar"):
            (a, wa), (b_, wb) = sparse_render(ref, g, l), sparse_render(got, g, l)
            n += 1
            same = len(a) == len(b_) and all(
                len(x) == len(y) and all(abs(p[0] - q[0]) <= 1 and abs(p[1] - q[1]) <= 1 for p, q in zip(x, y))
                for x, y in zip(a, b_))
            if not same:
                viols.append(violation("rendering-changed", feat, glyph=g, location=l, expected=a, observed=b_))
            if abs(wa - wb) > 1:
                viols.append(violation("advance-changed", feat, glyph=g, location=l, expected=wa, observed=wb))
    seen, out = set(), []
    for v in viols:
        k = (v["kind"], str(sorted(v["features"].items())))
        if k not in seen:
            seen.add(k)
            out.append(v)
    return Result(out, {"sparse_family_location_checks": n}, digest([c]), substates=n, nontrivial=n)


# ---- masters that disagree on how a glyph is built; a non-default layer compiled on its own ---------

def _abar_master(stem, composite, bar_extra=0):
    g = {
        ".notdef": {"width": 500},
        "A": {"width": 608, "unicodes": [0x41], "contours": [B.box(96, 0, 96 + stem, 704)]},
        "_bar": {"width": 608, "contours": [B.box(48, 304, 560, 304 + stem // 2 + bar_extra)]},
    }
    if composite:
        g["Abar"] = {"width": 608, "unicodes": [0x23A], "components": [("A", (1, 0, 0, 1, 0, 0)),
                                                                        ("_bar", (1, 0, 0, 1, 0, 0))]}
    else:  # the designer decomposed it in this master
        g["Abar"] = {"width": 608, "unicodes": [0x23A],
                     "contours": [B.box(96, 0, 96 + stem, 704), B.box(48, 304, 560, 304 + stem // 2 + bar_extra)]}
    return {"glyphs": g, "order": [".notdef", "A", "Abar", "_bar"]}


def _plain_render(tt, name):
    gs = tt.getGlyphSet()
    pen = DecomposingRecordingPen(gs)
    gs[name].draw(pen)
    return sorted(canon_contour(cyc) for cyc in R.recording_to_cycles(pen.value))


def _compare_fonts(viols, feat, label, ref, got, skipped=("_bar",)):
    n = 0
    want_order = [g for g in ref.getGlyphOrder() if g not in skipped]
    if got.getGlyphOrder() != want_order:
        viols.append(violation("glyph-order", feat, font=label, expected=want_order, observed=got.getGlyphOrder()))
        return 0
    for g in want_order:
        n += 1
        if _plain_render(ref, g) != _plain_render(got, g):
            viols.append(violation("rendering-changed", feat, font=label, glyph=g, expected=_plain_render(ref, g),
                                   observed=_plain_render(got, g)))
        if ref["hmtx"][g][0] != got["hmtx"][g][0]:
            viols.append(violation("advance-changed", feat, font=label, glyph=g))
    return n


def run_hetero(c):
    """'Abar' is [A, _bar] in some masters and plain contours in the others; '_bar' is not exported."""
    import ufo2ft

    def masters():
        return [_abar_master(80 + 80 * i, composite=(i in c["composite_in"])) for i in range(c["n"])]

    def build(skip):
        specs = masters()
        if c["fn"] == "ufos":
            fonts = [B.build_font(sp) for sp in specs]
            kw = {"skipExportGlyphs": list(skip)} if skip else {}
            return list(ufo2ft.compileInterpolatableTTFs(fonts, useProductionNames=False, convertCubics=False, **kw))
        ds = B.build_designspace(
            [{"name": "Weight", "tag": "wght", "min": 0, "default": 0, "max": 100 * (c["n"] - 1)}],
            [{"spec": sp, "location": {"Weight": 100 * i}, "name": f"m{i}"} for i, sp in enumerate(specs)],
            lib={"public.skipExportGlyphs": list(skip)} if skip else {})
        fn = ufo2ft.compileInterpolatableTTFsFromDS if c["fn"] == "ds-ttf" else ufo2ft.compileInterpolatableOTFsFromDS
        kw = {"convertCubics": False} if c["fn"] == "ds-ttf" else {}  # straight lines only
        return [s.font for s in fn(ds, useProductionNames=False, **kw).sources]
    feat = {"family": "masters-disagree", "fn": c["fn"], "composite_in": c["composite_in"], "n": c["n"]}
    viols, n = [], 0
    ref = [O.reload(f) for f in build(())]
    try:
        got = [O.reload(f) for f in build(("_bar",))]
    except Exception as e:
        return Result([violation("compile-failed-with-skip", dict(feat, type=type(e).__name__), message=str(e)[:300])],
                      {"hetero_master_checks": 0}, "failed", 1, False, 1)
    for i, (r, g) in enumerate(zip(ref, got)):
        n += _compare_fonts(viols, feat, f"master{i}", r, g)
    return Result(_dedup(viols), {"hetero_master_checks": n}, digest([c, n]), substates=max(n, 1), nontrivial=1)


def run_layer(c):
    """A non-default layer compiled on its own (layerName=...) with a skip list: the skipped component's
    content must come from THAT layer."""
    import ufo2ft
    spec = _abar_master(80, True)
    spec["layers"] = {"bold": {"glyphs": {k: v for k, v in _abar_master(160, True, bar_extra=32)["glyphs"].items()}}}

    def build(skip):
        sp = dict(spec)
        kw = {}
        if skip and c["seam"] == "arg":
            kw["skipExportGlyphs"] = list(skip)
        elif skip:
            sp["lib"] = {"public.skipExportGlyphs": list(skip)}
        font = B.build_font(sp, c.get("module", "ufoLib2"))
        fn = ufo2ft.compileTTF if c["flavour"] == "ttf" else ufo2ft.compileOTF
        return O.reload(fn(font, useProductionNames=False, layerName=c["layer"], **kw))
    feat = {"family": "layer", "flavour": c["flavour"], "seam": c["seam"], "layer": c["layer"]}
    viols = []
    n = _compare_fonts(viols, feat, "font", build(()), build(("_bar",)))
    return Result(_dedup(viols), {"layer_compile_checks": n}, digest([c, n]), substates=max(n, 1), nontrivial=1)


def _dedup(viols):
    seen, out = set(), []
    for v in viols:
        k = (v["kind"], str(sorted(v["features"].items())))
        if k not in seen:
            seen.add(k)
            out.append(v)
    return out


class C13(Property):
    id = "C13"
    rule = ("state = (component graph of 4 outline glyphs + a mark, flavour, seam); every state compiles all "
            "31 skip subsets and compares each with the unskipped compile; non-trivial = a remaining glyph "
            "references a skipped glyph")
    assumptions = [
        "outlines are straight-line shapes so rendering comparison is exact in both flavours",
        "rendering is compared as the multiset of closed contours (start point irrelevant)",
    ]
    trusted_base = ["fontTools binary reader + DecomposingRecordingPen", "mc/otl_ref.py"]

    def bounds(self, tier):
        if tier == "quick":
            return {"depth": 0, "transforms": ["shift", "flipx"], "mixed": ["shift"],
                    "static": [("ttf", "arg"), ("otf", "arg")], "lib_every": 7, "var_every": 40}
        return {"depth": 0, "transforms": ["shift", "flipx", "half", "shear"], "mixed": ["shift", "flipx"],
                "static": [("ttf", "arg"), ("otf", "arg"), ("ttf", "lib")], "lib_every": 3, "var_every": 10}

    def initial(self, b):
        opts = [glyph_options(i, b["transforms"], b["mixed"]) for i in (1, 2, 3)]
        out = []
        k = 0
        for combo in itertools.product(*opts):
            graph = [list(c) for c in combo]
            for fl, seam in b["static"]:
                out.append([{"graph": graph, "flavour": fl, "seam": seam}])
            k += 1
            if k % b["lib_every"] == 0:
                out.append([{"graph": graph, "flavour": "ttf", "seam": "lib", "module": "defcon"}])
            if k % (4 * b["lib_every"]) == 1:
                out.append([{"graph": graph, "flavour": "ttf", "seam": "arg-empty-vs-lib"}])
                out.append([{"graph": graph, "flavour": "var-ttf", "seam": "ufolibs-ignored-by-ds"}])
            if k % b["var_every"] == 0:
                # designspace functions take the list from the designspace lib only (documented);
                # the UFO-list function takes the argument or the union of the UFO libs
                for fl, seam in (("var-ttf", "dslib"), ("interp-ttf", "ufolibs"), ("interp-ttf", "arg"),
                                 ("var-cff2", "dslib")):
                    out.append([{"graph": graph, "flavour": fl, "seam": seam}])
        for axes in (1, 2):
            for locations in ("full", "partial"):
                for pos in ("second", "last"):
                    out.append([{"family": "sparse", "axes": axes, "locations": locations, "sparse_pos": pos}])
                for pos in ("first", "second", "last"):
                    out.append([{"family": "sparse", "axes": axes, "locations": locations, "sparse_pos": pos,
                                 "sparse_glyph": "A"}])
                out.append([{"family": "sparse", "axes": axes, "locations": locations, "sparse_pos": "first"}])
                for pos in ("second", "last"):
                    out.append([{"family": "sparse", "axes": axes, "locations": locations, "sparse_pos": pos,
                                 "nested": True}])
        for fn in ("ufos", "ds-ttf", "ds-otf"):
            for n, subsets in ((2, ([0], [1], [0, 1])), (3, ([0], [1], [2], [0, 2], [1, 2]))):
                for comp_in in subsets:
                    out.append([{"family": "hetero", "fn": fn, "n": n, "composite_in": comp_in}])
        for fl in ("ttf", "otf"):
            for seam in ("arg", "lib"):
                for layer in (None, "bold"):
                    for module in ("ufoLib2", "defcon"):
                        out.append([{"family": "layer", "flavour": fl, "seam": seam, "layer": layer,
                                     "module": module}])
        return out

    def run(self, h, b):
        c = h[0]
        if c.get("family") == "sparse":
            return run_sparse(c)
        if c.get("family") == "hetero":
            return run_hetero(c)
        if c.get("family") == "layer":
            return run_layer(c)
        spec = make_spec(c["graph"])
        static = c["flavour"] in ("ttf", "otf")
        comp = (lambda skip: compile_static(spec, c["flavour"], skip, c["seam"], c.get("module", "ufoLib2"))) \
            if static else (lambda skip: compile_var(spec, c["flavour"], skip, c["seam"]))
        ref = observe(comp(()))
        viols, sig = [], []
        ctr = {"skip_subsets": 0, "remaining_glyph_checks": 0, "glyphs_referencing_skipped": 0,
               "skipped_in_group_or_key": 0}
        nontrivial = 0
        feat0 = {"flavour": c["flavour"], "seam": c["seam"]}
        for r in range(1, len(NAMES)):
            for skip in itertools.combinations(NAMES, r):
                sk = set(skip)
                ctr["skip_subsets"] += 1
                try:
                    obs = observe(comp(skip))
                except Exception as e:
                    viols.append(violation("compile-failed-with-skip", dict(feat0, type=type(e).__name__),
                                           skip=skip, graph=c["graph"], message=str(e)[:300]))
                    continue

                def bad(kind, **d):
                    viols.append(violation(kind, dict(feat0), skip=skip, graph=c["graph"], **d))

                if c["seam"] in ("arg-empty-vs-lib", "ufolibs-ignored-by-ds"):
                    sk = set()  # the listed glyphs must NOT be skipped through this seam
                want_order = [n for n in ref["order"] if n not in sk]
                if obs["order"] != want_order:
                    bad("glyph-order", expected=want_order, observed=obs["order"])
                    continue
                if any(g in sk for g in obs["cmap"].values()) or \
                        obs["cmap"] != {u: g for u, g in ref["cmap"].items() if g not in sk}:
                    bad("cmap", observed=obs["cmap"])
                if any(g in sk for g in obs["classes"]) or \
                        obs["classes"] != {g: v for g, v in ref["classes"].items() if g not in sk}:
                    bad("gdef-classes", observed=obs["classes"], reference=ref["classes"])
                touched = False
                for n in want_order:
                    if n not in NAMES:
                        continue
                    ctr["remaining_glyph_checks"] += 1
                    if obs["hmtx"][n] != ref["hmtx"][n]:
                        bad("advance-changed", glyph=n, expected=ref["hmtx"][n], observed=obs["hmtx"][n])
                    if obs["render"][n] != ref["render"][n]:
                        bad("rendering-changed", glyph=n, expected=ref["render"][n], observed=obs["render"][n])
                    if refs_skipped(spec, n, sk):
                        ctr["glyphs_referencing_skipped"] += 1
                        touched = True
                        if c["flavour"] == "ttf":
                            # "references to skipped glyphs are replaced by their content": nothing more
                            exp = expected_components(spec, n, sk)
                            got = obs["components"][n]
                            if exp is not None and not any(abs(v) >= 2 for _, t in exp for v in t[:4]):
                                ctr["replaced_reference_checks"] = ctr.get("replaced_reference_checks", 0) + 1
                                want_c = [(b_, t_[4], t_[5], ((t_[0], t_[1]), (t_[2], t_[3]))) for b_, t_ in exp]
                                if got != want_c:
                                    bad("skipped-reference-not-replaced-by-content", glyph=n, expected=want_c,
                                        observed=got)
                    elif obs["components"][n] != ref["components"][n]:
                        bad("untouched-composite-changed", glyph=n, expected=ref["components"][n],
                            observed=obs["components"][n])
                nontrivial += touched
                if sk & {"g0", "g1", "g2", "g3", "m"}:
                    ctr["skipped_in_group_or_key"] += 1
                for a in want_order:
                    for bb in want_order:
                        if a in NAMES and bb in NAMES:
                            if obs["kern"][(a, bb)] != ref["kern"][(a, bb)]:
                                bad("kerning-changed", pair=(a, bb), expected=ref["kern"][(a, bb)],
                                    observed=obs["kern"][(a, bb)])
                            if obs["mark"][(a, bb)] != ref["mark"][(a, bb)]:
                                bad("mark-attachment-changed", pair=(a, bb), expected=ref["mark"][(a, bb)],
                                    observed=obs["mark"][(a, bb)])
                sig.append((skip, obs["order"], sorted(obs["hmtx"].items()), sorted(obs["render"].items()), sorted((str(k), v) for k, v in obs["kern"].items())))
        seen, out = set(), []
        for v in viols:
            k = (v["kind"], str(sorted(v["features"].items())))
            if k not in seen:
                seen.add(k)
                out.append(v)
        return Result(out, ctr, digest(sig), substates=ctr["skip_subsets"], nontrivial=nontrivial)

    def describe(self, h, b):
        return h[0]


PROPERTY = C13()
