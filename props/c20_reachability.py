"""C20 — generated positioning features are reachable from every registered script.

Exhaustive product: repertoire mix x kerning kind x anchor kind x every subset of a 5-element
languagesystem menu x user-feature shape.  In every state the compiled GPOS ScriptList is walked:
for each script / language system that lists a generated kern or dist feature, every generated
mark / mkmk / abvm / blwm / curs feature whose lookups contain a complete attaching pair usable in
that script must be listed there as well.
"""

from __future__ import annotations

import itertools

from fontTools import unicodedata

from mc import otl_ref as O
from mc import ufo_build as B
from mc.explore import Property, Result, digest, violation

GL = {
    "a": 0x61, "b": 0x62, "A-cy": 0x410, "Be-cy": 0x411, "alef-ar": 0x627, "beh-ar": 0x628,
    "ka-deva": 0x915, "ta-deva": 0x924, "period": 0x2E, "acutecomb": 0x301, "gravecomb": 0x300,
    "fatha-ar": 0x64E, "anusvara-deva": 0x902, "f_i": None,
    "apostrophemod": 0x2BC,  # script extension spans Latn, Cyrl, ... : usable in several scripts
    # scripts whose OpenType tag is shorter than four letters, and a script that shares its kerning
    # bucket with another (Hira/Kana)
    "ko-lao": 0x0E81, "kho-lao": 0x0E82, "maikan-lao": 0x0EB1,
    "na-nko": 0x07CA, "nb-nko": 0x07CB, "tone-nko": 0x07EB,
    "a-kana": 0x30A2, "i-kana": 0x30A4,
}
MARKS = {"acutecomb", "gravecomb", "fatha-ar", "anusvara-deva", "maikan-lao", "tone-nko"}
MIXES = {
    "latn": ["a", "b", "period", "acutecomb", "gravecomb", "f_i"],
    "latn+cyrl": ["a", "b", "A-cy", "Be-cy", "apostrophemod", "period", "acutecomb", "gravecomb"],
    "arab": ["alef-ar", "beh-ar", "period", "fatha-ar"],
    "deva": ["ka-deva", "ta-deva", "period", "anusvara-deva"],
    "latn+arab": ["a", "b", "alef-ar", "beh-ar", "period", "acutecomb", "gravecomb", "fatha-ar"],
    # Latin font that also contains (but does not export) Cyrillic glyphs, and kerns U+02BC
    "latn+skipcyrl": ["a", "b", "A-cy", "Be-cy", "apostrophemod", "period", "acutecomb", "gravecomb"],
}
# repertoires compiled with the SHORT_SCENARIOS statement lists only
MIXES_SHORT = {
    "lao": ["ko-lao", "kho-lao", "period", "maikan-lao"],
    "nko": ["na-nko", "nb-nko", "period", "tone-nko"],
    "kana": ["a-kana", "i-kana", "period", "acutecomb"],
    "latn+lao": ["a", "b", "ko-lao", "kho-lao", "period", "acutecomb", "maikan-lao"],
    "latn+kana": ["a", "b", "a-kana", "i-kana", "period", "acutecomb"],
}
MIXES.update(MIXES_SHORT)
SKIPPED = {"latn+skipcyrl": ["A-cy", "Be-cy"]}
LETTERS = {"latn": ("a", "b"), "cyrl": ("A-cy", "Be-cy"), "arab": ("alef-ar", "beh-ar"),
           "deva": ("ka-deva", "ta-deva"), "lao": ("ko-lao", "kho-lao"), "nko": ("na-nko", "nb-nko"),
           "kana": ("a-kana", "i-kana")}
LS_MENU = ["languagesystem DFLT dflt;", "languagesystem latn dflt;", "languagesystem latn TRK;",
           "languagesystem arab dflt;", "languagesystem dev2 dflt;"]
# ordered statement lists that the subset menu cannot express: one script's statements interleaved
# with another script's, and the two OpenType tags of one script declared with different languages
LS_SCENARIOS = {
    "interleaved": ["languagesystem DFLT dflt;", "languagesystem latn dflt;", "languagesystem latn TRK;",
                    "languagesystem grek dflt;", "languagesystem latn AZE;", "languagesystem cyrl dflt;",
                    "languagesystem arab dflt;", "languagesystem dev2 dflt;", "languagesystem deva dflt;"],
    "dual-tag": ["languagesystem DFLT dflt;", "languagesystem latn dflt;", "languagesystem dev2 dflt;",
                 "languagesystem dev2 MAR;", "languagesystem deva dflt;", "languagesystem arab dflt;",
                 "languagesystem cyrl dflt;"],
    "dual-tag-old-only": ["languagesystem DFLT dflt;", "languagesystem dev2 dflt;", "languagesystem deva dflt;",
                          "languagesystem deva NEP;", "languagesystem latn dflt;"],
}
SHORT_SCENARIOS = {
    "short-named": ["languagesystem DFLT dflt;", "languagesystem latn dflt;", "languagesystem lao dflt;",
                    "languagesystem lao LAO;", "languagesystem nko dflt;", "languagesystem nko NKO;",
                    "languagesystem kana dflt;", "languagesystem kana JAN;"],
    "short-named-only": ["languagesystem DFLT dflt;", "languagesystem lao LAO;", "languagesystem nko NKO;",
                         "languagesystem kana JAN;", "languagesystem latn TRK;"],
    "short-dflt": ["languagesystem DFLT dflt;", "languagesystem lao dflt;", "languagesystem nko dflt;",
                   "languagesystem kana dflt;"],
}
LS_SCENARIOS.update(SHORT_SCENARIOS)
USER = {
    "none": "",
    "gsub": "feature liga { sub a b by f_i; } liga;\n",
    "kern-marker": "feature kern {\n    pos period period -5;\n    # Automatic Code\n} kern;\n",
}
# the same writers configured another way: through the UFO lib key (options, another order), through
# the featureWriters argument in another order, or with the legacy kern writer
KEY = "com.github.googlei18n.ufo2ft.featureWriters"
WRITER_CONFIGS = {
    "lib-append": [{"class": "CursFeatureWriter"}, {"class": "KernFeatureWriter", "options": {"mode": "append"}},
                   {"class": "MarkFeatureWriter", "options": {"mode": "append"}}, {"class": "GdefFeatureWriter"}],
    "lib-kern-last": [{"class": "MarkFeatureWriter"}, {"class": "CursFeatureWriter"}, {"class": "GdefFeatureWriter"},
                      {"class": "KernFeatureWriter"}],
    "lib-noignoremarks": [{"class": "CursFeatureWriter"},
                          {"class": "KernFeatureWriter", "options": {"ignoreMarks": False, "quantization": 5}},
                          {"class": "MarkFeatureWriter", "options": {"quantization": 2}}, {"class": "GdefFeatureWriter"}],
    "legacy-kern2": [{"class": "CursFeatureWriter"},
                     {"class": "KernFeatureWriter", "module": "ufo2ft.featureWriters.kernFeatureWriter2"},
                     {"class": "MarkFeatureWriter"}, {"class": "GdefFeatureWriter"}],
    "args-mark-first": "args",
}
GENERATED_ATTACH = ("mark", "mkmk", "abvm", "blwm", "curs")
GENERATED_KERN = ("kern", "dist")


def kern_pairs(lay, feature_tag):
    """[(first, second)] glyph pairs that the PairPos lookups of the feature adjust (non-zero)."""
    pairs = []
    for li in lay.lookups_of_features({feature_tag}):
        for typ, st in lay.subtables(lay.lookup(li)):
            if typ != 2:
                continue
            if st.Format == 1:
                for g1, ps in zip(st.Coverage.glyphs, st.PairSet):
                    for pvr in ps.PairValueRecord:
                        if pvr.Value1 is not None and (getattr(pvr.Value1, "XAdvance", 0) or 0):
                            pairs.append((g1, pvr.SecondGlyph))
            else:
                c2 = {}
                for g, c in st.ClassDef2.classDefs.items():
                    c2.setdefault(c, []).append(g)
                for g1 in st.Coverage.glyphs:
                    k1 = st.ClassDef1.classDefs.get(g1, 0)
                    for k2, rec in enumerate(st.Class1Record[k1].Class2Record):
                        if rec.Value1 is not None and (getattr(rec.Value1, "XAdvance", 0) or 0):
                            pairs += [(g1, g2) for g2 in c2.get(k2, [])]
    return pairs


def neutral(glyph):
    uv = GL.get(glyph)
    if uv is None:
        return True
    return bool(set(unicodedata.script_extension(chr(uv))) & {"Zyyy", "Zinh"})


def make_spec(mix, kern, anch, ls, user):
    names = MIXES[mix]
    glyphs = {".notdef": {"width": 500, "contours": [B.box(50, 0, 450, 700)]}}
    for n in names:
        g = {"width": 0 if n in MARKS else 500, "contours": [B.box(10, 0, 90, 100)], "anchors": []}
        if GL[n] is not None:
            g["unicodes"] = [GL[n]]
        glyphs[n] = g
    kerning = []
    scripts = [sc for sc in mix.split("+") if sc in LETTERS]
    for sc in scripts:
        l1, l2 = LETTERS[sc]
        kerning.append((l1, l2, -40))
        if kern == "with-common":
            kerning.append((l1, "period", -20))
    if kern == "with-common":
        kerning.append(("period", "period", -10))
    if "apostrophemod" in glyphs:
        kerning.append(("apostrophemod", "a", -15))
    for sc in scripts:
        l1, l2 = LETTERS[sc]
        glyphs[l1]["anchors"].append(("top", 250, 600))
        glyphs[l2]["anchors"].append(("top", 260, 610))
        if anch == "curs":
            glyphs[l1]["anchors"] += [("entry", 0, 0), ("exit", 500, 10)]
            glyphs[l2]["anchors"] += [("entry", 0, 5), ("exit", 500, 0)]
    for m in names:
        if m in MARKS:
            glyphs[m]["anchors"].append(("_top", 0, 550))
            if anch in ("mkmk", "curs"):
                glyphs[m]["anchors"].append(("top", 0, 700))
    if user == "gsub" and "f_i" not in glyphs:
        return None
    if isinstance(ls, str):
        fea = "".join(l + "\n" for l in LS_SCENARIOS[ls]) + USER[user]
    else:
        fea = "".join(l + "\n" for l, on in zip(LS_MENU, ls) if on) + USER[user]
    spec = {"glyphs": glyphs, "order": list(glyphs), "kerning": kerning, "lib": {}}
    if mix in SKIPPED:
        spec["lib"]["public.skipExportGlyphs"] = list(SKIPPED[mix])
    if fea:
        spec["features"] = fea
    return spec


def usable(glyph, tag):
    """Can `glyph` occur in a run shaped with OpenType script tag `tag`?"""
    uv = GL.get(glyph)
    if uv is None:
        return True
    ext = set(unicodedata.script_extension(chr(uv)))
    if ext & {"Zyyy", "Zinh"}:
        return True
    if tag == "DFLT":
        return False  # a glyph with an explicit script is shaped under its own script tag
    for sc in ext:
        if tag in unicodedata.ot_tags_from_script(sc):
            return True
    return False


def attaching_pairs(lay, feature_tag):
    """[(glyph1, glyph2)] complete attaching pairs of all lookups of the feature."""
    pairs = []
    for li in lay.lookups_of_features({feature_tag}):
        for typ, st in lay.subtables(lay.lookup(li)):
            if typ == 4:
                for bi, b in enumerate(st.BaseCoverage.glyphs):
                    for mi, m in enumerate(st.MarkCoverage.glyphs):
                        cls = st.MarkArray.MarkRecord[mi].Class
                        if st.BaseArray.BaseRecord[bi].BaseAnchor[cls] is not None:
                            pairs.append((b, m))
            elif typ == 5:
                for bi, b in enumerate(st.LigatureCoverage.glyphs):
                    for mi, m in enumerate(st.MarkCoverage.glyphs):
                        cls = st.MarkArray.MarkRecord[mi].Class
                        if any(c.LigatureAnchor[cls] is not None
                               for c in st.LigatureArray.LigatureAttach[bi].ComponentRecord):
                            pairs.append((b, m))
            elif typ == 6:
                for bi, b in enumerate(st.Mark2Coverage.glyphs):
                    for mi, m in enumerate(st.Mark1Coverage.glyphs):
                        cls = st.Mark1Array.MarkRecord[mi].Class
                        if st.Mark2Array.Mark2Record[bi].Mark2Anchor[cls] is not None:
                            pairs.append((b, m))
            elif typ == 3:
                ex = [g for g, r in zip(st.Coverage.glyphs, st.EntryExitRecord) if r.ExitAnchor is not None]
                en = [g for g, r in zip(st.Coverage.glyphs, st.EntryExitRecord) if r.EntryAnchor is not None]
                pairs += [(a, b) for a in ex for b in en]
    return pairs


class C20(Property):
    id = "C20"
    rule = ("state = (repertoire mix, kerning kind, anchor kind, subset of 5 languagesystem statements, "
            "user-feature shape); every script and language system of the compiled GPOS is checked; "
            "non-trivial = GPOS has a generated kern/dist feature and at least one generated attaching "
            "feature")
    assumptions = [
        "a generated attaching feature 'acts on glyphs of a script' when one of its lookups holds a "
        "complete attaching pair whose two glyphs can both occur in a run of that script (explicit "
        "script, or common/inherited/unencoded)",
        "only generated features are considered (user-written GPOS blocks other than a marked kern "
        "block are not in the alphabet)",
    ]
    trusted_base = ["fontTools binary reader", "fontTools.unicodedata", "mc/otl_ref.py"]

    def bounds(self, tier):
        return {"depth": 0, "flavours": ["ttf", "otf"],
                "writer_configs": sorted(WRITER_CONFIGS) if tier == "thorough" else
                ["lib-append", "lib-kern-last", "legacy-kern2", "args-mark-first"]}

    def initial(self, b):
        out = []
        for mix in MIXES_SHORT:
            for kern, anch, sc, user, fl in itertools.product(("script-only", "with-common"), ("mark", "mkmk", "curs"),
                                                              SHORT_SCENARIOS, USER, b["flavours"]):
                if make_spec(mix, kern, anch, sc, user) is None:
                    continue
                out.append([{"mix": mix, "kern": kern, "anch": anch, "ls": sc, "user": user, "flavour": fl}])
                if user == "none" and fl == "ttf":
                    out.append([{"mix": mix, "kern": kern, "anch": anch, "ls": sc, "user": user, "flavour": "vttf"}])
                    out.append([{"mix": mix, "kern": kern, "anch": anch, "ls": sc, "user": user, "flavour": fl,
                                 "writers": "legacy-kern2"}])
        for mix in MIXES:
            if mix in MIXES_SHORT:
                continue
            for kern in ("script-only", "with-common"):
                for anch in ("mark", "mkmk", "curs"):
                    for ls in itertools.product((0, 1), repeat=len(LS_MENU)):
                        for user in USER:
                            for fl in b["flavours"]:
                                if make_spec(mix, kern, anch, ls, user) is None:
                                    continue
                                out.append([{"mix": mix, "kern": kern, "anch": anch, "ls": list(ls),
                                             "user": user, "flavour": fl}])
                                if ls == (0, 0, 0, 0, 0):
                                    for sc in LS_SCENARIOS:
                                        if sc in SHORT_SCENARIOS:
                                            continue
                                        out.append([{"mix": mix, "kern": kern, "anch": anch, "ls": sc,
                                                     "user": user, "flavour": fl}])
                                if fl == "ttf" and user == "none" and ls in ((0, 0, 0, 0, 0), (1, 1, 1, 0, 0),
                                                                             (1, 1, 1, 1, 1), (0, 1, 1, 0, 0)):
                                    # the same source as a two-master variable font with variable features
                                    out.append([{"mix": mix, "kern": kern, "anch": anch, "ls": list(ls),
                                                 "user": user, "flavour": "vttf"}])
                                    if ls == (0, 0, 0, 0, 0):
                                        for sc in LS_SCENARIOS:
                                            if sc in SHORT_SCENARIOS:
                                                continue
                                            out.append([{"mix": mix, "kern": kern, "anch": anch, "ls": sc,
                                                         "user": user, "flavour": "vttf"}])
                                if ls in ((0, 0, 0, 0, 0), (1, 1, 1, 1, 1), (1, 1, 0, 0, 0), (0, 1, 1, 0, 1)):
                                    for wc in b["writer_configs"]:
                                        out.append([{"mix": mix, "kern": kern, "anch": anch, "ls": list(ls),
                                                     "user": user, "flavour": fl, "writers": wc}])
                                if user == "none" and sum(ls) in (0, 5) or ls == (1, 1, 0, 0, 0):
                                    for prev in ("latn+cyrl", "arab", "deva"):
                                        if prev != mix:
                                            out.append([{"mix": mix, "kern": kern, "anch": anch, "ls": list(ls),
                                                         "user": user, "flavour": fl, "prev": prev}])
        return out

    def run(self, h, b):
        import ufo2ft
        c = h[0]
        spec = make_spec(c["mix"], c["kern"], c["anch"], c["ls"], c["user"])
        font = B.build_font(spec)
        fn = ufo2ft.compileTTF if c["flavour"] == "ttf" else ufo2ft.compileOTF
        kw = {}
        if c.get("prev"):
            # the same feature-writer INSTANCES first compile another font (call history on the writers)
            from ufo2ft.featureWriters import (CursFeatureWriter, GdefFeatureWriter, KernFeatureWriter,
                                               MarkFeatureWriter)
            writers = [CursFeatureWriter(), KernFeatureWriter(), MarkFeatureWriter(), GdefFeatureWriter()]
            prev = make_spec(c["prev"], c["kern"], c["anch"], [1, 1, 0, 1, 1], "none")
            fn(B.build_font(prev), useProductionNames=False, featureWriters=writers)
            kw["featureWriters"] = writers
        if c.get("writers"):
            wc = WRITER_CONFIGS[c["writers"]]
            if wc == "args":
                from ufo2ft.featureWriters import (CursFeatureWriter, GdefFeatureWriter, KernFeatureWriter,
                                                   MarkFeatureWriter)
                kw["featureWriters"] = [MarkFeatureWriter, GdefFeatureWriter(), KernFeatureWriter(), CursFeatureWriter]
            else:
                font.lib[KEY] = [dict(w) for w in wc]
        if c["flavour"] == "vttf":
            import copy
            spec2 = copy.deepcopy(spec)
            for g in spec2["glyphs"].values():
                g["width"] = g.get("width", 500) + (10 if g.get("width", 500) else 0)
                g["anchors"] = [(a[0], a[1] + 7, a[2] + 3) for a in g.get("anchors", ())]
            spec2["kerning"] = [(k[0], k[1], k[2] - 5) for k in spec2.get("kerning", ())]
            spec2["info"] = dict(spec2.get("info") or {}, styleName="Bold")
            ds = B.build_designspace([{"name": "Weight", "tag": "wght", "min": 400, "default": 400, "max": 700}],
                                     [{"spec": spec, "location": {"Weight": 400}},
                                      {"spec": spec2, "location": {"Weight": 700}}])
            skipped = spec.get("lib", {}).get("public.skipExportGlyphs")
            if skipped:
                ds.lib["public.skipExportGlyphs"] = list(skipped)
            tt = O.reload(ufo2ft.compileVariableTTF(ds, useProductionNames=False))
        else:
            tt = O.reload(fn(font, useProductionNames=False, **kw))
        lay = O.Layout(tt)
        viols = []
        ctrs = {"langsys_checked": 0, "langsys_with_kern": 0, "required_features": 0,
                "scripts_in_scriptlist": 0}
        table = []
        nontrivial = 0
        if lay.gpos is not None and lay.gpos.ScriptList is not None:
            tags_present = set(lay.feature_tags())
            pairs = {t: attaching_pairs(lay, t) for t in GENERATED_ATTACH if t in tags_present}
            # kern and dist are alternative carriers of the same kerning: one requirement "kerning"
            kp = [p for t in GENERATED_KERN if t in tags_present for p in kern_pairs(lay, t)]
            if kp:
                pairs["kerning"] = kp
            if c["user"] == "kern-marker":
                # the hand-written rule of the marked kern block is the user's, not a generated one
                pairs["kerning"] = [p for p in pairs.get("kerning", [])
                                    if p != ("period", "period") or c["kern"] == "with-common"]
            stmts = LS_SCENARIOS[c["ls"]] if isinstance(c["ls"], str) else [l for l, on in zip(LS_MENU, c["ls"]) if on]
            declared = {(l.split()[1].ljust(4), l.split()[2].rstrip(";")) for l in stmts}
            # scripts the font demonstrably supports: an EXPORTED glyph whose script extension is that
            # single script (how the writers themselves decide), or a languagesystem statement
            exported = set(tt.getGlyphOrder())
            known_tags = {t for t, _ in declared}
            for g in exported:
                uv = GL.get(g)
                if uv is None:
                    continue
                ext = set(unicodedata.script_extension(chr(uv)))
                if len(ext) == 1 and not ext & {"Zyyy", "Zinh"}:
                    known_tags.update(unicodedata.ot_tags_from_script(next(iter(ext))))
            for tag in lay.script_tags():
                ctrs["scripts_in_scriptlist"] += 1
                for lang in [None] + lay.languages(tag):
                    feats = {t for t, _ in lay.langsys_features(tag, lang)}
                    table.append((tag, lang, sorted(feats)))
                    ctrs["langsys_checked"] += 1
                    if feats & {"kern", "dist"}:
                        ctrs["langsys_with_kern"] += 1
                    for t, pp in pairs.items():
                        if t in ("abvm", "blwm") and tag not in ("dev2", "deva"):
                            continue  # only Indic/USE shapers apply abvm/blwm
                        acts = [p for p in pp if usable(p[0], tag) and usable(p[1], tag)]
                        if not acts:
                            continue
                        ctrs["required_features"] += 1
                        nontrivial = 1
                        present = bool(feats & {"kern", "dist"}) if t == "kerning" else t in feats
                        if not present:
                            viols.append(violation(
                                "feature-unreachable",
                                {"feature": t, "pair_neutral": all(neutral(g) for p in acts for g in p),
                                 "langsys_declared": (tag, (lang or "dflt").strip()) in declared,
                                 "script_supported": tag in known_tags or tag == "DFLT",
                                 "dflt_declared": ("DFLT", "dflt") in declared or not declared,
                                 "reused_writers": bool(c.get("prev")),
                                 **({"writers": c["writers"]} if c.get("writers") else {}),
                                 "langsys": "default" if lang is None else "named",
                                 "script": "DFLT" if tag == "DFLT" else "other"},
                                script=tag, language=lang, listed=sorted(feats), example_pair=acts[0],
                                languagesystems=stmts, case=c))
        seen, out = set(), []
        for v in viols:
            k = (v["kind"], str(sorted(v["features"].items())))
            if k not in seen:
                seen.add(k)
                out.append(v)
        return Result(out, ctrs, digest(table), substates=1, nontrivial=nontrivial)


PROPERTY = C20()
