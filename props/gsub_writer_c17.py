"""A third-party GSUB feature writer living in its own module, so that it can be named from the UFO lib
key com.github.googlei18n.ufo2ft.featureWriters ({"module": "props.gsub_writer_c17", "class": ...})."""

from ufo2ft.featureWriters import BaseFeatureWriter, ast


class CustomGSUBWriter(BaseFeatureWriter):
    tableTag = "GSUB"
    features = frozenset(["ss01"])

    def _write(self):
        fea = ast.FeatureBlock("ss01")
        fea.statements.append(ast.SingleSubstStatement(
            [ast.GlyphName("a")], [ast.GlyphName("a.alt")], [], [], False))
        self.context.feaFile.statements.append(fea)
        return True
