"""C12 — CFF optimisation level, subroutiniser backend and CFF version never change what is drawn.

One explored state = one packed font (a C01 trie, a chunk of C01's coordinate deviations, a width
palette with explicit or computed default/nominal widths, a font of repeated sub-paths, or a font
of structurally degenerate contours) x roundTolerance.  In every state the real `compileOTF` is
run for ALL 18 combinations optimizeCFF {0,1,2} x subroutinizer {None, cffsubr, compreffor} x
cffVersion {1,2} on fresh source objects; every glyph of every supported combination is one
checked case-state.

The reference is not another implementation but the relation the statement gives: every
supported combination must decode (through fontTools' trusted charstring interpreter) to the same
drawing as the un-optimised CFF 1 compile, carry the same hmtx, for CFF 1 a charstring whose own
width operand decodes to the hmtx advance, and byte-identical GPOS/GSUB/GDEF.  The set of
unsupported combinations is modelled independently: compreffor cannot write CFF2, so exactly
(optimizeCFF=2, compreffor, cffVersion=2) must raise NotImplementedError.
"""

from __future__ import annotations

import io
import itertools

from fontTools.pens.recordingPen import RecordingPen
from fontTools.ttLib import TTFont

from mc import outline_ref as R
from mc import ufo_build as B
from mc.explore import Property, Result, digest, violation
from props.c01_cff_outlines import deviation_glyphs, trie_glyphs, width_glyphs

OPTS = (0, 1, 2)
SUBS = (None, "cffsubr", "compreffor")
VERSIONS = (1, 2)
COMBOS = [(o, s, v) for o in OPTS for s in SUBS for v in VERSIONS]
TOLS = [None, 0, 0.25, 0.5]
MAX_GLYPHS = 2000
NOTDEF = {"width": 500, "contours": [B.box(50, 0, 450, 700)]}


def unsupported(opt, sub, v):
    """Independent model of the documented restriction: the compreffor backend only reads and
    writes CFF 1; a backend is only involved when subroutinising (optimizeCFF == 2)."""
    return opt >= 2 and sub == "compreffor" and v == 2


def cffsubr_runs(opt, sub, v):
    return opt >= 2 and sub in (None, "cffsubr")


def combo_name(c):
    return "opt%d/%s/cff%d" % (c[0], c[1] or "default", c[2])


# ------------------------------------------------------------------------------------------
# fonts

LAYOUT_GLYPHS = {
    "La": {"width": 520, "unicodes": [0x61], "contours": [B.box(20, 0, 480, 500)],
           "anchors": [("top", 250, 510.5)]},
    "Lb": {"width": 540.5, "unicodes": [0x62], "contours": [B.box(30, 0, 500, 700)],
           "anchors": [("top", 260, 710)]},
    "La_Lb": {"width": 900, "contours": [B.box(20, 0, 880, 500)]},
    "Lmark": {"width": 0, "unicodes": [0x0301], "contours": [B.box(-60, 520, 60, 600)],
              "anchors": [("_top", 0, 510)]},
}
LAYOUT_FEA = "languagesystem DFLT dflt;\nfeature liga {\n  sub La Lb by La_Lb;\n} liga;\n"
LAYOUT_KERN = [["La", "Lb", -30.5], ["Lb", "La", 12]]


def shift(contour, dx, dy):
    return [(p[0] + dx, p[1] + dy) + tuple(p[2:]) for p in contour]


# closed contours relative to the origin; H/V tangents make the specialiser choose
# hhcurveto / vvcurveto / hvcurveto / vhcurveto and hlineto / vlineto chains
MOTIFS = {
    "box": [(0, 0, "line"), (40, 0, "line"), (40, 40, "line"), (0, 40, "line")],
    "tri": [(0, 0, "line"), (60.5, 0, "line"), (20, 50.5, "line")],
    # four curves, all on-curve points are extrema (alternating h/v tangents)
    "round": [(50, 0, "curve"), (77.5, 0, None), (100, 22.5, None), (100, 50, "curve"),
              (100, 77.5, None), (77.5, 100, None), (50, 100, "curve"), (22.5, 100, None),
              (0, 77.5, None), (0, 50, "curve"), (0, 22.5, None), (22.5, 0, None)],
    # horizontal start tangent and horizontal end tangent (hhcurveto), then lines
    "hh": [(0, 0, "line"), (30, 0, None), (40, 50, None), (70, 50, "curve"), (70, 80, "line"),
           (0, 80, "line")],
    # vertical start and end tangents (vvcurveto)
    "vv": [(0, 0, "line"), (60, 0, "line"), (60, 30, None), (20, 40, None), (20, 70, "curve"),
           (0, 70, "line")],
    # horizontal start, generic end; generic start, vertical end
    "hgen": [(0, 0, "line"), (25, 0, None), (45, 15, None), (55, 40.5, "curve"),
             (50, 60, None), (30, 70, None), (30, 90, "curve"), (0, 90, "line")],
    # staircase of alternating h/v lines
    "stair": [(0, 0, "line"), (30, 0, "line"), (30, 10, "line"), (20, 10, "line"), (20, 20, "line"),
              (10, 20, "line"), (10, 30, "line"), (0, 30, "line")],
    # quadratic blob (elevated to cubics, non-dyadic control points)
    "quad": [(0, 0, "line"), (25, -15.5, None), (50, 0, "qcurve"), (65, 25, None), (35, 55, None),
             (0, 30, "qcurve")],
    # last segment is a curve that returns to the first point (no implied closing line)
    "curveclose": [(0, 0, "curve"), (40, 0, "line"), (40, 30, None), (20, 50, None)],
}
OFFSETS = [(0, 0), (120, 0), (0, 130.5), (240.5, 130), (360, 7), (480, -20.5)]


def repeat_glyphs():
    """Glyphs made of 1..4 displaced copies of one motif, pairs of motifs, and the same shape
    reused by many glyphs: the raw material of a subroutiniser."""
    glyphs = {".notdef": NOTDEF}
    names = list(MOTIFS)
    for mi, m in enumerate(names):
        for k in (1, 2, 3, 4):
            for start in (0, 1, 2):
                offs = [OFFSETS[(start + j) % len(OFFSETS)] for j in range(k)]
                glyphs["rp_%s_%d_%d" % (m, k, start)] = {
                    "width": 400 + 50 * k + (0.5 if start == 1 else 0),
                    "contours": [shift(MOTIFS[m], dx, dy) for dx, dy in offs]}
    for a, b in itertools.combinations(names, 2):
        glyphs["pair_%s_%s" % (a, b)] = {
            "width": 640, "contours": [shift(MOTIFS[a], 10, 10), shift(MOTIFS[b], 200.5, 10),
                                       shift(MOTIFS[a], 400, 300)]}
    for a, b, c in itertools.permutations(["box", "round", "hh", "stair"], 3):
        glyphs["perm_%s_%s_%s" % (a, b, c)] = {
            "width": 700, "contours": [shift(MOTIFS[a], 0, 0), shift(MOTIFS[b], 150, 0),
                                       shift(MOTIFS[c], 300, 0)]}
    return glyphs


def special_glyphs():
    """Structurally degenerate but legal contours (the statement quantifies over all UFOs):
    zero-length lines and curves (also after rounding), cubic segments with both handles
    retracted, a point in the middle of a horizontal / vertical edge, explicit closing points."""
    z = {
        "zero_line": [[(0, 0, "line"), (100, 0, "line"), (100, 0, "line"), (100, 100, "line")]],
        "zero_line_rounded": [[(0, 0, "line"), (100, 0, "line"), (100.25, 0.25, "line"),
                               (100, 100, "line")]],
        "zero_close": [[(0, 0, "line"), (100, 0, "line"), (100, 100, "line"), (0, 0, "line")]],
        "zero_curve": [[(0, 0, "line"), (100, 0, "line"), (100, 0, None), (100, 0, None),
                        (100, 0, "curve"), (0, 100, "line")]],
        "retracted": [[(0, 0, "line"), (0, 0, None), (100, 50, None), (100, 50, "curve"),
                       (0, 100, "line")]],
        "retracted_h": [[(0, 0, "line"), (0, 0, None), (100, 0, None), (100, 0, "curve"),
                         (50, 100, "line")]],
        "retracted_rounded": [[(0, 0, "line"), (0.25, -0.25, None), (100, 50.25, None),
                               (100, 50, "curve"), (0, 100, "line")]],
        "half_retracted": [[(0, 0, "line"), (0, 0, None), (80, 50, None), (100, 50, "curve"),
                            (0, 100, "line")]],
        "flat_curve": [[(0, 0, "line"), (30, 0, None), (70, 0, None), (100, 0, "curve"),
                        (50, 100, "line")]],
        "mid_h": [[(0, 0, "line"), (50, 0, "line"), (100, 0, "line"), (100, 100, "line")]],
        "mid_v": [[(0, 0, "line"), (100, 0, "line"), (100, 40, "line"), (100, 100, "line"),
                   (0, 100, "line")]],
        "mid_h_back": [[(0, 0, "line"), (100.5, 0, "line"), (40, 0, "line"), (40, 80, "line")]],
        "mid_start": [[(50, 0, "line"), (100, 0, "line"), (100, 100, "line"), (0, 100, "line"),
                       (0, 0, "line")]],
        "mid_two": [[(0, 0, "line"), (30, 0, "line"), (60, 0, "line"), (100, 0, "line"),
                     (100, 100, "line"), (0, 100, "line"), (0, 50, "line")]],
        "zero_then_mid": [[(0, 0, "line"), (50, 0, "line"), (50, 0, "line"), (100, 0, "line"),
                           (100, 100, "line")]],
        "curve_close_dup": [[(0, 0, "line"), (100, 0, "line"), (100, 50, None), (50, 100, None),
                             (0, 0, "curve")]],
    }
    glyphs = {".notdef": NOTDEF}
    for i, (n, cs) in enumerate(z.items()):
        glyphs[n] = {"width": 600 + i, "contours": cs}
        glyphs[n + "_x2"] = {"width": 600.5, "contours": cs + [shift(c, 200, 0.5) for c in cs]}
    return glyphs


WIDTH_INFO = [(None, None), (500, 0), (500, 600), (0, 500), (123, 123), (1001, -100), (500, 499.5), (499.5, 600.5),
              (None, 600), (600, None)]


def width_font_glyphs(dflt, nominal):
    """C01's width palette plus widths exactly at / half a unit around the explicit
    postscriptDefaultWidthX / postscriptNominalWidthX."""
    glyphs = dict(width_glyphs())
    vals = set()
    for base in (dflt, nominal):
        if base is None:
            continue
        for d in (0, 0.5, -0.5, 0.25, 1, -1):
            if base + d >= 0:
                vals.add(base + d)
    shapes = [B.SHAPES["tri"], B.SHAPES["cubic"], []]
    for i, w in enumerate(sorted(vals)):
        for si, cs in enumerate(shapes):
            glyphs["x%d_%d" % (i, si)] = {"width": w, "contours": cs}
    return glyphs


def chunks(glyphs, size=600):
    names = [n for n in glyphs if n != ".notdef"]
    return [names[i:i + size] for i in range(0, len(names), size)]


# ------------------------------------------------------------------------------------------
# observation of one compiled font

def compile_combo(spec, module, tol, combo):
    import ufo2ft
    font = B.build_font(spec, module)
    opts = {"optimizeCFF": combo[0], "subroutinizer": combo[1], "cffVersion": combo[2]}
    if tol is not None:
        opts["roundTolerance"] = tol
    otf = ufo2ft.compileOTF(font, useProductionNames=False, **opts)
    buf = io.BytesIO()
    otf.save(buf)
    buf.seek(0)
    return TTFont(buf)


def observe(tt):
    """-> dict(order, tag, draw: [RecordingPen.value per gid], hmtx: [(adv, lsb)], cswidth: [..] |
    None, layout: {tag: bytes}, nsubrs, callers, programs(for CFF 1))."""
    order = tt.getGlyphOrder()
    tag = "CFF " if "CFF " in tt else ("CFF2" if "CFF2" in tt else None)
    out = {"order": order, "tag": tag, "layout": {t: tt.getTableData(t) for t in ("GPOS", "GSUB", "GDEF")
                                                  if t in tt}}
    hm = tt["hmtx"]
    out["hmtx"] = [tuple(hm[n]) for n in order]
    td = tt[tag].cff.topDictIndex[0]
    draws, csw, callers, ops = [], [], 0, set()
    if tag == "CFF ":
        css = td.CharStrings
        for n in order:
            cs = css[n]
            pen = RecordingPen()
            cs.draw(pen)  # decompiles, executes with the font's own Private / subrs, sets cs.width
            draws.append(pen.value)
            csw.append(cs.width)
            prog = cs.program
            if "callsubr" in prog or "callgsubr" in prog:
                callers += 1
            ops.update(t for t in prog if isinstance(t, str))
        priv = td.Private
        out["default"], out["nominal"] = priv.defaultWidthX, priv.nominalWidthX
        nsubrs = len(td.GlobalSubrs) + (len(priv.Subrs) if hasattr(priv, "Subrs") else 0)
    else:
        gs = tt.getGlyphSet()
        css = td.CharStrings
        for n in order:
            pen = RecordingPen()
            gs[n].draw(pen)
            draws.append(pen.value)
            prog = css[n].program
            if "callsubr" in prog or "callgsubr" in prog:
                callers += 1
            ops.update(t for t in prog if isinstance(t, str))
        nsubrs = len(td.GlobalSubrs) + sum(len(fd.Private.Subrs) for fd in td.FDArray
                                           if hasattr(fd.Private, "Subrs"))
        csw = None
    out.update(draw=draws, cswidth=csw, nsubrs=nsubrs, callers=callers, ops=ops)
    return out


# ------------------------------------------------------------------------------------------
# comparison of two drawings of one glyph

def _cycles(value):
    return R.recording_to_cycles(value)


def n_retract(cycle):
    """cubic with both handles retracted (c1 == start, c2 == end) -> line."""
    out = []
    for i, (k, pts) in enumerate(cycle):
        start = cycle[i - 1][1][-1]
        if k == "curve" and tuple(pts[0]) == tuple(start) and tuple(pts[1]) == tuple(pts[2]):
            out.append(("line", [pts[2]]))
        else:
            out.append((k, list(pts)))
    return out


def n_zero(cycle):
    """drop zero-length line segments."""
    segs = [(k, list(p)) for k, p in cycle]
    changed = True
    while changed and len(segs) > 1:
        changed = False
        for i, (k, pts) in enumerate(segs):
            start = segs[i - 1][1][-1]
            if k == "line" and tuple(pts[0]) == tuple(start):
                del segs[i]
                changed = True
                break
    return segs


def n_merge(cycle):
    return R.merge_axis_collinear(cycle)


NORMALISERS = [("retracted-curve-to-line", n_retract), ("zero-length-line-dropped", n_zero),
               ("axis-collinear-lines-merged", n_merge)]


def _norm_cycle(c):
    return [(k, [(float(p[0]), float(p[1])) for p in pts]) for k, pts in c]


def _apply(cycles, names):
    out = []
    for c in cycles:
        for nm, fn in NORMALISERS:
            if nm in names:
                c = fn(c)
        c = _norm_cycle(c)
        # a contour reduced to a single point or nothing draws nothing
        if len(c) <= 1 and all(k == "line" for k, _ in c):
            continue
        out.append(c)
    return out


def classify_structural(base_value, got_value):
    """Which of the specialiser's topology-changing simplifications (smallest set) explains the
    difference?  Returns a '+'-joined name or None."""
    a, b = _cycles(base_value), _cycles(got_value)
    for size in (1, 2, 3):
        for names in itertools.combinations([n for n, _ in NORMALISERS], size):
            na, nb = _apply(a, names), _apply(b, names)
            if len(na) == len(nb) and all(R.cyclic_equal(x, y) for x, y in zip(na, nb)):
                return "+".join(names)
    return None


def same_drawing(a, b):
    """Equality of two RecordingPen values up to the explicit/implied closing line."""
    if a == b:
        return True
    if len(a) == len(b) and all(x[0] == y[0] and len(x[1]) == len(y[1]) for x, y in zip(a, b)):
        # same operators, some coordinate differs: the closing-line normal forms differ as well
        return False
    ca, cb = _cycles(a), _cycles(b)
    return [_norm_cycle(c) for c in ca] == [_norm_cycle(c) for c in cb]


def _operands(value):
    """(operand, magnitude) pairs a Type 2 charstring needs for this drawing: per-axis deltas between
    consecutive points (the current point survives moveTo) and the largest coordinate involved."""
    out, cur = [], (0.0, 0.0)
    for _, args in value:
        for p in args:
            out.append((p[0] - cur[0], max(abs(p[0]), abs(cur[0]))))
            out.append((p[1] - cur[1], max(abs(p[1]), abs(cur[1]))))
            cur = p
    return out


def is_centesimal(value):
    """every charstring operand is a multiple of 1/100 up to the arithmetic of tx (absolute
    coordinates and operands in binary32, then 16.16)"""
    return all(abs(d - round(d * 100) / 100) <= 2.0 ** -13 + max(abs(d), m) * 2.0 ** -21
               for d, m in _operands(value))


def hundredths_rounding(rv, dv):
    """Is dv what rv becomes when every relative operand is rounded to 1/100 (what AFDKO tx
    writes)?  The error accumulates along the path: <= 0.005 (+ encoding) per operand."""
    if len(rv) != len(dv):
        return None
    n, worst = 0, 0.0
    for (op1, a1), (op2, a2) in zip(rv, dv):
        if op1 != op2 or len(a1) != len(a2):
            return None
        for p, q in zip(a1, a2):
            n += 1
            d = max(abs(p[0] - q[0]), abs(p[1] - q[1]))
            if d > n * (0.005 + 2.0 ** -15) + max(abs(p[0]), abs(p[1])) * 2.0 ** -21:
                return None
            worst = max(worst, d)
    if not is_centesimal(dv):
        return None
    return worst


# ------------------------------------------------------------------------------------------

class C12(Property):
    id = "C12"
    rule = ("state = one packed font (C01 trie / coordinate-deviation chunk / width palette with "
            "default+nominal widths / repeated sub-paths / degenerate contours) x roundTolerance, compiled "
            "with all 18 option combinations; case-state = (glyph, supported combination); non-trivial = "
            "the glyph's charstring differs in encoding from the baseline's (specialised operators, "
            "subroutine call, CFF2, omitted width)")
    assumptions = [
        "coordinates are multiples of 1/4 within +-16384 (see C01); closed contours only",
        "fontTools' CFF/CFF2 reader and T2 charstring interpreter (subroutine calls, width operand, "
        "default/nominal width) are trusted as the decoder of every combination",
        "glyphs are matched across combinations by glyph index",
    ]
    trusted_base = ["fontTools TTFont reader + T2 charstring interpreter", "mc/outline_ref.py (closing-line "
                    "normalisation only)"]

    def bounds(self, tier):
        if tier == "quick":
            return {"depth": 0, "tols": [None, 0], "deep_tries_integer_only": True,
                    "tries": [(s, v, 2) for s in B.SHAPES if s != "large" for v in ("pure", "mixed", "shared")]
                    + [("tri", "pure", 3), ("cubic", "mixed", 3), ("quad", "shared", 3), ("mixed", "pure", 3),
                       ("two", "mixed", 3), ("offstart", "shared", 3)],
                    "palette": B.QUICK_TRANSFORMS,
                    "dev_singles": ["tri", "cubic", "quad", "mixed", "two", "offstart"],
                    "dev_pairs": ["tri"], "width_info": WIDTH_INFO[:8], "modules": ["ufoLib2"]}
        return {"depth": 0, "tols": TOLS,
                "tries": [(s, v, 3) for s in B.SHAPES if s != "large" for v in ("pure", "mixed", "shared")],
                "palette": B.QUICK_TRANSFORMS,
                "wide_tries": [(s, "pure", 2) for s in B.SHAPES if s != "large"],
                "dev_singles": ["tri", "cubic", "quad", "mixed", "two", "offstart"],
                "dev_pairs": ["tri", "cubic", "quad", "mixed"], "width_info": WIDTH_INFO,
                "modules": ["ufoLib2", "defcon"]}

    def initial(self, b):
        out = []
        for tol in b["tols"]:
            for (s, v, d) in b["tries"]:
                if d > 2 and tol is not None and tol < 0.5 and b.get("deep_tries_integer_only"):
                    continue
                # a depth-3 trie (821 glyphs, 17 compiles) is split into its first-level branches so that
                # no state costs more than a few seconds
                for br in (range(len(b["palette"])) if d > 2 else [None]):
                    out.append([{"part": "trie", "shape": s, "variant": v, "d": d, "palette": b["palette"],
                                 "tol": tol, "branch": br}])
            for (s, v, d) in b.get("wide_tries", ()):
                out.append([{"part": "trie", "shape": s, "variant": v, "d": d, "palette": B.ALL_TRANSFORMS,
                             "tol": tol}])
            out.append([{"part": "trie", "shape": "large", "variant": "pure", "d": 2, "palette": ["id", "half"],
                         "tol": tol}])
            for s in b["dev_singles"]:
                out.append([{"part": "dev", "shape": s, "k": 1, "chunk": 0, "tol": tol}])
            for s in b["dev_pairs"]:
                n = len(chunks(deviation_glyphs(s, 2)))
                for ci in range(n):
                    out.append([{"part": "dev", "shape": s, "k": 2, "chunk": ci, "tol": tol}])
            for (d, n) in b["width_info"]:
                for m in b["modules"]:
                    out.append([{"part": "width", "default": d, "nominal": n, "tol": tol, "module": m}])
            out.append([{"part": "repeat", "tol": tol}])
            out.append([{"part": "special", "tol": tol}])
        return out

    # -- font of a state --------------------------------------------------------------------
    def make_spec(self, c):
        info = {}
        if c["part"] == "trie":
            glyphs = trie_glyphs(c["shape"], c["variant"], c["palette"], c["d"])
            br = c.get("branch")
            if br is not None:
                keep = "n%d" % br
                glyphs = {n: g for n, g in glyphs.items()
                          if n in (".notdef", "r", keep) or n.startswith(keep + "_")}
        elif c["part"] == "dev":
            allg = deviation_glyphs(c["shape"], c["k"])
            names = chunks(allg)[c["chunk"]]
            glyphs = {".notdef": allg[".notdef"]}
            glyphs.update((n, allg[n]) for n in names)
        elif c["part"] == "width":
            glyphs = width_font_glyphs(c["default"], c["nominal"])
            if c["default"] is not None:
                info["postscriptDefaultWidthX"] = c["default"]
            if c["nominal"] is not None:
                info["postscriptNominalWidthX"] = c["nominal"]
        elif c["part"] == "repeat":
            glyphs = repeat_glyphs()
        else:
            glyphs = special_glyphs()
        glyphs = dict(glyphs)
        glyphs.update(LAYOUT_GLYPHS)
        assert len(glyphs) <= MAX_GLYPHS, len(glyphs)
        return {"glyphs": glyphs, "order": list(glyphs), "kerning": LAYOUT_KERN, "features": LAYOUT_FEA,
                "info": info}

    def run(self, h, b):
        c = h[0]
        tol = c["tol"]
        spec = self.make_spec(c)
        module = c.get("module", "ufoLib2")
        viols = []
        ctrs = {"fonts": 1, "compiles": 0, "glyph_states": 0}
        feat0 = {"part": c["part"], "tol": tol}

        def add(kind, feats, **detail):
            if sum(1 for v in viols if v["kind"] == kind and v["features"] == feats) == 0 and len(viols) < 12:
                viols.append(violation(kind, feats, state=self.describe(h, b), **detail))

        obs = {}
        for combo in COMBOS:
            try:
                tt = compile_combo(spec, module, tol, combo)
            except NotImplementedError as e:
                ctrs["not_implemented"] = ctrs.get("not_implemented", 0) + 1
                if not unsupported(*combo):
                    add("supported-combination-rejected", dict(feat0, combo=combo_name(combo)),
                        message=str(e)[:200])
                continue
            ctrs["compiles"] += 1
            if unsupported(*combo):
                add("unsupported-combination-accepted", dict(feat0, combo=combo_name(combo)),
                    tables=sorted(t for t in tt.keys() if t.startswith("CFF")))
                continue
            obs[combo] = observe(tt)

        b0, b1 = obs.get((0, None, 1)), obs.get((1, None, 1))
        if b0 is None or b1 is None:
            return Result(viols, ctrs, "no-baseline", substates=1, nontrivial=0)
        order = b0["order"]
        for combo, o in obs.items():
            cn = combo_name(combo)
            f = dict(feat0, combo=cn)
            want_tag = "CFF " if combo[2] == 1 else "CFF2"
            if o["tag"] != want_tag:
                add("cff-version-not-honoured", f, expected=want_tag, observed=o["tag"])
            if len(o["order"]) != len(order):
                add("glyph-count-differs", f, expected=len(order), observed=len(o["order"]))
                continue
            if o["layout"] != b0["layout"]:
                bad = sorted(t for t in set(o["layout"]) | set(b0["layout"])
                             if o["layout"].get(t) != b0["layout"].get(t))
                add("layout-table-differs", dict(f, tables=bad))
            ref = b0 if combo[0] == 0 else b1
            for gi in range(len(order)):
                ctrs["glyph_states"] += 1
                gname = order[gi]
                # --- advances (and bearings: derived data, only comparable when the drawing is the same)
                dv, rv = o["draw"][gi], ref["draw"][gi]
                same = dv is rv or same_drawing(rv, dv)
                if o["hmtx"][gi][0] != b0["hmtx"][gi][0]:
                    add("advance-differs", f, glyph=gname, expected=b0["hmtx"][gi], observed=o["hmtx"][gi],
                        spec=_spec_of(spec, gname))
                elif o["hmtx"][gi] != ref["hmtx"][gi] and same:
                    add("lsb-differs-for-same-drawing", f, glyph=gname, expected=ref["hmtx"][gi],
                        observed=o["hmtx"][gi], spec=_spec_of(spec, gname))
                if o["cswidth"] is not None and o["cswidth"][gi] != o["hmtx"][gi][0]:
                    add("charstring-width-differs-from-hmtx", f, glyph=gname, charstring_width=o["cswidth"][gi],
                        hmtx_advance=o["hmtx"][gi][0], defaultWidthX=o.get("default"),
                        nominalWidthX=o.get("nominal"), spec=_spec_of(spec, gname))
                # --- drawing: strictly equal inside the same specialisation class ...
                if not same:
                    delta = None
                    if cffsubr_runs(*combo) and tol is not None and tol < 0.5:
                        delta = hundredths_rounding(rv, dv)
                    if delta is not None:
                        ctrs["cffsubr_precision_diffs"] = ctrs.get("cffsubr_precision_diffs", 0) + 1
                        if delta > 0.0051:
                            ctrs["cffsubr_precision_accumulated_over_5_milli"] = ctrs.get(
                                "cffsubr_precision_accumulated_over_5_milli", 0) + 1
                        add("coordinates-rounded-to-hundredths", dict(f), glyph=gname,
                            max_delta=delta, expected=rv[:6], observed=dv[:6], spec=_spec_of(spec, gname))
                    else:
                        add("drawing-differs", dict(f, against=combo_name((min(combo[0], 1), None, 1))),
                            glyph=gname, expected=rv[:10], observed=dv[:10], spec=_spec_of(spec, gname))
            # --- ... and the specialised baseline against the unspecialised one
        for gi in range(len(order)):
            rv, dv = b0["draw"][gi], b1["draw"][gi]
            if same_drawing(rv, dv):
                if b0["hmtx"][gi] != b1["hmtx"][gi]:
                    add("lsb-differs-for-same-drawing", dict(feat0, combo=combo_name((1, None, 1))), glyph=order[gi],
                        expected=b0["hmtx"][gi], observed=b1["hmtx"][gi], spec=_spec_of(spec, order[gi]))
            else:
                what = classify_structural(rv, dv)
                f = dict(feat0, between="opt0-vs-opt1")
                if what:
                    ctrs["specialiser_" + what] = ctrs.get("specialiser_" + what, 0) + 1
                    add("specialiser-changes-topology", dict(f, what=what), glyph=order[gi], expected=rv[:10],
                        observed=dv[:10], spec=_spec_of(spec, order[gi]))
                else:
                    add("drawing-differs", dict(f, combo=combo_name((1, None, 1)), against=combo_name((0, None, 1))),
                        glyph=order[gi], expected=rv[:10], observed=dv[:10], spec=_spec_of(spec, order[gi]))

        # --- non-vacuity -------------------------------------------------------------------
        for combo, o in obs.items():
            if combo[0] == 2:
                key = "%s_cff%d" % (combo[1] or "default", combo[2])
                ctrs["subrs_" + key] = o["nsubrs"]
                ctrs["glyphs_calling_subrs_" + key] = o["callers"]
                if o["nsubrs"]:
                    ctrs["fonts_with_subrs_" + key] = 1
        for op in ("hlineto", "vlineto", "hhcurveto", "vvcurveto", "hvcurveto", "vhcurveto", "rcurveline",
                   "rlinecurve"):
            if op in b1["ops"]:
                ctrs["fonts_using_" + op] = 1
        d, n = b0.get("default"), b0.get("nominal")
        for gi in range(len(order)):
            adv = b0["hmtx"][gi][0]
            if adv == d:
                ctrs["width_eq_default"] = ctrs.get("width_eq_default", 0) + 1
            if adv == n:
                ctrs["width_eq_nominal"] = ctrs.get("width_eq_nominal", 0) + 1
            if b0["draw"][gi] != b1["draw"][gi]:
                ctrs["glyphs_redrawn_by_specialiser"] = ctrs.get("glyphs_redrawn_by_specialiser", 0) + 1
        src = spec["glyphs"]
        ctrs["fractional_widths"] = sum(1 for g in src.values() if g["width"] != int(g["width"]))
        ctrs["layout_tables"] = len(b0["layout"])
        if len(b0["layout"]) < 3:
            add("harness-no-layout-tables", feat0, tables=sorted(b0["layout"]))
        # every glyph of every CFF2 / specialised / subroutinised combination is encoded differently
        nontrivial = len(order) * sum(1 for cmb in obs if cmb[0] >= 1 or cmb[2] == 2)
        sig = [[len(v) for v in b0["draw"]], b0["hmtx"],
               sorted((combo_name(cmb), o["tag"], o["nsubrs"], o["callers"], digest(o["hmtx"]),
                       digest([len(v) for v in o["draw"]])) for cmb, o in obs.items()),
               {t: digest(v) for t, v in b0["layout"].items()}, sorted((v["kind"], str(v["features"])) for v in viols)]
        return Result(viols, ctrs, digest(sig), substates=len(order) * len(obs), nontrivial=nontrivial)

    def describe(self, h, b):
        c = dict(h[0])
        if "palette" in c:
            c["palette"] = len(c["palette"])
        return c

    def finish(self, b, summary):
        """Non-vacuity requirements over the whole run."""
        c = summary["counters"]
        out = []
        need = ["fonts_with_subrs_default_cff1", "fonts_with_subrs_default_cff2", "fonts_with_subrs_cffsubr_cff1",
                "fonts_with_subrs_cffsubr_cff2", "fonts_with_subrs_compreffor_cff1", "width_eq_default",
                "width_eq_nominal", "fonts_using_hhcurveto", "fonts_using_vvcurveto", "fonts_using_hvcurveto",
                "fonts_using_vhcurveto", "fonts_using_hlineto", "fonts_using_vlineto", "not_implemented"]
        for k in need:
            if not c.get(k):
                out.append(violation("vacuous", {"counter": k}))
        return out


def _spec_of(spec, name):
    g = spec["glyphs"].get(name)
    if not g:
        return None
    return {"width": g["width"], "contours": g.get("contours", [])[:3],
            "components": g.get("components", [])[:3]}


PROPERTY = C12()
