"""C05 — generated kerning applies the UFO kerning value to every pair, once.

State = (group configuration, environment switches, set of kerning entries).  BFS op = "add one
kerning entry" (both insertion orders are generated; the canonical state is the sorted entry
set and the second path is re-executed and compared: confluence).  In every state the font is
compiled with the real feature writers, reloaded, and *every ordered pair of exported glyphs* is
shaped by the independent GPOS interpreter (mc/otl_ref.py) under every script a shaper could
select for it; the result must equal the UFO kerning value (mc/kern_ref.py).
"""

from __future__ import annotations

import itertools

from fontTools import unicodedata

from mc import kern_ref as K
from mc import otl_ref as O
from mc import ufo_build as B
from mc.explore import Property, Result, digest, jdump, violation

REP = [("a", 0x61), ("b", 0x62), ("A-cy", 0x410), ("alpha", 0x3B1), ("alef-ar", 0x627),
       ("beh-ar", 0x628), ("alef-hb", 0x5D0), ("ka-deva", 0x915), ("ka-kana", 0x30AB),
       ("one", 0x31), ("period", 0x2E), ("acutecomb", 0x308), ("x.alt", None)]
# acutecomb is encoded at U+0308 on purpose: its script extension spans Latn, Cyrl, Grek AND Hebr (an RTL script)
UNI = dict(REP)

G1, G2 = "public.kern1.A", "public.kern2.B"
GROUPS = [
    {},
    {G1: ["a", "A-cy"]},
    {G1: ["a", "period"]},
    {G1: ["a", "alef-ar"]},
    {G1: ["a", "acutecomb"]},
    {G2: ["b", "period"]},
    {G2: ["b", "beh-ar"]},
    {G1: ["a", "A-cy", "x.alt"], G2: ["b", "period", "beh-ar"]},
    # 8: pairwise script-mixing groups (Cyrl+Grek on side 1, Cyrl+Latn on side 2): script buckets
    #    must be merged transitively
    {G1: ["A-cy", "alpha"], G2: ["A-cy", "b"]},
]
SIDE1 = ["a", "alef-ar", "one", "period", "acutecomb", "ka-deva", "@1"]
SIDE2 = ["b", "beh-ar", "alef-hb", "one", "period", "acutecomb", "A-cy", "ka-deva", "@2"]
VALUES = [-50, 35, 0, 6.5, -7.5]

ENVS = ["categories", "ls-dflt", "ls-multi", "gsub-alt", "gsub-neutral-alt", "skip-b", "missing-in-group",
        "q5", "q10", "no-ignoremarks", "gdef-carets", "long-names"]
# "long-names": the groups carry names longer than a feature-file class name may be, and a second
# group on each side shares its first 64 characters with them
LONG = "L" * 64

FEA = {
    "ls-dflt": "languagesystem DFLT dflt;\n",
    "ls-multi": "languagesystem DFLT dflt;\nlanguagesystem latn dflt;\nlanguagesystem latn TRK;\n"
                "languagesystem arab dflt;\n",
    "gsub-alt": "feature salt { sub a by x.alt; } salt;\n",
    "gsub-neutral-alt": "feature salt { sub period by x.alt; } salt;\n",
    # a hand-written GDEF block that defines no glyph classes (they come from the categories)
    "gdef-carets": "table GDEF { LigatureCaretByPos one 100; } GDEF;\n",
}


def glyph_props(env):
    """name -> (explicit script set, bidi type 'L'/'R'/None, is_mark) from Unicode data."""
    out = {}
    for name, uv in REP:
        if uv is None:
            out[name] = (set(), None, False)
            continue
        ch = chr(uv)
        ext = set(unicodedata.script_extension(ch))
        if ext & {"Zyyy", "Zinh"}:
            ext = set()
        bd = unicodedata.bidirectional(ch)
        bt = "R" if bd in ("R", "AL") else ("L" if bd in ("L", "EN", "AN") else None)
        out[name] = (ext, bt, unicodedata.category(ch).startswith("M"))
    if "gsub-alt" in env:
        out["x.alt"] = (set(out["a"][0]), out["a"][1], False)
    # "gsub-neutral-alt": x.alt is an alternate of the script-neutral period and stays neutral
    return out


def role(name, props):
    ext, bt, mark = props[name]
    if mark:
        return "mark"
    if UNI.get(name) is None and not ext:
        return "unencoded"
    if not ext:
        return "digit" if bt == "L" else "neutral"
    return "rtl-letter" if bt == "R" else "ltr-letter"


RTL_GLYPHS = {"alef-ar", "beh-ar", "alef-hb"}


def make_spec(gi, env, entries, ltr_only=False):
    glyphs = {".notdef": {"width": 500, "contours": [B.box(50, 0, 450, 700)]}}
    for name, uv in REP:
        if ltr_only and name in RTL_GLYPHS:
            continue
        g = {"width": 0 if name == "acutecomb" else 500, "contours": [B.box(10, 0, 90, 100)]}
        if uv is not None:
            g["unicodes"] = [uv]
        glyphs[name] = g
    glyphs["a"]["anchors"] = [("top", 50, 500)]
    glyphs["acutecomb"]["anchors"] = [("_top", 0, 500)]
    groups = {k: list(v) for k, v in GROUPS[gi].items()}
    if "missing-in-group" in env:
        for k in groups:
            groups[k].append("ghost")
        groups["public.kern1.Ghost"] = ["ghost"]
    kerning = []
    for s1, s2, v in entries:
        kerning.append((G1 if s1 == "@1" else s1, G2 if s2 == "@2" else s2, v))
    if "missing-in-group" in env:
        kerning.append(("ghost", "b", -99))
        kerning.append(("public.kern1.Ghost", "b", -98))
    if "long-names" in env:
        ren = {G1: "public.kern1." + LONG + ".ss01", G2: "public.kern2." + LONG + ".ss01"}
        groups = {ren.get(k, k): v for k, v in groups.items()}
        kerning = [(ren.get(l, l), ren.get(r, r), v) for l, r, v in kerning]
        groups["public.kern1." + LONG + ".ss02"] = ["one"]
        groups["public.kern2." + LONG + ".ss02"] = ["one"]
        kerning.append(("public.kern1." + LONG + ".ss02", "b", -33))
        kerning.append(("a", "public.kern2." + LONG + ".ss02", 21))
    spec = {"glyphs": glyphs, "order": list(glyphs), "groups": groups, "kerning": kerning, "lib": {}}
    fea = "".join(FEA[e] for e in env if e in FEA)
    if fea:
        spec["features"] = fea
    if "categories" in env:
        spec["lib"]["public.openTypeCategories"] = {
            n: ("mark" if n == "acutecomb" else "base") for n, _ in REP}
    return spec


def compile_font(spec, env, module="ufoLib2", writer2=False, prev_spec=None):
    import ufo2ft
    from ufo2ft.featureWriters import (CursFeatureWriter, GdefFeatureWriter, KernFeatureWriter,
                                       MarkFeatureWriter)
    font = B.build_font(spec, module)
    kw = {}
    if "q5" in env:
        kw["quantization"] = 5
    if "q10" in env:
        kw["quantization"] = 10
    if "no-ignoremarks" in env:
        kw["ignoreMarks"] = False
    opts = {}
    if kw or writer2 or prev_spec is not None:
        if writer2:
            from ufo2ft.featureWriters.kernFeatureWriter2 import KernFeatureWriter as KW2
            kwcls = KW2
        else:
            kwcls = KernFeatureWriter
        opts["featureWriters"] = [kwcls(**kw), MarkFeatureWriter, GdefFeatureWriter, CursFeatureWriter]
    if "skip-b" in env:
        opts["skipExportGlyphs"] = ["b"]
    if prev_spec is not None:
        # call history on the writer objects: the SAME instances first compile another font
        opts["featureWriters"] = [w() if isinstance(w, type) else w for w in opts["featureWriters"]]
        ufo2ft.compileTTF(B.build_font(prev_spec, module), useProductionNames=False,
                          featureWriters=opts["featureWriters"])
    tt = ufo2ft.compileTTF(font, useProductionNames=False, **opts)
    return O.reload(tt)


def tag_direction(tag):
    if tag == "DFLT":
        return "LTR"
    try:
        sc = unicodedata.ot_tag_to_script(tag)
    except Exception:
        sc = None
    if not sc:
        return "LTR"
    return unicodedata.script_horizontal_direction(sc, "LTR")


def evaluate(tt, spec, env, counters):
    """The invariant: every ordered pair under every selectable script."""
    lay = O.Layout(tt)
    props = glyph_props(env)
    exported = [g for g in tt.getGlyphOrder() if g in UNI]
    expset = set(tt.getGlyphOrder())
    kerning = {(a, b): v for a, b, v in spec["kerning"]}
    q = 5 if "q5" in env else (10 if "q10" in env else 1)
    viols = []
    table = []
    has_gpos = lay.gpos is not None and lay.gpos.ScriptList is not None
    tags = lay.script_tags() if has_gpos else []
    # where the compiled GDEF mark class comes from: the source ("categories"), or inferred by
    # feaLib from the generated mark classes ("inferred"), or no mark class at all
    if "categories" in env:
        gdef_marks = "source"
    else:
        gdef_marks = "inferred" if any(c == 3 for c in lay.classes.values()) else "none"
    supported = set()
    for g in exported:
        ext = props[g][0]
        if len(ext) == 1:
            supported |= ext
    if "gsub-alt" in env and "a" in exported:
        supported |= props["a"][0]
    for tag in tags:
        sc = None
        try:
            sc = unicodedata.ot_tag_to_script(tag)
        except Exception:
            pass
        if sc and "ls-multi" in env:
            supported.add(sc)
    for g1 in exported:
        for g2 in exported:
            raw, level = K.lookup(kerning, spec["groups"], g1, g2, expset)
            want = K.quantise(raw, q)
            s1, b1, _ = props[g1]
            s2, b2, _ = props[g2]
            types = {b1, b2} - {None}
            mixed = "R" in types and "L" in types
            if s1 and s2:
                scripts = s1 & s2
                if not scripts:
                    continue  # cannot be adjacent in a run of one script
            else:
                scripts = s1 or s2
            # a run has script S only if the text contains strong characters of S, i.e. the font must
            # support S: some exported glyph belongs to S alone, or S is declared by a languagesystem
            if scripts:
                scripts = scripts & supported
                if not scripts:
                    continue
            runs = []  # (description, tag, rtl)
            if scripts:
                for sc in sorted(scripts):
                    tag = lay.select_script_tag(sc) if has_gpos else None
                    rtl = unicodedata.script_horizontal_direction(sc, "LTR") == "RTL"
                    runs.append((sc, tag, rtl))
            else:
                # script-neutral pair: inherits whatever script the run has
                for tag in tags:
                    runs.append(("neutral@" + tag, tag, tag_direction(tag) == "RTL"))
                if not tags:
                    runs.append(("neutral@none", None, False))
            for desc, tag, rtl in runs:
                langs = [None] + (lay.languages(tag) if tag else [])
                for lang in langs:
                    if tag is None:
                        adj = {"xAdv1": 0, "xAdv2": 0, "xPla1": 0, "applied": []}
                    else:
                        lk = lay.lookups_for(tag, {"kern", "dist"}, lang)
                        adj = lay.pair_adjust(lk, g1, g2)
                    got = adj["xAdv1"] + adj["xAdv2"]
                    counters["pair_evaluations"] += 1
                    if want:
                        counters["nonzero_expected"] += 1
                    if level not in ("none", "cc"):
                        counters["exception_level_hits"] += 1
                    if len(adj["applied"]) > 1:
                        counters["pairs_seen_by_two_lookups"] += 1
                    script_has_kern = bool(tag and lay.lookups_for(tag, {"kern", "dist"}, lang))
                    feat = {"roles": [role(g1, props), role(g2, props)], "level": level,
                            "env": sorted(env), "rtl": rtl, "neutral_pair": not scripts,
                            "gdef_marks": gdef_marks, "script_has_kern": script_has_kern,
                            "applied": len(adj["applied"])}
                    detail = dict(g1=g1, g2=g2, run=desc, tag=tag, lang=lang, expected=want, raw=raw,
                                  observed=adj, kerning=spec["kerning"], groups=spec["groups"])
                    ok_adv = (got in (0, want)) if mixed else (got == want)
                    if not ok_adv:
                        viols.append(violation("kern-value", dict(feat, field="xAdvance"), **detail))
                    if rtl and "L" not in types and not mixed:
                        counters["rtl_placement_checks"] += 1
                        if adj["xPla1"] != want:
                            viols.append(violation("kern-value", dict(feat, field="xPlacement"), **detail))
                    table.append((g1, g2, desc, lang, got, adj.get("xPla1", 0)))
    return viols, table


def family1(s, gi):
    if s == "@1":
        return "@1"
    return "@1" if s in GROUPS[gi].get(G1, ()) else s


def family2(s, gi):
    if s == "@2":
        return "@2"
    return "@2" if s in GROUPS[gi].get(G2, ()) else s


class C05(Property):
    id = "C05"
    confluence = True
    rule = ("state = (group configuration, environment switches, set of <= depth kerning entries over "
            "56 keys x value palette); every ordered pair of the 13-glyph multi-script repertoire is "
            "shaped under every selectable script/language in every state; non-trivial = state has at "
            "least one kerning entry")
    assumptions = [
        "mc/otl_ref.py implements GPOS PairPos 1/2 semantics as a conforming shaper (first matching "
        "subtable incl. format-2 class 0, lookup flags, mark filtering sets); selftest covers it",
        "script selection: first tag of ot_tags_from_script(S) present in the ScriptList, else DFLT",
        "pairs mixing RTL and LTR bidi types may be dropped (statement); pairs whose glyphs share no "
        "script are not evaluated",
    ]
    trusted_base = ["fontTools binary reader", "fontTools.unicodedata", "mc/otl_ref.py", "mc/kern_ref.py"]

    def bounds(self, tier):
        if tier == "quick":
            return {"depth": 3, "groups": [0, 1, 4, 5, 7], "w2_deep": [7], "merge_max": 4, "values1": [-50, 6.5],
                    "values2": [35, 0, -7.5],
                    "env_depth1": True, "lattice": True, "lattice_values": [-50, 35, 0]}
        return {"depth": 3, "groups": list(range(len(GROUPS))), "w2_deep": [0, 1, 2, 4, 5, 7], "merge_max": 5,
                "values1": VALUES, "values2": VALUES,
                "env_depth1": True, "lattice": True, "lattice_values": [-50, 35, 0, 6.5]}

    def initial(self, b):
        out = []
        for gi in b["groups"]:
            out.append([{"G": gi, "env": [], "expand": True}])
            for e in ENVS:
                out.append([{"G": gi, "env": [e], "expand": "once"}])
            out.append([{"G": gi, "env": ["categories", "ls-multi"], "expand": "once"}])
            out.append([{"G": gi, "env": ["categories", "gsub-alt"], "expand": "once"}])
            out.append([{"G": gi, "env": ["categories", "gdef-carets"], "expand": "once"}])
        for gi in b["groups"]:
            if gi in (0, 4, 7):
                for env in ([], ["categories"]):
                    out.append([{"G": gi, "env": env, "expand": "once", "prev": "latn-only"}])
        for gi in b["groups"]:
            if gi in (3, 6):
                continue  # group configurations built around RTL glyphs
            out.append([{"G": gi, "env": [], "expand": True if gi in b["w2_deep"] else "once", "w2": True}])
            for e in ("categories", "ls-multi", "gsub-alt", "q5"):
                out.append([{"G": gi, "env": [e], "expand": "once", "w2": True}])
        if b["lattice"]:
            # the complete 4-level exception lattice for representative pairs (group config 7)
            vals = [None] + b["lattice_values"]
            for combo in itertools.product(vals, repeat=4):
                ent = []
                for (s1, s2), v in zip((("a", "b"), ("a", "@2"), ("@1", "b"), ("@1", "@2")), combo):
                    if v is not None:
                        ent.append([s1, s2, v])
                if len(ent) >= 2:
                    for env in ([], ["categories"]):
                        out.append([{"G": 7, "env": env, "expand": False}] + ent)
            # cross-script bucket merging (group config 8): every ordered selection of >= 2 of these
            # entries, because the bucket order follows the kerning insertion order
            if 8 in b["groups"] or True:
                pool = [["a", "b", -50], ["@1", "alpha", -20], ["A-cy", "@2", 35], ["alpha", "alpha", -90],
                        ["@1", "@2", 6.5]]
                for r in range(2, b["merge_max"] + 1):
                    for sel in itertools.permutations(pool, r):
                        out.append([{"G": 8, "env": [], "expand": False}] + [list(e) for e in sel])
            # same lattice on an RTL pair and on a neutral pair
            for (p1, p2) in (("alef-ar", "beh-ar"), ("period", "period")):
                for combo in itertools.product(vals, repeat=2):
                    ent = [[s1, s2, v] for (s1, s2), v in zip(((p1, p2), (p1, "@2")), combo) if v is not None]
                    if len(ent) == 2:
                        out.append([{"G": 7, "env": [], "expand": False}] + ent)
        return out

    def ops(self, h, b):
        head, ent = h[0], h[1:]
        if head["expand"] is False:
            return
        if head["expand"] == "once" and len(ent) >= 1:
            return
        gi = head["G"]
        keys = {(e[0], e[1]) for e in ent}
        vals = b["values1"] if not ent else b["values2"]
        for s1 in SIDE1:
            for s2 in SIDE2:
                if (s1, s2) in keys:
                    continue
                if head.get("w2") and (s1 in RTL_GLYPHS or s2 in RTL_GLYPHS):
                    continue
                if ent:
                    # depth >= 2: only keys that can interact with an existing one
                    if not any(family1(s1, gi) == family1(e[0], gi) or family2(s2, gi) == family2(e[1], gi)
                               for e in ent):
                        continue
                    if (s1 == "@1" and G1 not in GROUPS[gi]) or (s2 == "@2" and G2 not in GROUPS[gi]):
                        continue
                for v in vals:
                    yield [s1, s2, v]

    def canon(self, h, b):
        return jdump([h[0]["G"], sorted(h[0]["env"]), bool(h[0].get("w2")), bool(h[0].get("prev")),
                      sorted(h[1:], key=jdump)])

    def run(self, h, b):
        head, ent = h[0], h[1:]
        env = head["env"]
        w2 = bool(head.get("w2"))
        spec = make_spec(head["G"], env, ent, ltr_only=w2)
        counters = {"pair_evaluations": 0, "nonzero_expected": 0, "exception_level_hits": 0,
                    "pairs_seen_by_two_lookups": 0, "rtl_placement_checks": 0}
        prev = None
        if head.get("prev"):
            # a Latin-only font that shares the multi-script mark U+0301 with the full repertoire
            prev = make_spec(0, [], [["a", "b", -10], ["a", "acutecomb", -5]])
            prev["glyphs"] = {n: g for n, g in prev["glyphs"].items() if n in (".notdef", "a", "b", "period", "acutecomb")}
            prev["order"] = list(prev["glyphs"])
        tt = compile_font(spec, env, prev_spec=prev)
        viols, table = evaluate(tt, spec, env, counters)
        if prev is not None:
            counters["writer_reuse_states"] = 1
            for v in viols:
                v["features"]["reused_writers"] = True
        if w2:
            # the alternative writer on a single-direction font: same oracle, and same value table
            tt2 = compile_font(spec, env, writer2=True)
            v2, table2 = evaluate(tt2, spec, env, counters)
            for v in v2:
                v["features"]["writer"] = 2
            viols += v2
            t1 = {(a, b, r, l): (x, p) for a, b, r, l, x, p in table}
            t2 = {(a, b, r, l): (x, p) for a, b, r, l, x, p in table2}
            diff = [(k, t1.get(k), t2.get(k)) for k in sorted(set(t1) | set(t2), key=str) if t1.get(k) != t2.get(k)]
            # runs are keyed by script tag, which may legitimately differ between the writers'
            # ScriptLists; compare only runs both fonts have
            diff = [d for d in diff if d[1] is not None and d[2] is not None]
            # a disagreement on a (pair, run) where one writer already violates the value oracle is
            # that violation, not a second one
            bad = {(v["detail"]["g1"], v["detail"]["g2"], v["detail"]["run"], v["detail"]["lang"])
                   for v in viols if v["kind"] == "kern-value"}
            diff = [d for d in diff if tuple(d[0]) not in bad]
            counters["writer2_states"] = 1
            if diff:
                viols.append(violation("writers-disagree", {"env": sorted(env)}, differences=diff[:10],
                                       kerning=spec["kerning"], groups=spec["groups"]))
            table = table + table2
        # group identical signatures inside one state
        seen, out = set(), []
        for v in viols:
            k = jdump([v["kind"], v["features"]])
            if k not in seen:
                seen.add(k)
                out.append(v)
        return Result(out, counters, digest(table), substates=1, nontrivial=1 if ent else 0)

    def describe(self, h, b):
        return {"groups": GROUPS[h[0]["G"]], "env": h[0]["env"], "kerning": h[1:]}


PROPERTY = C05()
