"""Self tests of mc/var_ref.py: closed forms against hand-computed values and against fontTools'
VariationModel on every grid point; kerning lookup order; rule evaluation; plain swap."""
import itertools

from mc import var_ref as V

GRID01 = [0.0, 0.25, 0.5, 0.75, 1.0]
GRID11 = [-1.0, -0.5, 0.0, 0.5, 1.0]


def test_normalize():
    assert V.normalize_value(250, (0, 0, 1000)) == 0.25
    assert V.normalize_value(250, (0, 500, 1000)) == -0.5
    assert V.normalize_value(750, (0, 500, 1000)) == 0.5
    assert V.normalize_value(300, (100, 300, 900)) == 0.0
    assert V.normalize_value(-5, (0, 0, 1000)) == 0.0
    assert V.normalize_location({"A": 1000}, {"A": (0, 0, 1000), "B": (0, 500, 1000)}, ["A", "B"]) == (1.0, 0.0)


def test_hand_values():
    w, m = V.weights([(0,), (1,)], (0.25,), ["A"])
    assert m == "closed" and V.tree_blend([100, 200], w) == 125
    w, m = V.weights([(-1,), (0,), (1,)], (-0.5,), ["A"])
    assert m == "closed" and V.tree_blend([10, 0, 30], w) == 5
    w, m = V.weights([(0,), (0.5,), (1,)], (0.75,), ["A"])
    assert m == "closed" and V.tree_blend([0, 10, 30], w) == 20
    w, m = V.weights([(0, 0), (1, 0), (0, 1), (1, 1)], (0.5, 0.5), ["A", "B"])
    assert m == "closed" and V.tree_blend([0, 10, 30, 101], w) == 35.25
    # a side of the default without a master stays at the default
    w, m = V.weights([(-1,), (0,)], (0.5,), ["A"])
    assert m == "closed" and w == [0.0, 1.0]
    # no closed form: falls back to the model
    w, m = V.weights([(0,), (0.5,)], (1.0,), ["A"])
    assert m == "model"


def test_closed_forms_equal_variation_model():
    cases = [
        (["A"], [(0.0,)], GRID01),
        (["A"], [(0.0,), (1.0,)], GRID01),
        (["A"], [(-1.0,), (0.0,)], GRID11),
        (["A"], [(-1.0,), (0.0,), (1.0,)], GRID11),
        (["A"], [(1.0,), (0.0,), (-1.0,)], GRID11),
        (["A"], [(0.0,), (0.5,), (1.0,)], GRID01),
    ]
    for axes, masters, grid in cases:
        for t in grid:
            c = V.closed_form_weights(masters, (t,))
            assert c is not None, (masters, t)
            assert c == V.model_weights(masters, (t,), axes), (masters, t)
    axes = ["A", "B"]
    corners = [(0.0, 0.0), (1.0, 0.0), (0.0, 1.0), (1.0, 1.0)]
    for order in itertools.permutations(corners):
        if order[0] != (0.0, 0.0) and order[1] != (0.0, 0.0):
            continue
        for loc in itertools.product(GRID01, repeat=2):
            c = V.closed_form_weights(list(order), loc)
            assert c == V.model_weights(list(order), loc, axes), (order, loc)
    # masters moving along one of two axes
    for loc in itertools.product(GRID01, repeat=2):
        ms = [(0.0, 0.0), (0.0, 1.0)]
        assert V.closed_form_weights(ms, loc) == V.model_weights(ms, loc, axes)


def test_tree_blend_and_round():
    a = {"width": 500, "height": 0, "contours": [[[0, 0, "line", False], [100, -20, "line", False]]],
         "components": [["x", [1, 0, 0, 1, 10, -3]]], "anchors": [["top", 50, 90]]}
    b = {"width": 510, "height": 0, "contours": [[[0, 0, "line", False], [110, -26, "line", False]]],
         "components": [["x", [0.5, 0, 0, 1, 20, -9]]], "anchors": [["top", 55, 84]]}
    m = V.blend_glyph([a, b], [0.75, 0.25])
    assert m["width"] == 502.5 and m["contours"][0][1][:2] == [102.5, -21.5]
    assert m["components"][0][1] == [0.875, 0, 0, 1, 12.5, -4.5]
    r = V.round_glyph(m)
    assert r["width"] == 503 and r["contours"][0][1][:2] == [103, -21]
    assert r["components"][0][1] == [0.875, 0, 0, 1, 13, -4] and r["anchors"] == [["top", 51, 89]]
    try:
        V.tree_blend(["line", "curve"], [0.5, 0.5])
    except V.Incompatible:
        pass
    else:
        raise AssertionError("incompatible leaves accepted")
    assert V.otround(-7.5) == -7 and V.otround(7.5) == 8 and V.otround(-0.5) == 0


def test_kerning_lookup_order():
    groups = {"public.kern1.A": ["a", "a.alt"], "public.kern2.B": ["b", "c"], "other": ["a", "b"]}
    k = {("a", "public.kern2.B"): -7, ("public.kern1.A", "c"): 5, ("public.kern1.A", "public.kern2.B"): 20,
         ("a", "b"): -50}
    assert V.kerning_lookup(k, groups, ("a", "b")) == -50
    assert V.kerning_lookup(k, groups, ("a", "c")) == -7          # glyph+group beats group+glyph
    assert V.kerning_lookup(k, groups, ("a.alt", "c")) == 5
    assert V.kerning_lookup(k, groups, ("a.alt", "b")) == 20
    assert V.kerning_lookup(k, groups, ("b", "a")) == 0
    from fontTools.ufoLib.kerning import lookupKerningValue
    for pair in itertools.product(["a", "a.alt", "b", "c", "zz"], repeat=2):
        assert V.kerning_lookup(k, groups, pair) == lookupKerningValue(pair, k, groups), pair


def test_rules():
    rules = [{"name": "r1", "conditionSets": [[{"name": "W", "minimum": 250, "maximum": 750}]],
              "subs": [("a", "a.alt")]},
             {"name": "r2", "conditionSets": [[{"name": "W", "minimum": 500, "maximum": None}],
                                              [{"name": "D", "minimum": 900, "maximum": 1000}]],
              "subs": [("a.alt", "b"), ("zz", "a"), ("c", "c")]}]
    names = {"a", "a.alt", "b", "c"}
    assert V.rule_swaps(rules, {"W": 0, "D": 0}, names) == []
    assert V.rule_swaps(rules, {"W": 250, "D": 0}, names) == [("a", "a.alt")]
    assert V.rule_swaps(rules, {"W": 500, "D": 0}, names) == [("a", "a.alt"), ("a.alt", "b")]
    assert V.rule_swaps(rules, {"W": 1000, "D": 0}, names) == [("a.alt", "b")]
    assert V.rule_swaps(rules, {"W": 0, "D": 950}, names) == [("a.alt", "b")]


def test_swap_plain():
    def g(width, contours=(), components=(), anchors=(), unicodes=()):
        return {"width": width, "height": 0, "contours": list(contours), "components": list(components),
                "anchors": list(anchors), "unicodes": list(unicodes)}
    font = {"glyphs": {"a": g(500, [[[0, 0, "line", False]]], anchors=[["top", 1, 2]], unicodes=[0x61]),
                       "a.alt": g(520, [[[9, 9, "line", False]]], unicodes=[0xE001]),
                       "c": g(600, components=[["a", [1, 0, 0, 1, 0, 0]], ["a.alt", [1, 0, 0, 1, 5, 0]]],
                              unicodes=[0x63])},
            "kerning": {("a", "c"): -10, ("c", "a.alt"): 7, ("public.kern1.A", "a"): 3},
            "groups": {"public.kern1.A": ["a", "c"], "x": ["a.alt", "a"]}}
    s = V.swap_plain(font, "a", "a.alt")
    assert s["glyphs"]["a"]["width"] == 520 and s["glyphs"]["a"]["contours"] == [[[9, 9, "line", False]]]
    assert s["glyphs"]["a"]["unicodes"] == [0x61] and s["glyphs"]["a.alt"]["unicodes"] == [0xE001]
    assert s["glyphs"]["a.alt"]["anchors"] == [["top", 1, 2]] and s["glyphs"]["a"]["anchors"] == []
    assert [b for b, _ in s["glyphs"]["c"]["components"]] == ["a.alt", "a"]
    assert s["kerning"] == {("a.alt", "c"): -10, ("c", "a"): 7, ("public.kern1.A", "a.alt"): 3}
    assert s["groups"] == {"public.kern1.A": ["a.alt", "c"], "x": ["a", "a.alt"]}
    assert V.swap_plain(s, "a", "a.alt") == font
    assert V.swap_plain(s, "a.alt", "a") == font
    # swapping a glyph with a composite that uses it
    t = V.swap_plain(font, "a", "c")
    assert [b for b, _ in t["glyphs"]["a"]["components"]] == ["c", "a.alt"]
    assert t["glyphs"]["c"]["contours"] == [[[0, 0, "line", False]]] and t["glyphs"]["c"]["components"] == []
    assert V.swap_plain(t, "a", "c") == font
