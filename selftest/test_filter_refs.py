"""Self tests of the reference pieces used by C14 / C15 (hand-computed answers)."""
import math

from mc import outline_ref as R
from mc import ufo_build as B
from mc.glyphspec import canon_cycle, contour_multiset, spec_from_glyphset


def _spec():
    return {"glyphs": {
        "a": {"width": 500.5, "height": 0, "contours": [[(0, 0, "line"), (100.5, 0, "line"), (40, 80.5, "line")],
                                                        [(0, 0, "line"), (30, -20, None), (70.5, -20, None),
                                                         (100, 0, "curve")]],
              "anchors": [("top", 50.5, 80), ("_bottom", 1, -2.25)]},
        "b": {"width": 10, "height": 7, "components": [("a", (-1, 0, 0.5, 1, 3.5, 0.5)), ("a", (1, 0, 0, 1, 0, 0))]},
    }}


def test_spec_from_glyphset_roundtrip_both_libraries():
    for module in ("ufoLib2", "defcon"):
        font = B.build_font(_spec(), module)
        got = spec_from_glyphset(font)
        want = _spec()["glyphs"]
        assert list(got) == ["a", "b"], module
        for n in want:
            assert got[n]["width"] == want[n]["width"] and got[n]["height"] == want[n]["height"]
            assert [[tuple(p[:3]) for p in c] for c in got[n]["contours"]] == \
                [[tuple(p[:3]) for p in c] for c in want[n].get("contours", [])], (module, n)
            assert [(b, tuple(t)) for b, t in got[n]["components"]] == \
                [(b, tuple(t)) for b, t in want[n].get("components", [])]
            assert [tuple(a) for a in got[n]["anchors"]] == [tuple(a) for a in want[n].get("anchors", [])]
        # the resolver sees the same outline through the reader as on the plain spec
        assert contour_multiset(R.resolve(got, "b")) == contour_multiset(R.resolve(want, "b"))


def test_contour_multiset_rotation_invariant_direction_sensitive():
    tri = [("line", (), (100, 0)), ("line", (), (40, 80)), ("line", (), (0, 0))]
    rot = tri[1:] + tri[:1]
    rev = R.reverse_segments(tri)
    assert canon_cycle(tri) == canon_cycle(rot)
    assert canon_cycle(tri) != canon_cycle(rev)
    assert contour_multiset([tri, rev]) == contour_multiset([rev, rot])
    assert contour_multiset([tri, tri]) != contour_multiset([tri])


def test_flipped_component_reverses():
    g = {"a": {"contours": [[(0, 0, "line"), (10, 0, "line"), (0, 10, "line")]]},
         "f": {"components": [("a", (-1, 0, 0, 1, 0, 0))]},
         "ff": {"components": [("f", (1, 0, 0, -1, 0, 0))]}}
    # mirrored once: points mirrored, direction reversed
    want = [("line", (), (0.0, 10.0)), ("line", (), (-10.0, 0.0)), ("line", (), (0.0, 0.0))]
    assert canon_cycle(R.resolve(g, "f")[0]) == canon_cycle(want)
    # mirrored twice: a rotation by 180 degrees, original direction
    want2 = [("line", (), (-10.0, 0.0)), ("line", (), (0.0, -10.0)), ("line", (), (0.0, 0.0))]
    assert canon_cycle(R.resolve(g, "ff")[0]) == canon_cycle(want2)


def test_requested_matrix_hand_values():
    from props.c15_filter_rendering import requested_matrix
    o = {"OffsetX": 10, "OffsetY": 0, "ScaleX": 50, "ScaleY": 50, "Slant": 0, "Origin": 0}  # cap height 700
    M = requested_matrix(o)
    assert R.transform_point(M, (0, 700)) == (10, 700)
    assert R.transform_point(M, (100, 0)) == (60, 350)
    o = {"OffsetX": 0, "OffsetY": 10, "ScaleX": 100, "ScaleY": 100, "Slant": 0, "Origin": 2}
    assert requested_matrix(o) == (1, 0, 0, 1, 0, 10)          # origin is irrelevant for a pure offset
    o = {"OffsetX": 0, "OffsetY": 0, "ScaleX": 100, "ScaleY": 100, "Slant": 15, "Origin": 2}  # x-height 500
    M = requested_matrix(o)
    assert R.transform_point(M, (0, 500)) == (0, 500)
    x, y = R.transform_point(M, (0, 600))
    assert abs(x - 100 * math.tan(math.radians(15))) < 1e-12 and y == 600
    o = {"OffsetX": 0, "OffsetY": 0, "ScaleX": 150, "ScaleY": 50, "Slant": 0, "Origin": 3}   # half x-height 250
    assert R.transform_point(requested_matrix(o), (100, 350)) == (150, 300)


def test_transform_taint_pattern():
    from props.c15_filter_rendering import clean_for_transform
    ident = (1, 0, 0, 1, 0, 0)
    g = {"A": {"contours": [[]]}, "B": {"components": [("A", ident)]}, "C": {"components": [("B", ident)]}}
    assert clean_for_transform(g, {"A", "B", "C"}, "C", {})
    assert clean_for_transform(g, {"B", "C"}, "C", {})
    assert clean_for_transform(g, {"C"}, "C", {})
    assert not clean_for_transform(g, {"A", "C"}, "C", {})
    assert clean_for_transform(g, {"A", "C"}, "A", {})


def test_c14_inclusion_model():
    from props.c14_filter_contract import bases_closure, spec_included

    class G:
        def __init__(self, name, comps=(), n=0):
            self.name, self.components, self._n = name, list(comps), n

        def __len__(self):
            return self._n

    gs = {"a": G("a", n=1), "c": G("c", comps=["a"]), "s": G("s")}
    assert spec_included(["none"], [gs]) == {"a", "c", "s"}
    assert spec_included(["include", ["c", "zz"]], [gs]) == {"c"}
    assert spec_included(["exclude", ["c"]], [gs]) == {"a", "s"}
    assert spec_included(["predicate", "composites"], [gs]) == {"c"}
    assert spec_included(["predicate", "has-contours"], [gs]) == {"a"}
    before = [{"n": {"components": (("c", None, None),)}, "c": {"components": (("a", None, None),)},
               "a": {"components": ()}},
              {"n": {"components": (("x", None, None),)}, "x": {"components": ()}}]
    assert bases_closure(before, {"n"}) == {"c", "a", "x"}
    assert bases_closure(before, {"a"}) == set()
