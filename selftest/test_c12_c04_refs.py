"""Self tests of the comparison helpers of C12 (closing-line normal form, classification of the
specialiser's topology changes, hundredths rounding) and of C04 (long-metric count, boxes)."""
from props import c04_derived_fields as C4
from props import c12_cff_options as C12


def _v(*pts, close_explicit=False):
    out = [("moveTo", (pts[0],))] + [("lineTo", (p,)) for p in pts[1:]]
    if close_explicit:
        out.append(("lineTo", (pts[0],)))
    return out + [("closePath", ())]


def test_closing_line_is_not_a_difference():
    a = _v((0, 0), (10, 0), (5, 7))
    assert C12.same_drawing(a, _v((0, 0), (10, 0), (5, 7), close_explicit=True))
    assert not C12.same_drawing(a, _v((10, 0), (5, 7), (0, 0)))  # rotated start is a different sequence
    assert not C12.same_drawing(a, _v((0, 0), (10, 0), (5, 8)))
    assert not C12.same_drawing(a, _v((0, 0), (5, 7), (10, 0)))


def test_classification_of_specialiser_changes():
    base = _v((0, 0), (50, 0), (100, 0), (100, 100))
    assert C12.classify_structural(base, _v((0, 0), (100, 0), (100, 100))) == "axis-collinear-lines-merged"
    # dropping a vertex that is NOT between two axis-parallel collinear lines is not explained
    assert C12.classify_structural(_v((0, 0), (50, 10), (100, 20), (100, 100)),
                                   _v((0, 0), (100, 20), (100, 100))) is None
    z = _v((0, 0), (100, 0), (100, 0), (100, 100))
    assert C12.classify_structural(z, _v((0, 0), (100, 0), (100, 100))) == "zero-length-line-dropped"
    curve = [("moveTo", ((0, 0),)), ("curveTo", ((0, 0), (100, 50), (100, 50))), ("lineTo", ((0, 100),)),
             ("closePath", ())]
    assert C12.classify_structural(curve, _v((0, 0), (100, 50), (0, 100))) == "retracted-curve-to-line"
    half = [("moveTo", ((0, 0),)), ("curveTo", ((0, 0), (80, 50), (100, 50))), ("lineTo", ((0, 100),)),
            ("closePath", ())]
    assert C12.classify_structural(half, _v((0, 0), (100, 50), (0, 100))) is None
    # a moved coordinate is never explained
    assert C12.classify_structural(base, _v((0, 0), (100, 0), (100, 101))) is None


def test_hundredths_rounding():
    rv = [("moveTo", ((0, 0),)), ("curveTo", ((33.33332824707031, -20.333328247070312), (66.66665649414062, -20.5),
                                              (100.0, 0.0))), ("closePath", ())]
    dv = [("moveTo", ((0, 0),)), ("curveTo", ((33.33000183105469, -20.330001831054688), (66.66999816894531, -20.5),
                                              (100.0, 0.0))), ("closePath", ())]
    assert C12.hundredths_rounding(rv, dv) is not None
    far = [("moveTo", ((0, 0),)), ("curveTo", ((33.5, -20.33), (66.67, -20.5), (100.0, 0.0))), ("closePath", ())]
    assert C12.hundredths_rounding(rv, far) is None       # 0.17 away
    notcent = [("moveTo", ((0, 0),)), ("curveTo", ((33.335, -20.33), (66.67, -20.5), (100.0, 0.0))),
               ("closePath", ())]
    assert C12.hundredths_rounding(rv, notcent) is None   # close, but not a multiple of 1/100
    assert C12.hundredths_rounding(rv, rv[:1] + [("lineTo", ((1, 1),))] + rv[2:]) is None


def test_unsupported_model():
    bad = [c for c in C12.COMBOS if C12.unsupported(*c)]
    assert bad == [(2, "compreffor", 2)] and len(C12.COMBOS) == 18


def test_minimal_long_metrics():
    f = C4.minimal_long_metrics
    assert f([500]) == 1
    assert f([500, 500, 500]) == 1
    assert f([500, 600, 600]) == 2
    assert f([600, 500, 600]) == 3
    assert f([0, 600, 600, 600, 0]) == 5
    assert f([0, 600, 500, 500]) == 3
    # definition: smallest k >= 1 such that repeating advance k-1 reproduces the tail
    for seq in ([1, 2, 2, 2], [3, 3, 1], [5, 4, 4, 5, 5]):
        k = f(seq)
        assert seq[:k] + [seq[k - 1]] * (len(seq) - k) == seq
        assert k == 1 or seq[:k - 1] + [seq[k - 2]] * (len(seq) - k + 1) != seq


def test_union_and_boxes():
    assert C4.union([None, (0, 0, 10, 10), (-5, 2, 3, 20), None]) == (-5, 0, 10, 20)
    assert C4.union([None]) == (0, 0, 0, 0)
    assert C4._box_of([(1, 5), (-2, 7), (3, -1)]) == (-2, -1, 3, 7)
