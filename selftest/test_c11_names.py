"""Self tests of the C11 naming reference (hand-computed AGL-style answers)."""
from collections import Counter

from props import c11_production_names as P


G = {".notdef": None, "f": 0x66, "i": 0x69, "A": 0x41, "A.alt": None, "A.alt.ss01": None, "f_i": None,
     "f_i.alt": None, "X": 0xFFFF, "Y": 0x10000, "f_Y": None, "f_X": None, "B.sc": None, "a-b": None,
     "i_f.alt": None, "E": 0x1F600}


def test_uni_names():
    assert P.uni_name(0x41) == "uni0041" and P.uni_name(0xFFFF) == "uniFFFF"
    assert P.uni_name(0x10000) == "u10000" and P.uni_name(0x1F600) == "u1F600" and P.uni_name(0x10FFFF) == "u10FFFF"


def test_rule_firm_cases():
    assert P.rule_names("A", G) == {"uni0041"} and P.rule_names("E", G) == {"u1F600"}
    assert P.rule_names("A.alt", G) == {"uni0041.alt"}
    assert P.rule_names("A.alt.ss01", G) == {"uni0041.alt.ss01"}
    assert P.rule_names("f_i", G) == {"uni00660069"}
    assert P.rule_names("f_i.alt", G) == {"uni00660069.alt"}
    assert P.rule_names("f_X", G) == {"uni0066FFFF"}
    assert P.rule_names("f_Y", G) == {"uni0066_u10000"}
    assert P.rule_names(".notdef", G) == {".notdef"}


def test_rule_open_cases():
    # base glyph B missing: unchanged only
    assert P.rule_names("B.sc", G) == {"B.sc"}
    # ligature with a suffix whose suffixed components are missing: unchanged or AGL derivation
    assert P.rule_names("i_f.alt", G) == {"i_f.alt", "uni00690066.alt"}
    g2 = {"A": 0x41, "A.alt.ss01": None}
    assert P.rule_names("A.alt.ss01", g2) == {"A.alt.ss01", "uni0041.alt.ss01"}


def test_acceptable_with_maps():
    assert P.acceptable_names("A", G, {"A": "Aprod"}) == ({"Aprod"}, "map")
    assert P.acceptable_names("A", G, {"A": "bad name!"}) == ({"badname", "A"}, "map-illegal")
    assert P.acceptable_names("A", G, {"A": P.LONG64}) == ({"A"}, "map-illegal")
    assert P.acceptable_names("A", G, {"A": "", "f": "eff"})[0] == {"A", "uni0041"}
    assert P.acceptable_names("A", G, {}) == ({"uni0041"}, "rule")
    assert P.acceptable_names("a-b", G, None) == ({"ab"}, "rule")
    g = dict(G)
    g[P.LONG70] = None
    assert P.acceptable_names(P.LONG70, g, None) == ({P.LONG70}, "rule-too-long")


def test_check_names_uniqueness():
    g = {".notdef": None, "A": 0x41, "uni0041": None, "uni0041.1": None}
    order = [".notdef", "A", "uni0041", "uni0041.1"]
    c = Counter()
    assert P.check_names(order, [".notdef", "uni0041", "uni0041.1", "uni0041.1.1"], g, None, c) == []
    assert c["unique_suffix_added"] == 2
    bad = P.check_names(order, [".notdef", "uni0041", "uni0041", "uni0041.1"], g, None, Counter())
    assert [k for k, _ in bad] == ["names-not-unique"]
    bad = P.check_names(order, [".notdef", "uni0041.7", "uni0041.2", "uni0041.1"], g, None, Counter())
    assert [k for k, _ in bad] == ["wrong-name", "wrong-name"]  # plain name not taken by anybody
    bad = P.check_names(order, [".notdef", "u0041", "uni0041", "uni0041.1"], g, None, Counter())
    assert [k for k, _ in bad] == ["wrong-name"]


def test_switch_semantics():
    d = P.decide_switches
    assert d(True, {P.KEEP_KEY: False, P.USE_KEY: False}, False) == (True, True)
    assert d(False, {P.USE_KEY: True}, True) == (False, True)
    assert d(None, {}, False) == (False, True) and d(None, {}, True) == (True, True)
    assert d(None, {P.GLYPHS_KEY: True}, True) == (False, True)
    assert d(None, {P.GLYPHS_KEY: True, P.USE_KEY: True}, False) == (True, True)
    assert d(None, {P.GLYPHS_KEY: False}, False) == (False, True)
    assert d(None, {P.KEEP_KEY: False}, True) == (True, False)
