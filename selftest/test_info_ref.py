"""Self tests of mc/info_ref.py (hand-computed answers) and of the C16 value menus (UFO3 validity)."""
from fractions import Fraction

from mc import info_ref as IR


def test_otround_and_bits():
    assert IR.otround(0.5) == 1 and IR.otround(-0.5) == 0 and IR.otround(-1.5) == -1
    assert IR.otround(Fraction(5, 2)) == 3 and IR.otround(2.4999) == 2
    assert IR.bitlist([0, 1]) == 3 and IR.bitlist([2]) == 4 and IR.bitlist([]) == 0
    assert IR.bitlist([31, 32, 63], 32, 32) == (1 | (1 << 31))
    assert IR.bitlist([0, 5], 0, 16) == 33 and IR.bitlist([7, 7]) == 128


def test_bit_lists_are_sets():
    """A repeated (or out-of-order) bit number means 'bit set', once."""
    rep = {"openTypeOS2Selection": [7, 1, 7, 1], "openTypeOS2Type": [3, 8, 3, 8],
           "openTypeHeadFlags": [3, 0, 3, 12, 12], "openTypeOS2UnicodeRanges": [69, 1, 38, 1, 38, 31, 31],
           "openTypeOS2CodePageRanges": [63, 0, 63, 33, 0],
           "openTypeGaspRangeRecords": [{"rangeMaxPPEM": 8, "rangeGaspBehavior": [1, 1]},
                                        {"rangeMaxPPEM": 65535, "rangeGaspBehavior": [3, 0, 3]}]}
    e = IR.InfoRef(rep, 0).expected_fields("ttf")
    assert e[("OS/2", "fsSelection")] == ("eq", 0x80 | 0x02 | 0x40)      # + REGULAR from the style map
    assert e[("OS/2", "fsType")] == ("eq", 0x108) and e[("head", "flags")][1] == 0x1009
    assert [e[("OS/2", "ulUnicodeRange%d" % i)][1] for i in (1, 2, 3, 4)] == [0x80000002, 0x40, 0x20, 0]
    assert [e[("OS/2", "ulCodePageRange%d" % i)][1] for i in (1, 2)] == [1, 0x80000002]
    assert e[("gasp", "gaspRange")] == ("eq", {8: 2, 65535: 9})
    dedup = {k: (sorted(set(v)) if isinstance(v[0], int) else
                 [dict(r, rangeGaspBehavior=sorted(set(r["rangeGaspBehavior"]))) for r in v])
             for k, v in rep.items()}
    assert IR.InfoRef(dedup, 0).expected_fields("ttf") == e
    # every bit-list attribute of the C16 menu has a value with a repeated bit number
    from props import c16_fontinfo as P
    for attr in P.BIT_LIST_ATTRS:
        assert any(len(set(v)) != len(v) for v in P.MENU[attr]), attr
    assert any(P.has_repeated_bit({"openTypeGaspRangeRecords": v}) for v in P.MENU["openTypeGaspRangeRecords"])


def test_psname_rules():
    assert IR.psname_ok("Verif-Regular", "Verif-Regular")
    assert not IR.psname_ok("Verif-Regular", "Verif-Regula")
    assert IR.psname_ok("My Fam-Bold Italic", "MyFam-BoldItalic")
    assert not IR.psname_ok("My Fam-Bold", "My Fam-Bold")
    assert IR.psname_ok("Vérif-Regular", "Ve?rif-Regular") and IR.psname_ok("Vérif-Regular", "Vrif-Regular")
    assert not IR.psname_ok("A［B-R", "A[B-R")
    assert IR.psname_illegal("a b[\x01é") == {"space": [" "], "delimiter": ["["], "control": ["\x01"],
                                                  "non-ascii": ["é"]}
    assert IR.psname_illegal("".join(chr(i) for i in range(33, 127) if chr(i) not in "[](){}<>/%")) == {}


def test_ascii_reduction():
    assert IR.ascii_reduction_ok("plain", "plain") and not IR.ascii_reduction_ok("plain", "plai")
    assert IR.ascii_reduction_ok("© 2020 Ü", "Copyright 2020 U?")
    assert IR.ascii_reduction_ok("a (b)", "a b") and not IR.ascii_reduction_ok("a (b)", "a")
    assert IR.ascii_reduction_ok("é", "é") and not IR.ascii_reduction_ok("éx", "èx")


def test_fallbacks_upm_1000():
    r = IR.InfoRef({}, 1600000000)
    assert r.val("familyName") == "New Font" and r.val("styleName") == "Regular"
    assert (r.val("ascender"), r.val("descender"), r.val("capHeight"), r.val("xHeight")) == (800, -200, 700, 500)
    assert r.val("openTypeOS2TypoLineGap") == 200 and r.val("openTypeHheaAscender") == 1000
    assert r.val("openTypeOS2WinDescent") == 200 and r.val("openTypeOS2WinAscent") == 1000
    assert r.val("postscriptUnderlineThickness") == 50 and r.val("postscriptUnderlinePosition") == -75
    assert r.val("styleMapFamilyName") == "New Font" and r.val("styleMapStyleName") == "regular"
    assert r.val("openTypeNameVersion") == "Version 0.000"
    assert r.val("openTypeHeadCreated") == "2020/09/13 12:26:40"
    e = r.expected_fields("otf")
    assert e[("head", "flags")] == ("masked", 3, 0xFFFF) and e[("OS/2", "fsType")] == ("eq", 4)
    assert r.expected_fields("ttf")[("head", "flags")] == ("masked", 3, 0xFFFD)
    assert e[("OS/2", "fsSelection")] == ("eq", 64) and e[("head", "macStyle")] == ("eq", 0)
    assert e[("OS/2", "ySubscriptXSize")] == ("int", 650, True)
    assert e[("OS/2", "yStrikeoutPosition")] == ("int", 300, True)
    assert e[("hhea", "caretSlopeRise")] == ("int", 1000, True) and e[("hhea", "caretSlopeRun")] == ("int", 0, True)
    assert e[("CFF", "version")] == ("eq", "0.0") and e[("name", 0)] == ("absent",)
    assert e[("head", "created")] == ("eq", 1600000000 + 2082844800)


def test_style_map_and_names():
    r = IR.InfoRef({"familyName": "Fam", "styleName": "Condensed Bold"}, 0)
    assert r.val("styleMapFamilyName") == "Fam Condensed Bold" and r.val("styleMapStyleName") == "regular"
    r = IR.InfoRef({"familyName": "Fam", "styleName": "Bold Italic"}, 0)
    assert r.val("styleMapFamilyName") == "Fam" and r.val("styleMapStyleName") == "bold italic"
    e = r.expected_fields("ttf")
    assert e[("name", 2)] == ("str", "Bold Italic") and e[("head", "macStyle")] == ("eq", 3)
    assert e[("OS/2", "fsSelection")] == ("eq", 33)
    r = IR.InfoRef({"familyName": "Fam", "styleName": "Light", "styleMapStyleName": "italic"}, 0)
    assert r.val("styleMapFamilyName") == "Fam"
    r = IR.InfoRef({"versionMajor": 2, "versionMinor": 50}, 0)
    assert r.val("openTypeNameVersion") == "Version 2.050"
    assert r.expected_fields("ttf")[("head", "fontRevision")][1] == Fraction(41, 20)


def test_fractional_and_loose():
    r = IR.InfoRef({"unitsPerEm": 2048, "xHeight": 480.5, "ascender": 1638, "descender": -410}, 0)
    e = r.expected_fields("ttf")
    assert e[("OS/2", "sxHeight")] == ("int", Fraction(961, 2), True) and IR.otround(e[("OS/2", "sxHeight")][1]) == 481
    assert e[("OS/2", "sTypoLineGap")][2] is False and float(e[("OS/2", "sTypoLineGap")][1]) == 409.6
    assert e[("OS/2", "ySubscriptYOffset")] == ("int", Fraction(768, 5), False)
    assert e[("OS/2", "sCapHeight")] == ("int", 1434, True)  # round(2048 * 0.7 = 1433.6), one operand: strict


def test_menu_values_are_ufo3_valid():
    from fontTools.ufoLib import validateFontInfoVersion3ValueForAttribute as valid
    from props import c16_fontinfo as P
    for attr, vals in P.MENU.items():
        for v in vals:
            assert valid(attr, v), (attr, v)
    for name, base in P.BASES.items():
        for attr, v in base.items():
            assert valid(attr, v), (name, attr, v)
    # name records never collide with an attribute-fed record
    for recs in P.MENU["openTypeNameRecords"]:
        for r in recs:
            assert not (r["platformID"] == 3 and r["languageID"] == 0x409 and r["nameID"] < 25)
