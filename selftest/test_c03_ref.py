"""Hand-computed answers for the C03 reference functions (glyph order, character map, UVS)."""
from props.c03_order_cmap import chunk, ref_cmap, ref_order, ref_uvs, seqs, subsets


def test_order_notdef_first_then_listed_then_sorted():
    names = ["c", "b", ".notdef", "a", "B"]
    assert ref_order(names, None, None, False) == [".notdef", "B", "a", "b", "c"]
    assert ref_order(names, ["c", "zz", "a"], None, False) == [".notdef", "c", "a", "B", "b"]
    # '.notdef' listed last stays first; duplicates count once, at the first occurrence
    assert ref_order(names, ["b", "a", "b", ".notdef"], None, False) == [".notdef", "b", "a", "B", "c"]


def test_order_requested_beats_stored_and_empty_request_lists_nothing():
    names = ["a", "b", "c"]
    assert ref_order(names, ["c"], ["b"], False) == ["b", "a", "c"]
    assert ref_order(names, ["c"], [], False) == ["a", "b", "c"]
    assert ref_order(names, ["c"], None, False) == ["c", "a", "b"]


def test_order_notdef_synthesised_only_at_compile_seam():
    assert ref_order(["b", "a"], ["b"], None, True) == [".notdef", "b", "a"]
    assert ref_order(["b", "a"], ["b"], None, False) == ["b", "a"]
    assert ref_order([], None, None, True) == [".notdef"]
    assert ref_order([], ["zz"], None, False) == []


def test_cmap_split_and_duplicates():
    assert ref_cmap({"a": [0x41, 0x10000], "b": [0xFFFF], "c": []}) == (
        "ok", {0x41: "a", 0xFFFF: "b"}, {0x41: "a", 0xFFFF: "b", 0x10000: "a"})
    assert ref_cmap({"a": [0x41], "b": [0x41, 0x1F600], "c": [0x1F600]}) == ("reject", [0x41, 0x1F600])
    assert ref_cmap({"a": [], "b": [], "c": []}) == ("ok", {}, {})


def test_uvs_default_iff_base_glyph():
    full = {0x41: "a", 0x42: "b", 0x10000: "a"}
    got = ref_uvs({(0xFE00, 0x41): "a", (0xFE00, 0x42): "a", (0xE0100, 0x10000): "a",
                   (0xE0100, 0xFFFF): "b"}, full)
    assert got == {0xFE00: [(0x41, None), (0x42, "a")], 0xE0100: [(0xFFFF, "b"), (0x10000, None)]}


def test_enumeration_sizes():
    assert len(seqs("abcdef", 4)) == 1 + 6 + 36 + 216 + 1296
    assert len(subsets("abcde")) == 32
    # the chunks partition the stored-order space (plus the "key absent" variant)
    total = sum(len(chunk(f, 4)) for f in [None] + list("abcdef"))
    assert total == 1555 + 1
