"""Hand-computed answers for the reference GPOS interpreter (mc/otl_ref.py) and kern_ref."""
from fontTools.feaLib.builder import addOpenTypeFeaturesFromString
from fontTools.fontBuilder import FontBuilder

from mc import kern_ref as K
from mc import otl_ref as O

GLYPHS = [".notdef", "a", "b", "c", "d", "f_i", "acute", "grave", "ced"]


def _font(fea):
    fb = FontBuilder(1000, isTTF=True)
    fb.setupGlyphOrder(GLYPHS)
    fb.setupCharacterMap({0x61: "a", 0x62: "b"})
    fb.setupGlyf({g: __import__("fontTools.ttLib.tables._g_l_y_f", fromlist=["Glyph"]).Glyph() for g in GLYPHS})
    fb.setupHorizontalMetrics({g: (500, 0) for g in GLYPHS})
    fb.setupHorizontalHeader()
    fb.setupNameTable({"familyName": "T", "styleName": "R"})
    fb.setupOS2()
    fb.setupPost()
    addOpenTypeFeaturesFromString(fb.font, fea)
    return O.reload(fb.font)


def test_pairpos_format1_then_class0_shadowing():
    # lookup with a glyph pair subtable followed by a class subtable: (a, c) is not listed in the
    # first subtable, falls to the class subtable where c has class 0 -> value 0 and the lookup stops
    fea = """
    languagesystem DFLT dflt; languagesystem latn dflt;
    @L = [a b]; @R = [b d];
    feature kern {
        pos a b -10;
        pos @L @R -30;
    } kern;
    """
    lay = O.Layout(_font(fea))
    lk = lay.lookups_for("latn", {"kern"})
    assert lay.pair_adjust(lk, "a", "b")["xAdv1"] == -10
    assert lay.pair_adjust(lk, "a", "d")["xAdv1"] == -30
    assert lay.pair_adjust(lk, "b", "b")["xAdv1"] == -30
    assert lay.pair_adjust(lk, "a", "c")["xAdv1"] == 0
    assert lay.pair_adjust(lk, "c", "b")["xAdv1"] == 0


def test_two_lookups_accumulate_and_script_selection():
    fea = """
    languagesystem DFLT dflt;
    lookup k1 { pos a b -10; } k1;
    lookup k2 { pos a b <-5 0 -5 0>; } k2;
    feature kern {
        script DFLT; language dflt; lookup k1;
        script latn; language dflt; lookup k1; lookup k2;
        language TRK exclude_dflt; lookup k2;
    } kern;
    """
    lay = O.Layout(_font(fea))
    assert lay.select_script_tag("Latn") == "latn"
    assert lay.select_script_tag("Cyrl") == "DFLT"
    assert lay.pair_adjust(lay.lookups_for("DFLT", {"kern"}), "a", "b")["xAdv1"] == -10
    r = lay.pair_adjust(lay.lookups_for("latn", {"kern"}), "a", "b")
    assert r["xAdv1"] == -15 and r["xPla1"] == -5 and len(r["applied"]) == 2
    r = lay.pair_adjust(lay.lookups_for("latn", {"kern"}, "TRK "), "a", "b")
    assert r["xAdv1"] == -5


def test_ignore_marks_and_filtering_set():
    fea = """
    languagesystem DFLT dflt;
    @F = [grave];
    table GDEF { GlyphClassDef [a b], [f_i], [acute grave ced], ; } GDEF;
    lookup k1 { lookupflag IgnoreMarks; pos a acute -10; pos a b -20; } k1;
    lookup k2 { lookupflag UseMarkFilteringSet @F; pos a grave -7; pos a acute -9; } k2;
    feature kern { lookup k1; lookup k2; } kern;
    """
    lay = O.Layout(_font(fea))
    lk = lay.lookups_for("DFLT", {"kern"})
    # acute is skipped by IgnoreMarks (k1) and filtered out by the filtering set (k2)
    assert lay.pair_adjust(lk, "a", "acute")["xAdv1"] == 0
    assert lay.pair_adjust(lk, "a", "grave")["xAdv1"] == -7
    assert lay.pair_adjust(lk, "a", "b")["xAdv1"] == -20


def test_mark_base_lig_mkmk():
    fea = """
    languagesystem DFLT dflt;
    markClass acute <anchor 10 500> @TOP;
    markClass grave <anchor 20 510> @TOP;
    markClass ced <anchor 5 -10> @BOT;
    feature mark {
        pos base a <anchor 250 600> mark @TOP <anchor 200 0> mark @BOT;
        pos ligature f_i <anchor 100 700> mark @TOP ligComponent <anchor 400 710> mark @TOP;
    } mark;
    feature mkmk {
        pos mark acute <anchor 12 650> mark @TOP;
    } mkmk;
    """
    lay = O.Layout(_font(fea))
    mk = lay.lookups_for("DFLT", {"mark"})
    r = lay.mark_attachments(mk, "a", "acute")
    assert len(r) == 1 and r[0]["offset"] == (240, 100) and r[0]["type"] == "base"
    assert lay.mark_attachments(mk, "a", "ced")[0]["offset"] == (195, 10)
    assert lay.mark_attachments(mk, "b", "acute") == []
    r = lay.mark_attachments(mk, "f_i", "grave", component=2)
    assert r[0]["offset"] == (380, 200) and r[0]["type"] == "lig"
    assert lay.mark_attachments(mk, "f_i", "grave", component=1)[0]["offset"] == (80, 190)
    mm = lay.lookups_for("DFLT", {"mkmk"})
    r = lay.mark_attachments(mm, "acute", "grave")
    assert r[0]["offset"] == (-8, 140) and r[0]["type"] == "mark"


def test_kern_ref_precedence():
    groups = {"public.kern1.A": ["a", "c"], "public.kern2.B": ["b", "d"]}
    ex = {"a", "b", "c", "d"}
    k = {("public.kern1.A", "public.kern2.B"): -10}
    assert K.lookup(k, groups, "a", "b", ex) == (-10, "cc")
    k[("public.kern1.A", "b")] = -20
    assert K.lookup(k, groups, "a", "b", ex) == (-20, "cg")
    assert K.lookup(k, groups, "a", "d", ex) == (-10, "cc")
    k[("a", "public.kern2.B")] = -30
    assert K.lookup(k, groups, "a", "b", ex) == (-30, "gc")
    assert K.lookup(k, groups, "c", "b", ex) == (-20, "cg")
    k[("a", "b")] = 0
    assert K.lookup(k, groups, "a", "b", ex) == (0, "gg")
    assert K.lookup(k, groups, "b", "a", ex) == (0, "none")
    assert K.quantise(6.5) == 7 and K.quantise(-7.5) == -7 and K.quantise(12.5, 5) == 15


def test_outline_ref_flip_and_elevation():
    from mc import outline_ref as R
    glyphs = {"r": {"contours": [[(0, 0, "line"), (10, 0, "line"), (0, 10, "line")]]},
              "f": {"components": [("r", (-1, 0, 0, 1, 100, 0))]},
              "ff": {"components": [("f", (1, 0, 0, -1, 0, 0))]}}
    base = R.resolve(glyphs, "r")[0]
    flipped = R.resolve(glyphs, "f")[0]
    # mirrored: points mapped and direction reversed
    assert [s[2] for s in flipped] == [(100, 10), (90, 0), (100, 0)][::1] or R.cyclic_equal(
        [s[2] for s in flipped], [(100, 0), (100, 10), (90, 0)])
    twice = R.resolve(glyphs, "ff")[0]
    assert R.cyclic_equal([s[2] for s in twice], [(100, 0), (90, 0), (100, -10)])
    c1, c2 = R.elevate((0, 0), (3, 3), (6, 0))
    assert (float(c1[0]), float(c1[1]), float(c2[0]), float(c2[1])) == (2.0, 2.0, 4.0, 2.0)
    assert R.otround(0.5) == 1 and R.otround(-0.5) == 0 and R.otround(-1.5) == -1
