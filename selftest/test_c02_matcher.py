"""Self tests of the C02 reference pieces: cyclic matcher, implied-point expansion, cubic distance
bound, independent flattening, F2Dot14 classification.  Hand-built inputs with known answers."""
from mc import outline_ref as R
from props import c02_ttf_outlines as M


def _ctx(drop=False, quad=True, cubic=False, allowed=1.0 + M.ROUND_SLACK):
    return M.Ctx(drop, quad, cubic, allowed)


def _match(points, observed, reverse=False, **kw):
    segs = R.contour_to_segments(points)
    E = M.expected_items(segs, reverse)
    return any(M.match_cycle(E, OX, _ctx(**kw)) is not None for OX in M.expand_observed(observed))


TRI = [(0, 0, "line"), (100.5, 0, "line"), (40, 80.5, "line")]


def test_lines_rotation_and_direction():
    fwd = [(0, 0, "on"), (101, 0, "on"), (40, 81, "on")]
    assert _match(TRI, fwd)
    assert _match(TRI, fwd[1:] + fwd[:1])
    assert not _match(TRI, list(reversed(fwd)))
    assert _match(TRI, list(reversed(fwd)), reverse=True)
    # banker's rounding of 80.5 / 100.5 is not accepted
    assert not _match(TRI, [(0, 0, "on"), (100, 0, "on"), (40, 80, "on")])
    # an on-curve point turned off-curve is not accepted
    assert not _match(TRI, [(0, 0, "on"), (101, 0, "off"), (40, 81, "on")])


def test_negative_half_rounds_up():
    pts = [(0, 0, "line"), (-10.5, 0, "line"), (0, -20.5, "line")]
    assert _match(pts, [(0, 0, "on"), (-10, 0, "on"), (0, -20, "on")])
    assert not _match(pts, [(0, 0, "on"), (-11, 0, "on"), (0, -21, "on")])


def test_quadratic_implied_points():
    quad = [(0, 0, "line"), (50, -30.5, None), (100, 0, "qcurve"), (130, 50, None), (70, 110, None),
            (0, 60, "qcurve")]
    obs = [(0, 0, "on"), (50, -30, "off"), (100, 0, "on"), (130, 50, "off"), (70, 110, "off"), (0, 60, "on")]
    assert _match(quad, obs)
    # the implied point made explicit is a different point structure: not accepted
    obs2 = obs[:4] + [(100, 80, "on")] + obs[4:]
    assert not _match(quad, obs2)
    # dropping a real (non-implied) on-curve is never accepted, with or without the option
    obs3 = [p for p in obs if p[:2] != (100, 0)]
    assert not _match(quad, obs3)
    assert not _match(quad, obs3, drop=True)


def test_drop_implied_only_with_option():
    all_off = [(0, 0, "off"), (100, 0, "off"), (100, 100, "off"), (0, 100, "off")]
    assert _match(M.QCIRCLE, all_off, drop=True)
    assert not _match(M.QCIRCLE, all_off, drop=False)
    kept = [(0, 50, "on"), (0, 0, "off"), (50, 0, "on"), (100, 0, "off"), (100, 50, "on"), (100, 100, "off"),
            (50, 100, "on"), (0, 100, "off")]
    assert _match(M.QCIRCLE, kept, drop=True) and _match(M.QCIRCLE, kept, drop=False)
    # partially dropped
    part = [p for p in kept if p[:2] != (100, 50)]
    assert _match(M.QCIRCLE, part, drop=True) and not _match(M.QCIRCLE, part, drop=False)


def test_all_off_source_contour():
    obs = [(0, 0, "off"), (100, 0, "off"), (100, 101, "off"), (0, 100, "off")]
    assert _match(M.ALLOFF, obs)
    assert not _match(M.ALLOFF, list(reversed(obs)))
    assert _match(M.ALLOFF, list(reversed(obs)), reverse=True)


CUB = [(0, 0, "line"), (0, 55.25, None), (44.75, 100, None), (100, 100, "curve")]


def test_cubic_replaced_by_good_and_bad_splines():
    from fontTools.cu2qu import curve_to_quadratic
    q = curve_to_quadratic([(0, 0), (0, 55.25), (44.75, 100), (100, 100)], 1.0)
    offs = [(R.otround(x), R.otround(y), "off") for x, y in q[1:-1]]
    good = [(0, 0, "on")] + offs + [(100, 100, "on")]
    assert _match(CUB, good)
    assert not _match(CUB, good, quad=False)          # conversion not allowed -> must be verbatim
    flat = [(0, 0, "on"), (50, 50, "off"), (100, 100, "on")]  # a straight line instead of the arc
    assert not _match(CUB, flat)
    ctx = _ctx()
    E = M.expected_items(R.contour_to_segments(CUB), False)
    assert M.match_cycle(E, M.expand_observed(flat)[0], ctx) is None
    assert ctx.note is not None and 20 < ctx.note["distance"] < 40  # arc apex is ~29 units from the chord
    # the same spline shifted by 3 units in its controls exceeds 1 + 0.7072
    shifted = [(0, 0, "on")] + [(x + 3, y - 3, "off") for x, y, _ in offs] + [(100, 100, "on")]
    assert not _match(CUB, shifted)
    # ... but is fine under a 10-unit error
    assert _match(CUB, shifted, allowed=10 + M.ROUND_SLACK)


def test_cubic_kept_verbatim():
    kept = [(0, 0, "on"), (0, 55, "cubic"), (45, 100, "cubic"), (100, 100, "on")]
    assert _match(CUB, kept, cubic=True)
    assert not _match(CUB, kept, cubic=False)
    broken = [(0, 0, "on"), (0, 55, "cubic"), (45, 100, "off"), (100, 100, "on")]
    assert not _match(CUB, broken, cubic=True)
    rev = [(100, 100, "on"), (45, 100, "cubic"), (0, 55, "cubic"), (0, 0, "on")]
    assert _match(CUB, rev, reverse=True, cubic=True) and not _match(CUB, rev, cubic=True)


def test_spline_distance_values():
    cubic = ((0, 0), (0, 0), (100, 0), (100, 0))  # a straight segment
    ok, d = M.spline_distance(cubic, (0, 0), [(50, 10)], (100, 0), 1.0)
    assert not ok and 4.9 < d < 5.1  # quadratic apex is 5 above the line
    ok, d = M.spline_distance(cubic, (0, 0), [(50, 10)], (100, 0), 5.2)
    assert ok
    ok, d = M.spline_distance(cubic, (0, 0), [(50, 0)], (100, 0), 0.01)
    assert ok


def test_reference_flattening():
    g = {"a": {"contours": [TRI]},
         "m": {"contours": [TRI], "components": [("a", (1, 0, 0, 1, 5, 5))]},
         "b": {"components": [("a", (0.5, 0, 0, 0.5, 10, 0))]},
         "c": {"components": [("b", (-1, 0, 0, 1, 100, 0)), ("m", (1, 0, 0, 1, 1, 1))]},
         "d": {"components": [("c", (1, 0, 0, 1, 0.5, 0)), ("a", (1, 0, 0, 1, 0, 0))]}}
    assert M.ref_flatten(g, "b") == [("a", (0.5, 0, 0, 0.5, 10, 0))]
    # c: flipx after half-scale: x' = -(0.5x + 10) + 100 ; the mixed glyph m is a leaf
    assert M.ref_flatten(g, "c") == [("a", (-0.5, 0, 0, 0.5, 90, 0)), ("m", (1, 0, 0, 1, 1, 1))]
    assert M.ref_flatten(g, "d") == [("a", (-0.5, 0, 0, 0.5, 90.5, 0)), ("m", (1, 0, 0, 1, 1.5, 1)),
                                     ("a", (1, 0, 0, 1, 0, 0))]


def test_f2dot14_classes():
    assert M.classify_2x2((1, 0, 0, 1, 0, 0)) == "exact"
    assert M.classify_2x2((-2, 0, 0, M.MAX_F2DOT14, 0, 0)) == "exact"
    assert M.classify_2x2((2, 0, 0, 1, 0, 0)) == "clamp"
    assert M.classify_2x2((2.25, 0, 0, 1, 0, 0)) == "overflow"
    assert M.classify_2x2((1, 0, -2.5, 1, 0, 0)) == "overflow"
    assert M.classify_2x2((0.3, 0, 0, 1, 0, 0)) == "inexact"


def test_expand_observed_cubic_runs():
    # four cubic off-curves between two on-curves: one implied on-curve between 2nd and 3rd
    c = [(0, 0, "on"), (0, 10, "cubic"), (10, 20, "cubic"), (30, 20, "cubic"), (40, 10, "cubic"), (40, 0, "on")]
    ox = M.expand_observed(c)
    assert len(ox) == 1 and len(ox[0]) == 7
    assert ox[0][3] == (20.0, 20.0, "on", False)
