"""Unit tests of the reference models themselves; run by MANIFEST.setup_cmd (`./check selftest`)."""
import importlib
import pkgutil
import sys
import traceback


def main():
    failed = 0
    n = 0
    import selftest as pkg
    for m in sorted(pkgutil.iter_modules(pkg.__path__), key=lambda m: m.name):
        mod = importlib.import_module("selftest." + m.name)
        for name in sorted(dir(mod)):
            if name.startswith("test_"):
                n += 1
                try:
                    getattr(mod, name)()
                except Exception:
                    failed += 1
                    print(f"SELFTEST FAIL {m.name}.{name}")
                    traceback.print_exc()
    print(f"selftest: {n} tests, {failed} failed")
    return 1 if failed else 0
