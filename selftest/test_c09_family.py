"""Self tests of the C09 harness: the generated families really are point-compatible sources (the
precondition of the property), the structure readers report what a hand-built glyf / CFF font
contains, and the component-closure helper used by the sparse-master rule."""

from props import c09_interpolatable as M


def _types(contours):
    return [[p[2] for p in c] for c in contours]


HISTORIES = [
    ["comp", "nest", "nest"],
    ["mixed", "comp", "mixed"],
    ["comp", "d2x2:0", "d2x2:1"],
    ["sparse:comps", "d2x2:S", "nest"],
    ["sparse:mix", "mixed", "dflip"],
    ["sparse:bases", "comp", "d2x2:S"],
    ["skip:base", "skip:comp", "filt:dtc:0"],
]


def test_c09_sources_are_point_compatible():
    for ops in HISTORIES:
        st = M.interpret([{"entry": "ttfs_ds", "n": 4, "module": "ufoLib2", "flatten": False}] + ops)
        specs = [M.master_spec(st, m, 4) for m in range(4)]
        glyph_sets = [s["glyphs"] for s in specs]
        if st["sparse"]:
            glyph_sets.append(specs[0]["layers"]["S"]["glyphs"])
        ref = glyph_sets[0]
        assert all(set(gs) <= set(ref) for gs in glyph_sets)
        assert all(set(gs) == set(ref) for gs in glyph_sets[:4])
        for gs in glyph_sets[1:]:
            for name, g in gs.items():
                r = ref[name]
                assert _types(g.get("contours", [])) == _types(r.get("contours", [])), (ops, name)
                assert [b for b, _ in g.get("components", [])] == [b for b, _ in r.get("components", [])]
                # offsets may differ, the 2x2 only where the abstract description asks for it
                wants_diff = any(d for _, _, d in st["glyphs"][name]["comps"])
                if not wants_diff:
                    assert [tuple(t[:4]) for _, t in g.get("components", [])] == \
                        [tuple(t[:4]) for _, t in r.get("components", [])], (ops, name)
        # component references never dangle in a full master and never form a cycle
        for name, d in st["glyphs"].items():
            assert name not in M.bases_closure(st["glyphs"], [name])
            for b, _, _ in d["comps"]:
                assert b in st["glyphs"]


def test_c09_2x2_difference_is_in_exactly_one_master():
    st = M.interpret([{"entry": "ttfs", "n": 3, "module": "ufoLib2"}, "d2x2:1"])
    specs = [M.master_spec(st, m, 3)["glyphs"] for m in range(3)]
    for e, entry in enumerate(M.ENTRY):
        name = "t1%s.%s" % (entry, M.REP[0])
        vals = [specs[m][name]["components"][0][1][e] for m in range(3)]
        assert vals[0] == vals[2] != vals[1], (name, vals)
        others = [[specs[m][name]["components"][0][1][k] for k in range(4) if k != e] for m in range(3)]
        assert others[0] == others[1] == others[2]


def test_c09_palette_pairs_need_different_segment_counts():
    cnt = M.individual_counts()
    differing = sum(1 for i in range(M.NK) for j in range(M.NK) if cnt[(i, 0)] != cnt[(j, 1)])
    assert differing >= 100, differing
    assert len({cnt[(i, 0)] for i in range(M.NK)}) >= 7
    # the 5/4 scale and the dyadic offsets change the count for some shapes too
    assert any(cnt[(i, 0)] != cnt[(i, 2)] for i in range(M.NK))
    assert any(cnt[(i, 0)] != cnt[(i, 3)] for i in range(M.NK))


def test_c09_bases_closure():
    g = {"a": {"comps": []}, "b": {"comps": [("a", "id", None)]},
         "c": {"comps": [("b", "id", None), ("d", "id", None)]}, "d": {"comps": []},
         "e": {"comps": [("missing", "id", None)]}}
    assert M.bases_closure(g, ["c"]) == {"a", "b", "d"}
    assert M.bases_closure(g, ["a"]) == set()
    assert M.bases_closure(g, ["e"]) == {"missing"}


def test_c09_struct_readers():
    from fontTools.fontBuilder import FontBuilder
    from fontTools.pens.t2CharStringPen import T2CharStringPen
    from fontTools.pens.ttGlyphPen import TTGlyphPen

    order = [".notdef", "simple", "comp", "empty"]
    pen = TTGlyphPen(None)
    pen.moveTo((0, 0))
    pen.lineTo((100, 0))
    pen.qCurveTo((150, 50), (100, 100), (0, 100))
    pen.closePath()
    pen.moveTo((10, 10))
    pen.lineTo((20, 10))
    pen.lineTo((20, 20))
    pen.closePath()
    simple = pen.glyph()
    glyphs = {".notdef": TTGlyphPen(None).glyph(), "simple": simple, "empty": TTGlyphPen(None).glyph()}
    cpen = TTGlyphPen(glyphs)
    cpen.addComponent("simple", (1, 0, 0, 1, 5, 5))
    cpen.addComponent("simple", (-1, 0, 0.5, 1, 0, 0))
    glyphs["comp"] = cpen.glyph()
    fb = FontBuilder(1000, isTTF=True)
    fb.setupGlyphOrder(order)
    fb.setupCharacterMap({})
    fb.setupGlyf(glyphs)
    tt = fb.font
    assert M.ttf_struct(tt, "simple") == ["simple", ["11001", "111"]]
    assert M.ttf_struct(tt, "empty") == ["empty"]
    assert M.ttf_struct(tt, "comp") == ["composite", [["simple", [1.0, 0.0, 0.0, 1.0]],
                                                     ["simple", [-1.0, 0.0, 0.5, 1.0]]]]

    fb = FontBuilder(1000, isTTF=False)
    fb.setupGlyphOrder([".notdef", "a", "empty"])
    fb.setupCharacterMap({})
    cs = {}
    p = T2CharStringPen(500, None)
    cs[".notdef"] = p.getCharString()
    p = T2CharStringPen(500, None)
    p.moveTo((0, 0))
    p.lineTo((100, 0))
    p.curveTo((120, 40), (60, 90), (0, 50))
    p.closePath()
    cs["a"] = p.getCharString(optimize=False)
    cs["empty"] = T2CharStringPen(600, None).getCharString()
    fb.setupCFF("X", {}, cs, {})
    assert M.cff_struct(fb.font, "a") == ["cff", ["rmoveto", "rlineto", "rrcurveto", "endchar"]]
    assert M.cff_struct(fb.font, "empty") == ["empty"]
