"""Plain replay (no explorer) of the defect repaired by 'fix: decomposing components no longer copies
contour and point identifiers'.  Run: PYTHONPATH=/repo/Lib /venv/bin/python docs/finding_replays/C01_identifiers_defcon.py
Exit 1 = the defect is present (compileOTF raises, or the decomposed glyph carries duplicate identifiers)."""
import sys

import defcon
import ufoLib2

import ufo2ft
from ufo2ft.filters.decomposeComponents import DecomposeComponentsFilter


def build(mod):
    f = mod.Font()
    f.info.unitsPerEm, f.info.ascender, f.info.descender = 1000, 800, -200
    f.info.familyName, f.info.styleName = "T", "R"
    g = f.newGlyph("base")
    g.width = 500
    pen = g.getPointPen()
    pen.beginPath(identifier="c0")
    for i, p in enumerate([(0, 0), (100, 0), (50, 100)]):
        pen.addPoint(p, "line", identifier="p0_%d" % i)
    pen.endPath()
    c = f.newGlyph("comp")
    c.width = 500
    pen = c.getPointPen()
    pen.addComponent("base", (1, 0, 0, 1, 0, 0))
    pen.addComponent("base", (1, 0, 0, 1, 200, 0))
    return f


bad = 0
for mod in (ufoLib2, defcon):
    try:
        ufo2ft.compileOTF(build(mod))
    except Exception as e:  # noqa: BLE001
        print("compileOTF(%s) raised %s" % (mod.__name__, type(e).__name__))
        bad = 1
    f = build(mod)
    try:
        DecomposeComponentsFilter()(f)
    except Exception as e:  # noqa: BLE001
        print("DecomposeComponentsFilter(%s) raised %s" % (mod.__name__, type(e).__name__))
        bad = 1
        continue
    ids = [getattr(c, "identifier", None) for c in getattr(f["comp"], "contours", f["comp"])]
    ids = [i for i in ids if i is not None]
    if len(ids) != len(set(ids)):
        print("%s: duplicate contour identifiers after decomposition: %r" % (mod.__name__, ids))
        bad = 1
print("defect present" if bad else "ok")
sys.exit(bad)
