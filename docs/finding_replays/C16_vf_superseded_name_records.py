"""Plain replay (no explorer) of the defect repaired by 'fix: variable-font fontinfo overrides drop the name
records they supersede'.  Run: PYTHONPATH=/repo/Lib /venv/bin/python docs/finding_replays/C16_vf_superseded_name_records.py
Exit 1 = the defect is present."""
import sys

import ufoLib2
from fontTools.designspaceLib import (AxisDescriptor, DesignSpaceDocument, RangeAxisSubsetDescriptor,
                                      SourceDescriptor, VariableFontDescriptor)

import ufo2ft


def master(style, w):
    f = ufoLib2.Font()
    f.info.unitsPerEm, f.info.ascender, f.info.descender = 1000, 800, -200
    f.info.familyName, f.info.styleName = "Fam", style
    for n in (".notdef", "a"):
        g = f.newGlyph(n)
        g.width = w
        pen = g.getPointPen()
        pen.beginPath()
        for p in [(0, 0), (w // 5, 0), (50, 100)]:
            pen.addPoint(p, "line")
        pen.endPath()
    f["a"].unicodes = [0x61]
    return f


def build(override):
    ds = DesignSpaceDocument()
    a = AxisDescriptor()
    a.name, a.tag, a.minimum, a.default, a.maximum = "Width", "wdth", 50, 50, 100
    ds.addAxis(a)
    for style, w, loc in (("Condensed", 400, 50), ("Regular", 500, 100)):
        s = SourceDescriptor()
        s.font, s.location, s.name = master(style, w), {"Width": loc}, style
        s.familyName, s.styleName = "Fam", style
        ds.addSource(s)
    vf = VariableFontDescriptor(name="VF", axisSubsets=[RangeAxisSubsetDescriptor(name="Width")],
                                lib={"public.fontInfo": override})
    ds.addVariableFont(vf)
    return ds


bad = 0
# 1. the default source is 'Condensed' (IDs 16/17 written); the override makes the names RIBBI
tt = ufo2ft.compileVariableTTFs(build({"styleName": "Regular"}))["VF"]
names = {n.nameID: n.toUnicode() for n in tt["name"].names if n.platformID == 3}
if names.get(2) == "Regular" and names.get(17, "Regular") != "Regular":
    print("stale typographic subfamily: ID 2 %r but ID 17 %r" % (names.get(2), names.get(17)))
    bad = 1
# 2. an override string outside the BMP: one Windows-English record per ID
tt = ufo2ft.compileVariableTTFs(build({"styleMapFamilyName": "Fam \U0001F600"}))["VF"]
recs = [(n.platEncID, n.toUnicode()) for n in tt["name"].names
        if n.nameID == 1 and n.platformID == 3 and n.langID == 0x409]
if len({s for _, s in recs}) > 1:
    print("contradictory Windows-English records for ID 1: %r" % (recs,))
    bad = 1
print("defect present" if bad else "ok")
sys.exit(bad)
